"""C03 — solver-facing gradients and Jacobians are correct in the declared variable order;
the specialised shortcuts return what the general path returns.

Tie:    (i)   compute_jacobian(es, V) rows (and E.jacobian_row(V) itself)  vs  Py.computeJacobian / Py.jacRow
              — structural, exact;
        (ii)  which closure compile_jacobian / compile_gradient return (`__name__`) vs Py.compileJacobian /
              Py.compileGradient path (incl. KeyError when V misses a variable);
        (iii) numeric entries of the compiled callables vs the model run over doubles (tolerance + guard).
Oracle: forward-mode dual numbers (oracle.ref_grad) on the real compile_jacobian / compile_gradient /
        CompiledExpression.gradient output at regular points, entry (i, j) = d e_i / d V_j, for every V order;
        the three routes must also agree with each other.
"""
from __future__ import annotations

import math
import zlib
import warnings

import numpy as np

import core
import gen
import oracle
from ser import Ids, Ser, Unsupported, Deser, parse_sexp, rat, bits_to_float

LEAN_MODULE = "Optyx.Props.C03"
EXTRA_MODULES = ["Optyx.Props.PinsC03", "Optyx.Props.BuildTie", "Optyx.Props.ClosurePathTie", "Optyx.Props.SymbolicJacTie", "Optyx.Props.CompileEntryTie", "Optyx.Props.ScaledTie"]   # transcription anchors (harness/source_pins.py)
THEOREMS = [
    "Optyx.Props.Closures.closureTables_agree",
    "Optyx.Props.Closures.sanitizeShape_agrees",
    "Optyx.Props.C03.jacRow_sound",
    "Optyx.Props.C03.jacRow_length",
    "Optyx.Props.C03.unaryTables_agree",
    "Optyx.Props.C03.computeJacobian_entries",
    "Optyx.Props.C03.compileJacobian_entries",
    "Optyx.Props.C03.compileJacobian_constant_no_param",
    "Optyx.Props.C03.compileGradient_entries",
    "Optyx.Props.C03.compileJacobian_true_partial",
    "Optyx.Props.C03.compileGradient_true_partial",
    "Optyx.Props.BuildTie.compile_step",
    "Optyx.Props.BuildTie.compileVec_step",
    "Optyx.Props.ClosurePathTie.powerGradient_path",
    "Optyx.Props.ClosurePathTie.unaryGradient_path",
    "Optyx.Props.ClosurePathTie.compileGradient_path",
    "Optyx.Props.ClosurePathTie.compileHessian_path",
    "Optyx.Props.ClosurePathTie.compileJacobian_path",
    "Optyx.Props.SymbolicJacTie.computeJacobian_eq",
    "Optyx.Props.SymbolicJacTie.computeHessian_eq",
    "Optyx.Props.CompileEntryTie.compileExpression_eq",
    "Optyx.Props.CompileEntryTie.param_run",
    "Optyx.Props.ScaledTie.scaledEntry_eq",
    "Optyx.Props.ScaledTie.scaledLoop_step",
    "Optyx.Props.ScaledTie.scaledPattern_frame",
    "Optyx.Props.PinsC03.anchors",
    "Optyx.Props.C03.jacRow_sound_of_source_equations",
    "Optyx.Props.JacRowTie.jacRow_step",
    "Optyx.Props.JacRowTie.step_unique",
]
ASSUMPTIONS = [
    "entries are compared with Py.grad (the C02 theorem turns them into true partial derivatives at regular points)",
    "V has pairwise distinct names and contains every variable of the expressions; vectors have distinct elements "
    "(what the API constructs); x has len(V) entries",
    "element closures of the general path are modelled at their C01 specification (value of the entry at the point)",
    "float rounding is not modelled: entries are equal as real numbers (and the same double operations on the vectorised paths)",
    "a scaling constant np.log(2.0)/np.log(10.0) in `c * f` is outside the exact structural correspondence (kept as a product)",
]


def run_lean_unit(lines):
    return core.run_lean(lines)


# ----------------------------------------------------------------------------- shared helpers (also used by c17 / c19)


def ser_case(es, V, params=()):
    """serialise expressions and the declared variable list with one identity table"""
    ids = Ids()
    S = Ser(ids)
    es_s = [S.expr(e) for e in es]
    V_s = [S.var(v) for v in V]
    store = "(" + " ".join(f"({ids.of(p)} {rat(p.value)})" for p in params) + ")"
    return es_s, V_s, store


def plist(items):
    return "(" + " ".join(items) + ")"


def num_tok(x: float) -> str:
    if math.isnan(x):
        return "nan"
    if math.isinf(x):
        return "inf" if x > 0 else "-inf"
    if x == 0 and math.copysign(1.0, x) < 0:
        return "-0"
    return rat(x)


def point_text(xs) -> str:
    return plist([num_tok(float(v)) for v in xs])


def rows_text(J) -> str:
    S = Ser(with_ids=False)
    return plist([plist([S.expr(e) for e in row]) for row in J])


def parse_nums(text: str):
    """driver output `(f f ..)` / `((f ..) ..)` -> nested lists of floats"""
    def conv(t):
        if isinstance(t, list):
            return [conv(u) for u in t]
        return float("nan") if t == "nan" else bits_to_float(t)
    return conv(parse_sexp(text)[0])


def quiet(fn):
    with warnings.catch_warnings(), np.errstate(all="ignore"):
        warnings.simplefilter("ignore")
        return fn()


def grab(fn):
    """value or 'raise:<Class>'"""
    try:
        return quiet(fn)
    except Exception as ex:  # noqa: BLE001
        return f"raise:{type(ex).__name__}"


def all_params(es):
    from optyx.core.parameters import Parameter
    from optyx.core.expressions import BinaryOp, UnaryOp

    out, seen, stack = [], set(), list(es)
    while stack:
        n = stack.pop()
        if isinstance(n, Parameter):
            if id(n) not in seen:
                seen.add(id(n)); out.append(n)
        elif isinstance(n, BinaryOp):
            stack += [n.left, n.right]
        elif isinstance(n, UnaryOp):
            stack.append(n.operand)
        else:
            for attr in ("vector", "left", "right", "expression", "matrix"):
                sub = getattr(n, attr, None)
                ex = getattr(sub, "_expressions", None)
                if ex is not None:
                    for row in ex:
                        stack += list(row) if isinstance(row, (list, tuple)) else [row]
    return out


def names_of(es):
    s = set()
    for e in es:
        s |= {v.name for v in gen.expr_vars(e)}
    return s


def close(a, b, rtol=1e-9, atol=1e-11):
    if math.isnan(a) or math.isnan(b):
        return math.isnan(a) and math.isnan(b)
    if math.isinf(a) or math.isinf(b):
        return a == b
    return abs(a - b) <= atol + rtol * max(abs(a), abs(b))


# ----------------------------------------------------------------------------- call sequences (history independence)
#
# The model's closures are *stateless*: `clo.run x σ` depends only on the point and on the parameter store at call
# time.  The real callables are Python closures that may keep state between calls (memoised last point, reused
# buffers, references to the caller's array).  A call sequence drives ONE compiled callable through several requests
# and demands that every answer equals what a freshly compiled callable returns when asked that point once.
#   steps:  ("new", xs)    call with a new array holding xs
#           ("same", xs)   write xs into the shared buffer *in place*, call with that very array object
#           ("again",)     call with the shared buffer, untouched
#           ("set", k, v)  set the k-th Parameter of the expressions to v (no call)


def compile_kind(kind, es, V):
    """kind ∈ grad | jac | hess; `es` a list of expressions (grad / hess use es[0])"""
    import optyx.core.autodiff as AD
    import optyx.core.compiler as CC

    if kind == "grad":
        return CC.compile_gradient(es[0], V)
    if kind == "jac":
        return AD.compile_jacobian(es, V)
    return AD.compile_hessian(es[0], V)


def same_value(a: float, b: float) -> bool:
    if math.isnan(a) or math.isnan(b):
        return math.isnan(a) and math.isnan(b)
    if math.isinf(a) or math.isinf(b):
        return a == b
    return abs(a - b) <= 1e-12 * max(1.0, abs(a), abs(b))


def same_array(a, b) -> bool:
    a = np.asarray(a, dtype=float); b = np.asarray(b, dtype=float)
    return a.shape == b.shape and all(same_value(float(u), float(v)) for u, v in zip(a.ravel(), b.ravel()))


def standard_sequences(rng, p, q, twins=None):
    """the call-sequence family for two distinct points p, q (and optionally a pair of points that compare equal
    with == but are different inputs, e.g. +0.0 / -0.0 coordinates)"""
    seqs = [
        ("repeat-new-arrays", [("new", p), ("new", p), ("new", p)]),
        ("repeat-same-object", [("same", p), ("again",), ("again",)]),
        ("p-q-p", [("new", p), ("new", q), ("new", p)]),
        ("q-p-p", [("new", q), ("new", p), ("new", p)]),
        ("in-place", [("same", q), ("same", p), ("again",), ("same", q), ("again",)]),
        ("in-place-then-new", [("same", p), ("new", p), ("same", q), ("new", p)]),
        ("array-forms", [("new", p), ("view", p), ("rev", p), ("view", q), ("rev", p)]),
    ]
    if INCLUDE_CALLER_MUTATION:
        seqs.append(("caller-overwrites-result", [("new", p), ("new", p), ("new", q), ("same", p), ("again",)]))
    if twins is not None:
        a, b = twins
        seqs.append(("equal-but-distinct", [("new", a), ("new", b), ("new", a)]))
        seqs.append(("equal-but-distinct-in-place", [("same", a), ("same", b), ("again",), ("same", a)]))
    return seqs


def light_sequences(p, q, n_params=0):
    """reduced family for the value checks at regular points (C03 / C17): a stale memo, a kept reference to the
    caller's array or a frozen parameter would show as a history-dependent answer"""
    seqs = [
        ("repeat-same-object", [("same", p), ("again",), ("new", p)]),
        ("in-place", [("same", q), ("same", p), ("again",), ("same", q)]),
        ("p-q-p", [("new", p), ("new", q), ("new", p)]),
        ("array-forms", [("new", p), ("view", p), ("rev", p), ("view", q), ("rev", p), ("same", p)]),
    ]
    if INCLUDE_CALLER_MUTATION:
        seqs.append(("caller-overwrites-result", [("new", p), ("new", p), ("new", q), ("same", p), ("again",)]))
    if n_params:
        seqs.append(("parameter-change", [("new", p), ("set", 0, 2.75), ("new", p), ("same", p), ("set", 0, -0.5),
                                          ("again",), ("new", q), ("set", 0, 1.0), ("new", p), ("set", 0, 0.0), ("new", p),
                                          ("set", 0, -2.75), ("again",), ("set", 0, 2.75), ("new", q)]))
    return seqs


def run_steps(fn, steps, params, keep=None, scribble_after=None):
    """drive one callable; returns [(step_index, xs, param_values, output | 'raise:…')] for every call"""
    out = []
    buf = None
    cur = None
    for si, st in enumerate(steps):
        if st[0] == "set":
            params[st[1]].set(st[2])
            continue
        if st[0] == "new":
            cur = [float(a) for a in st[1]]
            arg = np.array(cur, dtype=float)
        elif st[0] == "same":
            cur = [float(a) for a in st[1]]
            if buf is None or len(buf) != len(cur):
                buf = np.array(cur, dtype=float)
            else:
                buf[:] = cur
            arg = buf
        elif st[0] == "view":      # non-contiguous view (every second element of a larger buffer)
            cur = [float(a) for a in st[1]]
            big = np.full(2 * len(cur) + 1, 123.0)
            big[0:2 * len(cur):2] = cur
            arg = big[0:2 * len(cur):2]
        elif st[0] == "rev":       # negative-stride view
            cur = [float(a) for a in st[1]]
            arg = np.array(cur[::-1], dtype=float)[::-1]
        else:  # again
            arg = buf if buf is not None else np.array(cur, dtype=float)
        raw = grab(lambda: fn(arg))
        res = raw if isinstance(raw, str) else grab(lambda: np.array(raw, dtype=float, copy=True))
        if not isinstance(res, str) and not np.array_equal(np.asarray(arg, dtype=float), np.array(cur, dtype=float)):
            res = "raise:InputArrayMutatedByCallable"
        if keep is not None and isinstance(raw, np.ndarray) and not isinstance(res, str):
            keep.append((raw, res, si, list(cur)))          # the very object handed to the caller + its value at that moment
        out.append((si, list(cur), tuple(float(np.asarray(p.value)) for p in params), res))
        if INCLUDE_CALLER_MUTATION and scribble_after is not None and si in scribble_after and isinstance(raw, np.ndarray) and raw.flags.writeable:
            raw[...] = 7.5                                   # the caller overwrites what it was given (solvers scale gradients in place)
            if keep:
                keep.pop()
    return out


# Retention (checklist 18): arrays returned by earlier calls must stay valid after later calls on the same compiled object and
# on OTHER compiled objects (of the same and of different expressions).  Every returned ndarray is kept together with a
# snapshot; `recheck_retained` compares them again later.
RETAINED = []
RETAINED_FAILS = []
INCLUDE_CALLER_MUTATION = False   # a caller overwriting a returned array must not change later results — see report (constant closures)


def same_bits(a, b) -> bool:
    a = np.asarray(a, dtype=float); b = np.asarray(b, dtype=float)
    return a.shape == b.shape and bool(np.array_equal(a, b, equal_nan=True))


def recheck_retained(flush=True):
    """every array kept in the pool must still hold the value it had when it was returned"""
    for raw, snap, info in RETAINED:
        if not same_bits(raw, snap):
            f = dict(info)
            f.update({"what": "an array returned by an earlier call was changed by later calls on OTHER compiled objects "
                              "(the callables share an output buffer)", "kind": "earlier-result-changed", "scope": "other-objects",
                      "returned": np.asarray(snap).tolist(), "now": np.asarray(raw).tolist()})
            RETAINED_FAILS.append(f)
    if flush:
        del RETAINED[:]


def check_sequences(kind, es, V, named_seqs, require_finite=False):
    """history independence of one compiled callable kind on the real code.
    returns (failures, n_calls)"""
    params = all_params(es)
    saved = [p.value for p in params]
    refs = {}
    fails, n_calls = [], 0

    def ref(xs, pv):
        key = (tuple(num_tok(a) for a in xs), pv)
        if key not in refs:
            for p_, v in zip(params, pv):
                p_.set(v)
            f0 = grab(lambda: compile_kind(kind, es, V))
            refs[key] = f0 if isinstance(f0, str) else grab(lambda: np.array(f0(np.array(xs, dtype=float)), dtype=float, copy=True))
        return refs[key]

    try:
        for name, steps in named_seqs:
            for p_, v in zip(params, saved):
                p_.set(v)
            fn = grab(lambda: compile_kind(kind, es, V))
            if isinstance(fn, str):
                break
            kept = []
            scrib = {si for si, st in enumerate(steps) if st[0] != "set"} if (INCLUDE_CALLER_MUTATION and name.startswith("caller-overwrites")) else None
            calls = run_steps(fn, steps, params, keep=kept, scribble_after=scrib)
            now = tuple(float(np.asarray(p_.value)) for p_ in params)
            # results of earlier calls stay valid after the later calls of this sequence (same compiled object)
            for raw, snap, si0, xs0 in kept:
                if not same_bits(raw, snap):
                    fails.append({"what": "an array returned by an earlier call was changed by a later call on the same compiled "
                                          "callable (the returned array aliases a buffer that later calls overwrite)",
                                  "kind": "call-sequence", "failure_class": "earlier-result-changed", "deriv": kind,
                                  "path": getattr(fn, "__name__", "?"), "sequence_name": name, "sequence": [list(st) for st in steps],
                                  "call_index": si0, "step": si0, "x": xs0, "param_values": list(now),
                                  "got": np.asarray(raw).tolist(), "want": np.asarray(snap).tolist()})
                    break
            if fails:
                break
            if len(RETAINED) >= 6000:
                recheck_retained()
            if len(RETAINED) < 20000:
                info = {"deriv": kind, "path": getattr(fn, "__name__", "?"), "sequence_name": name, "sequence": [list(st) for st in steps]}
                try:
                    info.update(payload_of(es, V, kept[-1][3] if kept else [], params))
                except Unsupported:
                    info.update({"exprs_repr": [repr(e)[:200] for e in es], "V_names": [v.name for v in V]})
                for raw, snap, si0, xs0 in kept[-2:]:
                    RETAINED.append((raw, snap, dict(info, step=si0, x=xs0)))
            for ci, (si, xs, pv, res) in enumerate(calls):
                n_calls += 1
                want = ref(xs, pv)
                for p_, v in zip(params, now):
                    p_.set(v)
                bad = None
                if isinstance(res, str) or isinstance(want, str):
                    if res is not want and (str(res) != str(want)):
                        bad = "a repeated request raised / stopped raising"
                elif require_finite and not np.all(np.isfinite(res)):
                    bad = "a repeated request returned a non-finite entry at a finite point"
                elif not same_array(res, want):
                    bad = "the answer depends on the call history: it differs from a fresh callable asked this point once"
                if bad:
                    fails.append({"what": bad, "kind": "call-sequence", "deriv": kind, "path": getattr(fn, "__name__", "?"),
                                  "sequence_name": name, "sequence": [list(st) for st in steps], "call_index": ci, "step": si,
                                  "x": xs, "param_values": list(pv),
                                  "got": res if isinstance(res, str) else np.asarray(res).tolist(),
                                  "want": want if isinstance(want, str) else np.asarray(want).tolist()})
                    break
            if fails:
                break
    finally:
        for p_, v in zip(params, saved):
            p_.set(v)
    return fails, n_calls


def replay_sequence(f) -> bool:
    es, V, _ = rebuild(dict(f, x=f.get("x", [])))
    steps = [tuple(st) for st in f["sequence"]]
    fails, n = check_sequences(f["deriv"], es, V, [(f.get("sequence_name", "replay"), steps)],
                               require_finite=bool(f.get("require_finite", False)))
    print("calls made:", n)
    for g in fails:
        print("FAIL:", {k: g[k] for k in ("what", "path", "sequence_name", "call_index", "x", "got", "want")})
    return not fails


# ----------------------------------------------------------------------------- inputs


def clone_vars(vs):
    """other objects with the same names (Variable.__eq__ is by name, `is` is not)"""
    from optyx import Variable

    return [Variable(v.name) for v in vs]


def v_orders(rng, own, U, tag):
    """declared-variable lists for an expression whose variables (in its own order) are `own`"""
    extras = [U.scalars[0], U.scalars[2], U.y[0], U.w[4], U.M[1, 0]]
    extras = [v for v in extras if v.name not in {o.name for o in own}]
    perm = list(own); rng.shuffle(perm)
    inter = []
    for i, v in enumerate(own):
        inter.append(v)
        if i < len(extras):
            inter.append(extras[i])
    out = [("own", list(own)), ("rev", list(reversed(own))), ("perm", perm),
           ("super-after", list(own) + extras[:2]), ("super-before", extras[:2] + list(own)),
           ("interleaved", inter), ("clones", clone_vars(own)),
           ("clones-perm", clone_vars(perm) + extras[:1])]
    if len(own) > 1:
        out.append(("missing", list(own[1:])))
        mix = list(own); mix[0] = clone_vars(own[:1])[0]
        out.append(("one-clone", mix))
    return [(f"{tag}|{t}", V) for t, V in out]


def own_vars(e):
    """variables in the expression's own (vector) order, distinct by name"""
    seen, out = set(), []
    vec = None
    for attr in ("vector", "left", "matrix"):
        vec = getattr(e, attr, None)
        if vec is not None:
            break
    cand = []
    if vec is not None and hasattr(vec, "_variables"):
        vs = vec._variables
        cand = [v for row in vs for v in row] if vs and isinstance(vs[0], (list, tuple)) else list(vs)
        r = getattr(e, "right", None)
        if r is not None and hasattr(r, "_variables"):
            cand += list(r._variables)
    cand += gen.expr_vars(e)
    for v in cand:
        if v.name not in seen:
            seen.add(v.name); out.append(v)
    return out


def row_nodes(rng, U):
    """one representative per decision cell of the eight jacobian_row implementations (+ non-row nodes)"""
    from optyx.core import vectors as Vc
    from optyx.core import matrices as Mx
    from optyx.core.functions import sin

    n = U.n
    x, y, w, M, S = U.x, U.y, U.w, U.M, U.S
    views = [("x", x), ("x[0:2]", x[0:2]), ("w[1:4]", w[1:4]), ("w[0:5:2]", w[0:5:2]), ("x[::-1]", x[::-1]),
             ("w[3:0:-1]", w[3:0:-1]), ("Mrow", M[0, :]), ("Mcol", M[:, 1]), ("Srow", S[1, :])]
    nodes = []
    for vn, v in views:
        nodes.append((f"vs:{vn}", Vc.VectorSum(v)))
        cs = np.array([2.0, -1.0, 0.5, 3.0, 0.0][:len(v)])
        nodes.append((f"lc:{vn}", Vc.LinearCombination(cs, v)))
        Q = np.array([[(i + 1.0) * (j - 1.0) + (0.5 if i == j else 0.0) for j in range(len(v))] for i in range(len(v))])
        nodes.append((f"qf:{vn}", Mx.QuadraticForm(v, Q)))
        nodes.append((f"dotself:{vn}", Vc.DotProduct(v, v)))
        for k in (1, 2, 3, 0.5, -1, 2.5, 0, -2):
            nodes.append((f"ps{k}:{vn}", Vc.VectorPowerSum(v, k)))
        for op in gen.VOPS:
            nodes.append((f"us{op}:{vn}", Vc.VectorUnarySum(v, op)))
    # dot products: distinct vectors, same elements through another object, overlapping / stepped / reversed slices
    dots = [("x.y", x, y), ("x.x[0:3]", x, x[0:n]), ("w[0:3].w[1:4]", w[0:3], w[1:4]), ("w[0:2].w[1:3]", w[0:2], w[1:3]),
            ("x.x[::-1]", x, x[::-1]), ("w[0:5:2].w[2:5]", w[0:5:2], w[2:5]), ("w[0:4:2].w[0:4:3]", w[0:4:2], w[0:4:3]),
            ("Mrow.Mcol", M[0, :], M[:, 0]), ("Srow.Scol", S[0, :], S[:, 1]), ("x.(y+1)", x, y + 1.0),
            ("(2x).x", 2.0 * x, x)]
    for dn, l, r in dots:
        nodes.append((f"dot:{dn}", Vc.DotProduct(l, r)))
    for mn, m in (("M", M), ("S", S), ("M.T", M.T), ("S[0:2,0:2]", S[0:2, 0:2])):
        nodes.append((f"msv:{mn}", m.sum()))
    nodes.append(("mse:S*S", (S * S).sum()))
    nodes.append(("mse:M+1", (M + 1.0).sum()))
    # nodes without a row of their own (fall back to gradient())
    nodes.append(("l2:x", Vc.L2Norm(x)))
    nodes.append(("l1:w[1:4]", Vc.L1Norm(w[1:4])))
    nodes.append(("es:x-y", (x - y).sum()))
    nodes.append(("fro:S", Mx.FrobeniusNorm(S)))
    nodes.append(("lc:ve", Vc.LinearCombination(np.array([1.0, 2.0, -1.0]), x * 2.0)))
    nodes.append(("qf:ve", Mx.QuadraticForm(x + 1.0, np.array([[1.0, 2.0, 0.0], [0.0, 1.0, 0.5], [1.0, 0.0, 3.0]]))))
    nodes.append(("scalar:sin", sin(U.scalars[0]) * U.scalars[1]))
    nodes.append(("scalar:lin", 2.0 * U.scalars[0] - U.scalars[1] + 1.0))
    nodes.append(("scalar:var", U.x[1]))
    nodes.append(("scalar:2x", 2.0 * U.x[1]))
    nodes.append(("scalar:x2", U.x[1] * 2.0))
    nodes.append(("scalar:param", U.params[0] * U.x[0]))
    nodes.append(("scalar:param-alone", U.params[0] + 0.0))
    return nodes


def wrappers(U):
    from optyx.core.expressions import Constant

    p = U.params[0]
    return [
        ("id", lambda e: e), ("+c", lambda e: e + 1.5), ("c+", lambda e: 1.5 + e), ("-c", lambda e: e - 2.0),
        ("c*", lambda e: 2.0 * e), ("*c", lambda e: e * 3.0), ("c-", lambda e: 1.0 - e), ("neg", lambda e: -e),
        ("/c", lambda e: e / 2.0), ("0*", lambda e: 0.0 * e), ("(2(e+1))3", lambda e: (2.0 * (e + 1.0)) * 3.0),
        ("int2*", lambda e: 2 * e), ("p*", lambda e: p * e), ("+p", lambda e: e + p),
        ("C*C", lambda e: (Constant(2.0) * Constant(3.0)) + e), ("+0", lambda e: e + 0.0), ("1*", lambda e: 1.0 * e),
    ]


TYPED = [("int", 3), ("float", 0.5), ("int8", np.int8(-3)), ("uint8", np.uint8(200)), ("uint16", np.uint16(40000)),
         ("uint64", np.uint64(7)), ("int64", np.int64(-2)), ("f16", np.float16(0.5)), ("f32", np.float32(1.5)),
         ("f64", np.float64(-2.0)), ("0d", np.array(2.0)), ("0dint", np.array(3)), ("0duint8", np.array(250, dtype=np.uint8)),
         ("bool", True), ("npbool", np.bool_(True))]
# Magnitudes (checklist 1) are DYADIC so that optyx's float arithmetic on them (`Constant(c * e.value)`, `k - 1`) is exact and the
# structural comparison with the model's exact rationals stays exact: 2^-930 (≈1e-280; 1e-300 would overflow the denominator in
# the driver's Alg.ratToFloat), 2^-40 ≈ 9e-13, 2^-30 ≈ 9.3e-10, 2^-27 ≈ 7.5e-9 and 2^-26 ≈ 1.5e-8 (either side of np.isclose's
# atol 1e-8), 2^-23 ≈ 1.2e-7, 2^27 ≈ 1.3e8, 2^53 ≈ 9.0e15 and 2^54 ≈ 1.8e16 (either side of the sanitiser's 1e16), 2^68 ≈ 3e20
MAGNITUDES = [0.0, 2.0 ** -930, -2.0 ** -40, 2.0 ** -30, 2.0 ** -27, 2.0 ** -26, 2.0 ** -23, 2.0 ** 27, 2.0 ** 53, -2.0 ** 54, 2.0 ** 68, 1e16]


def extended_wrappers(U):
    """operator forms (checklist 3, 4, 1, 2): every operator with the node in BOTH operand positions, reflected
    subtraction / division / power, nested scalar-affine wrappers around `c - f`, compound constant-valued
    sub-expressions and Parameters as coefficient / offset / exponent / denominator, constants of every numeric type
    and magnitude"""
    from optyx.core.expressions import BinaryOp, Constant, UnaryOp

    p, q = U.params[0], U.params[1]
    a = U.scalars[0]
    sinC = UnaryOp(Constant(0.5), "sin")
    W = [
        ("c/", lambda e: 2.0 / e), ("c**", lambda e: Constant(1.5) ** e), ("**2", lambda e: e ** 2), ("**1", lambda e: e ** 1),
        ("**0", lambda e: e ** 0), ("**-1", lambda e: e ** -1.0), ("k(c-)", lambda e: 3.0 * (1.0 - e)), ("(c-)-0", lambda e: (1.0 - e) - 0.0),
        ("-(c-k*)", lambda e: -(3.0 - 2.0 * e)), ("(c-)/k", lambda e: (5.0 - e) / 2.0), ("k(c-)+c", lambda e: 2.0 * (1.0 - e) + 3.0),
        ("c-(c-)", lambda e: 1.0 - (2.0 - e)), ("c*(c*)", lambda e: 2.0 * (3.0 * e)), ("(*c)*c", lambda e: (e * 3.0) * 0.5),
        ("-neg", lambda e: -(-e)), ("neg+c", lambda e: -e + 1.0), ("c-neg", lambda e: 2.0 - (-e)), ("(c+)-c", lambda e: (1.0 + e) - 4.0),
        ("c*(+c)", lambda e: 2.0 * (e + 1.0)), ("(c*)+(c*)", lambda e: 2.0 * e + 3.0 * e), ("e-e", lambda e: e - e), ("e*e", lambda e: e * e),
        ("(C+C)*", lambda e: (Constant(2.0) + Constant(1.0)) * e), ("*(C*C)", lambda e: e * (Constant(2.0) * Constant(0.5))),
        ("sinC*", lambda e: sinC * e), ("+sinC", lambda e: e + sinC), ("sinC-", lambda e: sinC - e), ("/(C*C)", lambda e: e / (Constant(2.0) * Constant(2.0))),
        ("**(C+C)", lambda e: e ** (Constant(1.0) + Constant(1.0))), ("a**0*", lambda e: (a ** 0) * e), ("0*a+", lambda e: 0.0 * a + e),
        ("C-C+", lambda e: (Constant(3.0) - Constant(3.0)) + e), ("negC*", lambda e: (-Constant(2.0)) * e),
        ("p-", lambda e: p - e), ("-p", lambda e: e - p), ("*p", lambda e: e * p), ("/p", lambda e: e / p), ("p*q*", lambda e: (p * q) * e),
        ("**p", lambda e: (e * e + 1.0) ** p), ("p+(c*)", lambda e: p + 2.0 * e),
    ]
    for tn, t in TYPED:
        W.append((f"C[{tn}]*", lambda e, t=t: BinaryOp(Constant(t), e, "*")))
        W.append((f"*[{tn}]", lambda e, t=t: e * t))
        W.append((f"C[{tn}]-", lambda e, t=t: BinaryOp(Constant(t), e, "-")))
        W.append((f"+[{tn}]", lambda e, t=t: e + t))
    for m in MAGNITUDES:
        W.append((f"{m:g}*", lambda e, m=m: m * e))
        W.append((f"*{m:g}", lambda e, m=m: e * m))
        W.append((f"+{m:g}", lambda e, m=m: e + m))
        W.append((f"{m:g}-", lambda e, m=m: m - e))
    return W


def order_cover_cases(U, what):
    """vectorised sums × ALL orderings of (the vector's elements + 1 or 2 foreign variables): the index
    arithmetic of the sparse closures (`indices`, `is_full`) depends on how the vector's elements sit inside V —
    contiguous, permuted, with a foreign variable inside the span, …  (24 orders for 3 + 1, 120 for 3 + 2 / 4 + 1)"""
    import itertools
    from optyx.core import vectors as Vc

    x, w = U.x, U.w
    a, y0 = U.scalars[0], U.y[0]
    out = []
    small = list(x) + [a]
    ks = (1, 2, 3, 0.5, -1, 2.5, 0, 4) if what == "jac" else (2, 3, 0.5, -1, 2.5, 0, 4, 1)
    nodes24 = [(f"ps{k}:x", Vc.VectorPowerSum(x, k)) for k in ks] + \
              [(f"us{op}:x", Vc.VectorUnarySum(x, op)) for op in gen.VOPS]
    for tag, node in nodes24:
        for perm in itertools.permutations(small):
            out.append((f"{tag}|orders3+1|id", [node], list(perm), U))
    big = [("ps3:x", Vc.VectorPowerSum(x, 3), list(x) + [a, y0]),
           ("uslog:x", Vc.VectorUnarySum(x, "log"), list(x) + [a, y0]),
           ("ussin:x", Vc.VectorUnarySum(x, "sin"), list(x) + [a, y0]),
           ("ps2.5:w[0:4]", Vc.VectorPowerSum(w[0:4], 2.5), list(w[0:4]) + [a]),
           ("uscos:w[0:4]", Vc.VectorUnarySum(w[0:4], "cos"), list(w[0:4]) + [a]),
           ("usexp:w[3:0:-1]", Vc.VectorUnarySum(w[3:0:-1], "exp"), list(w[1:4]) + [a, y0])]
    for tag, node, pool in big:
        for perm in itertools.permutations(pool):
            out.append((f"{tag}|orders120|id", [node], list(perm), U))
    return out


def more_operands(U):
    """every kind of vector-like / matrix-like object the API produces (checklist 5, 7): slices of slices, strided and
    reversed views of views, length-1 vectors, diagonals, rows / columns of transposes, blocks and strided blocks of a
    symmetric matrix (shared off-diagonal variables), 1×n / n×1 matrices, distinct views with equal labels"""
    from optyx import MatrixVariable

    x, w, M, S = U.x, U.w, U.M, U.S
    T = MatrixVariable("T", 3, 3, symmetric=True)
    A = MatrixVariable("A", 2, 3)
    vecs = [("w[1:5][0:2]", w[1:5][0:2]), ("w[::2][::-1]", w[::2][::-1]), ("x[1:2]", x[1:2]), ("w[0:4:2]", w[0:4:2]), ("w[0:4:3]", w[0:4:3]),
            ("diag(T)", T.diagonal()), ("diag(M)", M.diagonal()), ("T.T[0,:]", T.T[0, :]), ("T[:,1]", T[:, 1]), ("T[1,0:2]", T[1, 0:2]),
            ("A.T[:,1]", A.T[:, 1]), ("A[0,::2]", A[0, ::2]), ("T[0:2,1:3][0,:]", T[0:2, 1:3][0, :]), ("T[::2,::2][:,1]", T[::2, ::2][:, 1]),
            ("x[0:3]'", x[0:3]), ("x[0:3]''", x[0:3])]
    mats = [("T", T), ("T.T", T.T), ("T[0:2,1:3]", T[0:2, 1:3]), ("T[::2,::2]", T[::2, ::2]), ("T[0:2,0:2]", T[0:2, 0:2]), ("T[1:3,0:2]", T[1:3, 0:2]),
            ("T.T[0:2,:]", T.T[0:2, :]), ("A", A), ("A.T", A.T), ("A[0:1,:]", A[0:1, :]), ("A[:,0:1]", A[:, 0:1]), ("A.T[0:2,0:1]", A.T[0:2, 0:1]),
            ("S.T", S.T), ("S[0:1,:]", S[0:1, :]), ("M[::-1,:]", M[::-1, :])]
    return vecs, mats, T, A


def audit_nodes(rng, U):
    """nodes over the operand family above + magnitudes / numeric types of every stored number (checklist 1, 2, 5, 7, 9, 14)"""
    from optyx.core import vectors as Vc
    from optyx.core import matrices as Mx
    from optyx.core.expressions import UnaryOp
    from optyx.core.functions import sin

    vecs, mats, T, A = more_operands(U)
    x, y = U.x, U.y
    nodes, skipped = [], {}

    def add(tag, build):
        try:
            nodes.append((tag, build()))
        except Exception as ex:  # noqa: BLE001 — a constructor that rejects the operand is not a derivative question
            skipped[f"constructor:{type(ex).__name__}"] = skipped.get(f"constructor:{type(ex).__name__}", 0) + 1

    for vn, v in vecs:
        n = len(v)
        add(f"vs:{vn}", lambda: Vc.VectorSum(v))
        add(f"lc:{vn}", lambda: Vc.LinearCombination(np.array([2.0, -1.0, 0.5][:n]), v))
        add(f"dotself:{vn}", lambda: Vc.DotProduct(v, v))
        add(f"ps3:{vn}", lambda: Vc.VectorPowerSum(v, 3))
        add(f"ps2:{vn}", lambda: Vc.VectorPowerSum(v, 2))
        add(f"ustanh:{vn}", lambda: Vc.VectorUnarySum(v, "tanh"))
        add(f"uslog:{vn}", lambda: Vc.VectorUnarySum(v, "log"))
        add(f"qf:{vn}", lambda: Mx.QuadraticForm(v, np.array([[(i + 1.0) * (j - 1.0) + (0.5 if i == j else 0.0) for j in range(n)] for i in range(n)])))
        add(f"l2:{vn}", lambda: Vc.L2Norm(v))
        add(f"l1:{vn}", lambda: Vc.L1Norm(v))
    # two distinct view objects with equal labels / equal elements, overlapping views of views
    byname = dict(vecs)
    for ln, rn in (("x[0:3]'", "x[0:3]''"), ("w[0:4:2]", "w[0:4:3]"), ("w[1:5][0:2]", "w[0:4:3]"), ("T.T[0,:]", "T[:,1]"), ("diag(T)", "T.T[0,:]"),
                   ("T[1,0:2]", "T[0:2,1:3][0,:]"), ("T[1,0:2]", "T[::2,::2][:,1]")):
        add(f"dot:{ln}.{rn}", lambda: Vc.DotProduct(byname[ln], byname[rn]))
    for mn, m in mats:
        add(f"msv:{mn}", lambda: m.sum())
        add(f"fro:{mn}", lambda: Mx.FrobeniusNorm(m))
        add(f"mse:{mn}*{mn}", lambda: (m * m).sum())
        add(f"mse:2{mn}-1", lambda: (2.0 * m - 1.0).sum())
        if m.shape[0] == m.shape[1]:
            add(f"trace:{mn}", lambda: m.trace())
    # matrix–vector products (also of a non-linear vector) in every vector position
    Q3 = np.array([[1.0, 2.0, 0.0], [0.5, 1.0, -1.0], [0.0, 3.0, 2.0]])
    sinx = Vc.VectorExpression([UnaryOp(v, "sin") for v in x])
    mvps = [("Q@x", lambda: Mx.MatrixVectorProduct(Q3, x)), ("Q@sin", lambda: Mx.MatrixVectorProduct(Q3, sinx)), ("T@x", lambda: T @ x),
            ("A.T@x[0:2]", lambda: A.T @ x[0:2]), ("x*y", lambda: x * y), ("x**2", lambda: x ** 2), ("sin(x)", lambda: sin(x))]
    for mn, mk in mvps:
        add(f"es:{mn}", lambda: mk().sum())
        if mn in ("x**2", "sin(x)"):
            continue   # ElementwisePower / ElementwiseUnary are not VectorExpressions: only their .sum() is an expression
        add(f"dot:{mn}.x", lambda: Vc.DotProduct(mk(), x))
        add(f"dot:x.{mn}", lambda: Vc.DotProduct(x, mk()))
        add(f"lc:{mn}", lambda: Vc.LinearCombination(np.array([1.0, -2.0, 0.5]), mk()))
        add(f"l2:{mn}", lambda: Vc.L2Norm(mk()))
        add(f"qf:{mn}", lambda: Mx.QuadraticForm(mk(), Q3))
    # magnitudes and numeric types of stored numbers
    mags = np.array([2.0 ** -930, -2.0 ** -40, 2.0 ** 54])
    add("lc:mag1", lambda: Vc.LinearCombination(mags, x))
    add("lc:mag2", lambda: Vc.LinearCombination(np.array([2.0 ** 68, 0.0, 2.0 ** -27]), x))
    add("lc:mag3", lambda: Vc.LinearCombination(np.array([2.0 ** -26, 2.0 ** 27, -2.0 ** -23]), x))
    add("qf:mag", lambda: Mx.QuadraticForm(x, np.array([[2.0 ** -40, 2.0 ** 27, 0.0], [0.0, -2.0 ** 54, 2.0 ** -30], [2.0 ** 68, 0.0, 1.0]])))
    for tag, arr in (("list", [1, 2, 3]), ("int64", np.array([1, -2, 3])), ("uint8", np.array([200, 100, 250], dtype=np.uint8)),
                     ("int8", np.array([-100, 100, 127], dtype=np.int8)), ("f32", np.array([0.5, 1.5, -2.0], dtype=np.float32)),
                     ("f16", np.array([0.5, 1.5, -2.0], dtype=np.float16)), ("bool", np.array([True, False, True])),
                     ("strided", np.arange(6.0)[::2]), ("negstride", np.array([3.0, 2.0, 1.0])[::-1]), ("fortran", np.asfortranarray(np.array([1.0, 2.0, 3.0])))):
        add(f"lc:{tag}", lambda: Vc.LinearCombination(arr, x))
    for tag, Q in (("int", np.array([[1, 2, 0], [0, 1, 0], [1, 0, 3]])), ("uint8", np.array([[200, 2, 0], [0, 255, 0], [1, 0, 3]], dtype=np.uint8)),
                   ("f32", Q3.astype(np.float32)), ("fortran", np.asfortranarray(Q3)), ("transposed-view", Q3.T), ("strided", np.arange(36.0).reshape(6, 6)[::2, ::2]),
                   ("list", [[1.0, 2.0, 0.0], [0.5, 1.0, -1.0], [0.0, 3.0, 2.0]])):
        add(f"qf:{tag}", lambda: Mx.QuadraticForm(x, Q))
    for tag, k in (("npint", np.int64(2)), ("npint3", np.int32(3)), ("f32", np.float32(0.5)), ("bool", True), ("uint8", np.uint8(3)), ("10", 10), ("-3", -3),
                   ("0.25", 0.25), ("7.5", 7.5), ("2^-30", 2.0 ** -30), ("1+2^-30", 1.0 + 2.0 ** -30), ("2-", 2.0 - 2.0 ** -40)):
        add(f"ps[{tag}]:x", lambda: Vc.VectorPowerSum(x, k))
        add(f"ps[{tag}]:api", lambda: (x ** k).sum())
    # the same compound sub-expression OBJECT at several places (DAG) and a Parameter inside vector nodes
    s_ = x.sum()
    d_ = Vc.DotProduct(x, x)
    pz = U.params[0]
    add("dag:s*s+sin(s)", lambda: s_ * s_ + UnaryOp(s_, "sin"))
    add("dag:d/(d+1)", lambda: d_ / (d_ + 1.0))
    add("dag:(s+1)*(s+1)", lambda: (lambda t: t * t)(s_ + 1.0))
    add("par:lc(p*x)", lambda: Vc.LinearCombination(np.array([1.0, 2.0, -1.0]), pz * x))
    add("par:dot(x,p*x)", lambda: Vc.DotProduct(x, x * pz))
    add("par:l2(x-p)", lambda: Vc.L2Norm(x - pz))
    return nodes, skipped


def names_universe():
    """objects whose names stress every name-keyed look-up (checklist 6): digit runs of different lengths, leading zeros,
    names that are prefixes of one another, brackets / commas inside names, the same base name for a scalar and a
    container, ≥ 11 elements (lexicographic ≠ natural order)"""
    from optyx import Variable, VectorVariable, MatrixVariable
    from optyx.core import vectors as Vc

    v12 = VectorVariable("v", 12)
    xs = [Variable(n) for n in ("x", "x1", "x01", "x10", "x1[0]", "a,b", "v", "v[1", "v[1]x", "m[0,1]x", "xx", "2x")]
    xv = VectorVariable("x", 3)          # container with the same base name as the scalar "x"
    m = MatrixVariable("x1", 2, 2)       # elements "x1[0,0]" next to the scalar "x1[0]"
    out = []
    lex = sorted(list(v12), key=lambda v: v.name)
    for tag, e, own in (("vs", Vc.VectorSum(v12), list(v12)), ("ps3", Vc.VectorPowerSum(v12, 3), list(v12)), ("ussin", Vc.VectorUnarySum(v12, "sin"), list(v12)),
                        ("dot", Vc.DotProduct(v12, v12[::-1]), list(v12)), ("ps3:v[2:12]", Vc.VectorPowerSum(v12[2:12], 3), list(v12)),
                        ("lc", Vc.LinearCombination(np.arange(12.0) - 3.0, v12), list(v12))):
        out.append((f"names:{tag}|natural|id", [e], own))
        out.append((f"names:{tag}|lexicographic|id", [e], lex))
        out.append((f"names:{tag}|lex+scalars|id", [e], sorted(lex + xs[:4], key=lambda v: v.name)))
    sc = xs[0] * xs[1] + xs[2] * xs[3] * xs[4] + UnaryOpSin(xs[5]) * xs[6] + xs[7] * xs[8] - xs[9] * xs[10] + xs[11] ** 2
    pool = xs + list(xv) + m.get_variables()
    for tag, e in (("scalars", sc), ("scalar+container", sc + Vc.VectorPowerSum(xv, 2) * xs[0]), ("matrix", m.sum() * xs[4] + Vc.VectorSum(xv)),
                   ("ps:x-container", Vc.VectorPowerSum(xv, 3)), ("msv:x1-container", m.sum())):
        own = sorted({v.name: v for v in gen.expr_vars(e)}.values(), key=lambda v: v.name)
        out.append((f"names:{tag}|sorted|id", [e], own))
        out.append((f"names:{tag}|rev|id", [e], list(reversed(own))))
        out.append((f"names:{tag}|pool|id", [e], pool))
    return out


def UnaryOpSin(v):
    from optyx.core.expressions import UnaryOp

    return UnaryOp(v, "sin")


def deep_cases(U, depths=(399, 400, 401, 900)):
    """depth (checklist 13): a vector node at the far end of left-deep / right-nested / zig-zag chains around every
    `_RECURSION_THRESHOLD`; the chain alternates constant wrappers (jacobian_row propagates) and variable terms"""
    from optyx.core import vectors as Vc

    x = U.x
    a = U.scalars[0]
    out = []
    for n in depths:
        e = Vc.VectorPowerSum(x, 3)
        for i in range(n):
            e = e + 1.0 if i % 2 == 0 else e - 0.5
        out.append((f"deep:const-left:{n}|own|id", [e], list(x)))
        e = Vc.DotProduct(x, x)
        for i in range(n):
            e = e + a if i % 3 else e + x[i % 3] * 2.0
        out.append((f"deep:var-left:{n}|own|id", [e], list(x) + [a]))
        if n <= 401:
            e = Vc.VectorUnarySum(x, "sin")
            for i in range(n):
                e = (1.0 + e) if i % 2 == 0 else (e * 1.0)
            out.append((f"deep:zigzag:{n}|own|id", [e], [a] + list(x)))
    return out


AUDIT_SKIPPED = {}
FULL = [False]


def cell_cases(rng):
    U = gen.Universe(rng)
    nodes = row_nodes(rng, U)
    wr = wrappers(U)
    cases = []
    for tag, node in nodes:
        own = own_vars(node)
        for vt, V in v_orders(rng, own, U, tag):
            cases.append((f"{vt}|id", [node], V, U))
        # each wrapper on the own order and on one other order
        for wn, wf in wr[1:]:
            e = wf(node)
            cases.append((f"{tag}|own|{wn}", [e], list(own), U))
        alt = v_orders(rng, own, U, tag)
        for wn, wf in (wr[1], wr[4], wr[5], wr[10]):
            vt, V = alt[rng.randrange(len(alt))]
            cases.append((f"{vt}|{wn}", [wf(node)], V, U))
    # audit families (operand kinds, magnitudes, numeric types, names, depth, extended operator forms)
    ext = extended_wrappers(U)
    anodes, askip = audit_nodes(rng, U)
    AUDIT_SKIPPED.update(askip)
    for tag, node in anodes:
        own = own_vars(node)
        cases.append((f"{tag}|own|id", [node], list(own), U))
        cases.append((f"{tag}|rev+extra|id", [node], [U.scalars[2]] + list(reversed(own)), U))
    for tag, es, V in names_universe():
        cases.append((tag, es, V, U))
    for tag, es, V in deep_cases(U, (399, 400, 401) if not FULL[0] else (399, 400, 401, 900)):
        cases.append((tag, es, V, U))
    allnodes = nodes + anodes
    for ni, (tag, node) in enumerate(allnodes):
        own = own_vars(node)
        for wi, (wn, wf) in enumerate(ext):
            if (ni + wi) % (4 if FULL[0] else 16) != 0:
                continue   # thorough tier: a quarter of the product; quick tier: every wrapper meets every node *kind* (≥ 9 nodes per kind), not every node
            if "mag" in tag and wn.strip("*+-").replace("e", "").replace(".", "").replace("-", "").replace("+", "").isdigit():
                continue   # tiny × tiny underflows in doubles but not in the model's exact rationals: no structural comparison
            try:
                cases.append((f"{tag}|own|{wn}", [wf(node)], list(own), U))
            except Exception as ex:  # noqa: BLE001
                AUDIT_SKIPPED[f"wrapper:{type(ex).__name__}"] = AUDIT_SKIPPED.get(f"wrapper:{type(ex).__name__}", 0) + 1
    cases += order_cover_cases(U, "jac")
    for tag, e in composition_exprs(U):
        own = sorted({v.name: v for v in gen.expr_vars(e)}.values(), key=lambda v: v.name)
        cases.append((f"{tag}|own|id", [e], own, U))
        if zlib.crc32(tag.encode()) % 3 == 0 or "powpow" in tag:
            cases.append((f"{tag}|super-rev|id", [e], [U.scalars[2]] + list(reversed(own)), U))
    # degenerate shapes: no expressions / no variables (structural + path comparison only)
    cases.append(("edge:m0|own|id", [], [U.x[0], U.x[1]], U))
    cases.append(("edge:n0|own|id", [U.x.sum()], [], U))
    cases.append(("edge:n0ps|own|id", [nodes[4][1]], [], U))
    cases.append(("edge:m0n0|own|id", [], [], U))
    # multi-row lists
    for _ in range(60):
        k = rng.randint(2, 4)
        picks = [nodes[rng.randrange(len(nodes))] for _ in range(k)]
        es = [wr[rng.randrange(len(wr))][1](nd) if rng.random() < 0.4 else nd for _, nd in picks]
        own = []
        for e in es:
            for v in own_vars(e):
                if v.name not in {o.name for o in own}:
                    own.append(v)
        vs = v_orders(rng, own, U, "multi:" + "+".join(t.split(":")[0] for t, _ in picks))
        vt, V = vs[rng.randrange(len(vs))]
        cases.append((vt + "|id", es, V, U))
    return cases


def random_cases(rng, count, depth_hi):
    cases = []
    for i in range(count):
        U = gen.Universe(rng)
        m = 1 if rng.random() < 0.6 else rng.randint(2, 3)
        es = [gen.rand_expr(rng, U, rng.randint(1, depth_hi), safe=(i % 2 == 0)) for _ in range(m)]
        own = sorted({v.name: v for e in es for v in gen.expr_vars(e)}.values(), key=lambda v: v.name)
        if not own:
            own = [U.scalars[0]]
        rng.shuffle(own)
        r = rng.random()
        if r < 0.3:
            V = own
        elif r < 0.7:
            extra = [v for v in U.all_vars() if v.name not in {o.name for o in own}]
            rng.shuffle(extra)
            V = own + extra[:rng.randint(1, 3)]
            rng.shuffle(V)
        elif r < 0.85:
            V = clone_vars(own)
        else:
            V = own[1:] if len(own) > 1 else own
        cases.append(("rand|" + ("safe" if i % 2 == 0 else "any"), es, V, U))
    return cases


def composition_exprs(U):
    """scalar compositions in which a derivative rule meets a simplifier: powers of powers (every inner × outer
    exponent kind), functions of powers, powers of functions, products / quotients of those — over bases that take
    BOTH signs, so that an algebraic rewrite valid only for positive bases ((a^m)^n → a^(mn), sqrt(a²) → a, …)
    shows at a regular point"""
    from optyx.core.expressions import BinaryOp, Constant, UnaryOp

    a, b = U.scalars[0], U.scalars[1]
    bases = [("A", a), ("A-3", a - 3.0), ("AB", a * b), ("2A+1", 2.0 * a + 1.0), ("A-B", a - b), ("X0", U.x[0] + U.x[1])]
    out = []
    for bn, base in bases:
        for a_in in (2, 3, 4, 2.0, 0.5, -1, -2):
            for b_out in (0.5, 1.5, -0.5, 2, 3, -1, 2.5, 1.0):
                out.append((f"comp:powpow:{a_in}:{b_out}:{bn}",
                            BinaryOp(BinaryOp(base, Constant(a_in), "**"), Constant(b_out), "**")))
        for op in ("sqrt", "abs", "log", "exp", "neg", "sin", "tanh", "cosh"):
            out.append((f"comp:unpow:{op}:{bn}", UnaryOp(BinaryOp(base, Constant(2), "**"), op)))
            out.append((f"comp:powun:{op}:{bn}", BinaryOp(UnaryOp(base, op), Constant(2), "**")))
            out.append((f"comp:powun3:{op}:{bn}", BinaryOp(UnaryOp(base, op), Constant(3), "**")))
        sq = BinaryOp(base, Constant(2), "**")
        out.append((f"comp:mix:powpow*b:{bn}", BinaryOp(sq, Constant(1.5), "**") * b))
        out.append((f"comp:mix:b/powpow:{bn}", b / (BinaryOp(sq, Constant(0.5), "**") + 1.0)))
        out.append((f"comp:mix:sqrtsq+abs:{bn}", UnaryOp(sq, "sqrt") + UnaryOp(base, "abs") * a))
        out.append((f"comp:mix:negneg:{bn}", -(-(base * base * base))))
        out.append((f"comp:mix:abs-abs:{bn}", UnaryOp(UnaryOp(base, "abs"), "abs") ** 3))
        out.append((f"comp:mix:pow4root:{bn}", BinaryOp(BinaryOp(base, Constant(4), "**"), Constant(0.25), "**") * base))
    return out


MAGS = [0.3125, 0.5625, 0.8125, 1.1875, 1.4375, 1.9375, 2.5625, 3.3125]


def sign_points(rng, n, limit=8):
    """points in *every sign pattern* of the coordinates (all 2^n for n ≤ 3, otherwise all-positive, all-negative,
    one-negative-each and random patterns up to `limit`), dyadic magnitudes"""
    import itertools

    if n == 0:
        return [[]]
    if n <= 3:
        pats = list(itertools.product((1.0, -1.0), repeat=n))
    else:
        pats = [tuple([1.0] * n), tuple([-1.0] * n)]
        for j in range(n):
            p = [1.0] * n; p[j] = -1.0; pats.append(tuple(p))
        while len(pats) < limit + n:
            pats.append(tuple(rng.choice((1.0, -1.0)) for _ in range(n)))
        pats = pats[:max(limit, 2)]
    return [[sg * rng.choice(MAGS) for sg in pat] for pat in pats]


def rand_x(rng, n, positive):
    if positive:
        return [rng.randint(2, 24) / 8 + 1 / 16 for _ in range(n)]
    return [rng.randint(-16, 16) / 8 + 1 / 16 for _ in range(n)]


# ----------------------------------------------------------------------------- the real code


def real_jacobian(es, V):
    import optyx.core.autodiff as AD

    return AD.compile_jacobian(es, V)


def real_gradient(e, V):
    import optyx.core.compiler as CC

    return CC.compile_gradient(e, V)


def model_regular(e, point) -> bool:
    """the part of `Regular` (Lemmas/Regular.lean) that the shared dual-number interpreter is more permissive about:
    a power whose exponent is not a literal Constant (a compound constant such as Constant(1)+Constant(1), a Parameter, an
    expression) needs a POSITIVE base — optyx differentiates it as exp(g·log f), whose symbolic form is singular at f ≤ 0
    even when the function itself is smooth there (x ** (1+1) at 0).  Such points are outside C03 / C17 (they are C19's)."""
    from optyx.core.expressions import BinaryOp, Constant, UnaryOp

    stack = [e]
    while stack:
        n = stack.pop()
        if isinstance(n, BinaryOp):
            if n.op == "**" and not isinstance(n.right, Constant):
                try:
                    base = oracle.prim(oracle.ref_eval(n.left, point))
                except Exception:  # noqa: BLE001
                    return False
                if not base > oracle.MARGIN:
                    return False
            stack += [n.left, n.right]
        elif isinstance(n, UnaryOp):
            stack.append(n.operand)
        else:
            for attr in ("vector", "left", "right", "expression", "matrix"):
                sub = getattr(n, attr, None)
                ex = getattr(sub, "_expressions", None)
                if ex is not None:
                    for row in ex:
                        stack += list(row) if isinstance(row, (list, tuple)) else [row]
    return True


def fd_grad(e, point, name):
    """fallback reference for node kinds the dual-number interpreter does not know (element-wise vector nodes as
    operands): Richardson-extrapolated central differences of the expression's own `evaluate` — independent of every
    derivative routine"""
    def f(t):
        p = dict(point); p[name] = t
        return float(np.asarray(quiet(lambda: e.evaluate(p))))
    x0 = point[name]
    h = 1e-4 * max(1.0, abs(x0))
    d1 = (f(x0 + h) - f(x0 - h)) / (2 * h)
    d2 = (f(x0 + h / 2) - f(x0 - h / 2)) / h
    return (4 * d2 - d1) / 3


def oracle_rows(es, V, xs):
    """dual-number Jacobian at the point, or None per row when the point is not regular for that row"""
    point = {v.name: float(a) for v, a in zip(V, xs)}
    out = []
    for e in es:
        try:
            if not model_regular(e, point):
                raise oracle.NotRegular("non-literal exponent over a non-positive base")
            row = [oracle.ref_grad(e, point, v.name) for v in V]
            if not all(math.isfinite(a) and abs(a) < 1e8 for a in row):
                row = None
        except (oracle.NotRegular, OverflowError, ZeroDivisionError, ValueError, KeyError):
            row = None
        except (AttributeError, TypeError):
            # a node kind outside the reference interpreter: finite differences of evaluate, ordinary magnitudes only
            try:
                if all(1e-3 < abs(a) < 1e3 for a in xs):
                    row = [fd_grad(e, point, v.name) for v in V]
                    if not all(math.isfinite(a) and abs(a) < 1e6 for a in row):
                        row = None
                else:
                    row = None
            except Exception:  # noqa: BLE001
                row = None
        out.append(row)
    return out


def well_conditioned(es_i, V, xs, want_row):
    """conditioning guard: the reference itself must not move under a 1e-9 perturbation"""
    try:
        pert = {v.name: float(a) * (1 + 1e-9) + 1e-12 for v, a in zip(V, xs)}
        row2 = oracle_rows([es_i], V, [pert[v.name] for v in V])[0]
        if row2 is None or not all(oracle.close(a, b, rtol=1e-4, atol=1e-9) for a, b in zip(want_row, row2)):
            return False
        # second, independent reference: Richardson central differences of `evaluate`.  Where the two references
        # disagree (a tiny derivative of a huge value, 1 − tanh² near saturation, …) double precision itself is the
        # limit and the point is no witness
        point = {v.name: float(a) for v, a in zip(V, xs)}
        row3 = [fd_grad(es_i, point, v.name) for v in V]
        return all(oracle.close(a, b, rtol=1e-3, atol=1e-8) for a, b in zip(want_row, row3))
    except Exception:  # noqa: BLE001
        return False


def check_numeric(es, V, xs):
    """property oracle on the real code at one point. returns (failures, n_entries_checked, n_skipped_rows)"""
    fails, checked, skipped = [], 0, 0
    covered = names_of(es) <= {v.name for v in V}
    if not covered or len({v.name for v in V}) != len(V) or not es or not V:
        return fails, checked, skipped
    want = oracle_rows(es, V, xs)
    x = np.array(xs, dtype=float)
    fn = grab(lambda: real_jacobian(es, V))
    if isinstance(fn, str):
        return [{"what": f"compile_jacobian raised {fn[6:]} although V contains every variable"}], 0, 0
    got = grab(lambda: np.asarray(fn(x), dtype=float))
    if isinstance(got, str):
        if any(w is None for w in want):
            # some expression is not regular at this point (e.g. a division by the literal 0, where
            # Python-scalar operands raise ZeroDivisionError): outside the statement
            return fails, 0, len(es)
        return [{"what": f"compiled Jacobian raised {got[6:]} at a regular point", "path": fn.__name__}], 0, 0
    if got.shape != (len(es), len(V)):
        return [{"what": f"Jacobian has shape {got.shape}, expected {(len(es), len(V))}", "path": fn.__name__}], 0, 0
    for i, e in enumerate(es):
        if want[i] is None:
            skipped += 1
            continue
        routes = {"compile_jacobian:" + fn.__name__: got[i]}
        gfn = grab(lambda: real_gradient(e, V))
        if isinstance(gfn, str):
            fails.append({"what": f"compile_gradient raised {gfn[6:]} although V contains every variable", "row": i})
            continue
        g = grab(lambda: np.asarray(gfn(x), dtype=float))
        if isinstance(g, str) or g.shape != (len(V),):
            fails.append({"what": f"compiled gradient failed / wrong shape: {g if isinstance(g, str) else g.shape}", "row": i,
                          "path": gfn.__name__})
            continue
        routes["compile_gradient:" + gfn.__name__] = g
        bad = None
        for rn, vals in routes.items():
            for j, v in enumerate(V):
                checked += 1
                if not oracle.close(float(vals[j]), want[i][j], rtol=1e-6, atol=1e-7):
                    bad = {"what": "compiled derivative entry differs from the true partial derivative", "route": rn,
                           "row": i, "col": j, "var": v.name, "got": float(vals[j]), "want": want[i][j]}
                    break
            if bad:
                break
        if bad:
            if well_conditioned(e, V, xs, want[i]):
                fails.append(bad)
            else:
                skipped += 1
    return fails, checked, skipped


def safe_payload(es, V, xs, params=None):
    """payload_of, or a repr-only description when the expressions are outside the Lean / replay syntax"""
    try:
        return payload_of(es, V, xs, all_params(es) if params is None else params)
    except Unsupported:
        return {"exprs_repr": [repr(e)[:200] for e in es], "V_names": [v.name for v in V], "x": [float(a) for a in xs]}


def payload_of(es, V, xs, params):
    es_s, V_s, store = ser_case(es, V, params)
    return {"exprs": es_s, "V": V_s, "x": [float(a) for a in xs], "params": store}


# ----------------------------------------------------------------------------- audit checks that are not (expression, V) cases

WIDE = [1e-9, 1e-7, 1e3, 1e9, -1e6, 1e-150, -1e-12, 2.0 ** 30]


def wide_point(rng, n):
    """coordinates from 1e-150 to 1e9 (checklist 1)"""
    return [rng.choice(WIDE) * rng.choice((1.0, 1.0, -1.0)) if rng.random() < 0.6 else rng.choice(MAGS) for _ in range(n)]


def forced_thresholds(value):
    """context: every `_RECURSION_THRESHOLD` that the derivative compilers consult forced to `value`, caches cleared"""
    import contextlib
    import optyx.core.autodiff as AD
    import optyx.core.compiler as CC
    import optyx.core.expressions as EX

    @contextlib.contextmanager
    def cm():
        mods = [m for m in (AD, CC, EX) if hasattr(m, "_RECURSION_THRESHOLD")]
        old = [m._RECURSION_THRESHOLD for m in mods]

        def clear():
            for fn_ in (getattr(CC, "_compile_cached", None), getattr(AD, "_gradient_cached", None)):
                if fn_ is not None and hasattr(fn_, "cache_clear"):
                    fn_.cache_clear()
        try:
            for m in mods:
                m._RECURSION_THRESHOLD = value
            clear()
            yield
        finally:
            for m, o in zip(mods, old):
                m._RECURSION_THRESHOLD = o
            clear()
    return cm()


def scipy_channel_failures(rng, U, count):
    """the dicts handed to SciPy (checklist 15, 14): `_build_solver_cache(problem, problem.variables)` — objective gradient
    for minimise and maximise, constraint `jac` for <=, >=, == written in every style — against dual numbers and against
    central differences of the `fun` stored next to it"""
    from optyx import Problem
    from optyx.solvers.scipy_solver import _build_solver_cache

    fails, n_checked = [], 0
    nodes = row_nodes(rng, U)
    wr = wrappers(U) + extended_wrappers(U)[:22]
    for _ in range(count):
        tag, obj = nodes[rng.randrange(len(nodes))]
        obj = wr[rng.randrange(len(wr))][1](obj)
        cons_src = [nodes[rng.randrange(len(nodes))] for _ in range(rng.randint(1, 3))]
        sense = rng.choice(("minimize", "maximize"))
        prob = Problem()
        prob = prob.minimize(obj) if sense == "minimize" else prob.maximize(obj)
        built = []
        for ct, f in cons_src:
            style = rng.choice(("f<=c", "f>=c", "c-f>=0", "eq", "c<=f", "kf-c<=0"))
            c = {"f<=c": lambda: f <= 2.5, "f>=c": lambda: f >= -1.5, "c-f>=0": lambda: (1.0 - f) >= 0, "eq": lambda: f.eq(0.5),
                 "c<=f": lambda: 0.25 <= f, "kf-c<=0": lambda: (2.0 * f - 3.0) <= 0}[style]
            con = grab(c)
            if isinstance(con, str) or not hasattr(con, "expr"):
                continue
            prob = prob.subject_to(con)
            built.append((ct, style))
        V = grab(lambda: list(prob.variables))
        if isinstance(V, str) or not V:
            continue
        cache = grab(lambda: _build_solver_cache(prob, V))
        if isinstance(cache, str):
            fails.append({"what": f"_build_solver_cache raised {cache[6:]}", "kind": "scipy-channel", "objective": tag})
            continue
        xs = rand_x(rng, len(V), rng.random() < 0.5)
        x = np.array(xs, dtype=float)
        point = {v.name: float(a_) for v, a_ in zip(V, xs)}
        sgn = 1.0 if sense == "minimize" else -1.0
        try:
            want = [sgn * oracle.ref_grad(prob.objective, point, v.name) for v in V]
        except (oracle.NotRegular, OverflowError, ZeroDivisionError, ValueError, KeyError):
            want = None
        if want is not None and all(math.isfinite(w) and abs(w) < 1e8 for w in want):
            g_obj = grab(lambda: cache["grad_fn"](x))
            g = g_obj if isinstance(g_obj, str) else np.array(g_obj, dtype=float, copy=True).flatten()
            if isinstance(g_obj, np.ndarray):
                # the array handed to SciPy must stay valid after later requests at other points
                x2 = np.array(rand_x(rng, len(V), True), dtype=float)
                grab(lambda: cache["grad_fn"](x2))
                grab(lambda: [d_["jac"](x2) for d_ in cache["scipy_constraints"]])
                if not same_bits(np.asarray(g_obj).flatten(), g):
                    fails.append(dict(payload_of([prob.objective], V, xs, all_params([prob.objective])), kind="scipy-channel",
                                      what="the gradient array handed to SciPy was changed by a later request at another point",
                                      got=str(np.asarray(g_obj).tolist())[:300], want=str(g.tolist())[:300], tag=tag))
            n_checked += 1
            if isinstance(g, str) or len(g) != len(V) or not all(oracle.close(float(a_), b_, rtol=1e-6, atol=1e-7) for a_, b_ in zip(g, want)):
                fails.append(dict(payload_of([prob.objective], V, xs, all_params([prob.objective])), kind="scipy-channel",
                                  what=f"objective gradient handed to SciPy ({sense}) is not ±∇objective in problem.variables order",
                                  got=str(g)[:300], want=str(want)[:300], tag=tag))
        for (ct, style), con, d in zip(built, prob.constraints, cache["scipy_constraints"]):
            try:
                cg = [oracle.ref_grad(con.expr, point, v.name) for v in V]
            except (oracle.NotRegular, OverflowError, ZeroDivisionError, ValueError, KeyError):
                continue
            if not all(math.isfinite(w) and abs(w) < 1e8 for w in cg):
                continue
            jac = grab(lambda: np.asarray(d["jac"](x), dtype=float).flatten())
            n_checked += 1
            s_ = -1.0 if con.sense == "<=" else 1.0
            ok = (not isinstance(jac, str)) and len(jac) == len(V) and \
                all(oracle.close(float(a_), s_ * b_, rtol=1e-6, atol=1e-7) for a_, b_ in zip(jac, cg))
            if ok:   # and it is the derivative of the `fun` stored in the same dict (central differences)
                for j in range(len(V)):
                    h = 1e-6 * max(1.0, abs(xs[j]))
                    xp, xm = x.copy(), x.copy()
                    xp[j] += h; xm[j] -= h
                    fd = grab(lambda: (float(d["fun"](xp)) - float(d["fun"](xm))) / (2 * h))
                    if isinstance(fd, str) or not oracle.close(float(jac[j]), fd, rtol=1e-4, atol=1e-5):
                        ok = False
                        break
            if not ok:
                fails.append(dict(payload_of([con.expr], V, xs, all_params([con.expr])), kind="scipy-channel",
                                  what=f"constraint jac handed to SciPy is not the derivative of its fun ({style}, sense {con.sense})",
                                  got=str(jac)[:300], want=str([s_ * b_ for b_ in cg])[:300], tag=ct))
    return fails, n_checked


def lifetime_failures(rng, rounds):
    """object lifetime and history (checklist 10, 12): models built, queried (degree, gradient, compiled value) BEFORE the
    derivative compilers see them, evaluated and DROPPED, many rounds, the same variable names in unrelated models; the
    module-level caches (lru_cache keyed by object identity / names) must never serve one model's closure to another"""
    import gc
    import optyx.core.autodiff as AD
    import optyx.core.compiler as CC

    fails, n = [], 0
    for r in range(rounds):
        U = gen.Universe(rng)
        e = gen.rand_expr(rng, U, rng.randint(1, 3), safe=True)
        V = gen.expr_vars(e)
        if not V:
            continue
        rng.shuffle(V)
        if r % 2 == 0:
            grab(lambda: e.degree)
            grab(lambda: AD.gradient(e, V[0]))
            grab(lambda: CC.compile_expression(e, V)(np.array(rand_x(rng, len(V), True))))
        xs = rand_x(rng, len(V), r % 3 != 0)
        f, c, _ = check_numeric([e], V, xs)
        n += c
        for g in f:
            try:
                g.update(payload_of([e], V, xs, all_params([e])))
            except Unsupported:
                pass
            g["tag"] = "lifetime"
            fails.append(g)
        del e, V, U
        if r % 20 == 0:
            gc.collect()
    return fails, n


def user_array_failures(U):
    """user-supplied arrays (checklist 9): coefficient vectors / matrices handed to LinearCombination / QuadraticForm must be
    bit-identical after every compile and call"""
    import optyx.core.autodiff as AD
    import optyx.core.compiler as CC
    from optyx.core import vectors as Vc
    from optyx.core import matrices as Mx

    x = U.x
    fails = []
    arrays = [np.array([2.0, -1.0, 0.5]), np.array([1, -2, 3]), np.arange(6.0)[::2], np.array([200, 100, 250], dtype=np.uint8)]
    mats = [np.array([[1.0, 2.0, 0.0], [0.5, 1.0, -1.0], [0.0, 3.0, 2.0]]), np.asfortranarray(np.arange(9.0).reshape(3, 3)),
            np.array([[1, 2, 0], [0, 1, 0], [1, 0, 3]])]
    pt = np.array([0.75, -1.25, 2.0])
    for arr in arrays + mats:
        before = arr.copy()
        base = arr.base.copy() if arr.base is not None else None
        e = Vc.LinearCombination(arr, x) if arr.ndim == 1 else Mx.QuadraticForm(x, arr)
        for _ in range(2):
            quiet(lambda: (AD.compile_jacobian([e, 2.0 * e, 1.0 - e], list(x))(pt), CC.compile_gradient(e, list(x))(pt),
                           AD.compile_hessian(e, list(x))(pt), AD.compute_jacobian([e], list(x))))
        if not (np.array_equal(arr, before) and arr.dtype == before.dtype and (base is None or np.array_equal(arr.base, base))):
            fails.append({"what": "a user-supplied coefficient array was modified by compiling / calling derivatives",
                          "kind": "user-array", "before": before.tolist(), "after": arr.tolist()})
    return fails


# ----------------------------------------------------------------------------- run


def run(ctx) -> core.Report:
    rng = ctx["rng"]
    thorough = ctx["tier"] == "thorough" or ctx["escalate"]
    rep = core.Report(rule="cell cover: every jacobian_row node kind (and the kinds without one) × V ∈ {own, reversed, "
                           "permuted, superset before/after, interleaved, other objects with the same names, one clone, "
                           "a variable missing} × slices (overlapping, stepped, reversed, matrix rows/columns, symmetric) × "
                           "BinaryOp wrappers; multi-row lists; seeded random expression lists.  non-trivial = distinct "
                           "(expressions, V) whose Jacobian is not identically the constant 0")
    FULL[0] = thorough
    AUDIT_SKIPPED.clear()
    del RETAINED[:]
    del RETAINED_FAILS[:]
    cases = cell_cases(rng) + random_cases(rng, 8000 if thorough else 700, 5 if thorough else 3)
    for k, v in AUDIT_SKIPPED.items():
        rep.skipped[k] = rep.skipped.get(k, 0) + v

    lines, metas = [], []
    oracle_only = []
    for tag, es, V, U in cases:
        try:
            params = all_params(es)
            es_s, V_s, store = ser_case(es, V, params)
        except Unsupported as ex:
            # outside the Lean syntax (bool constants, element-wise nodes, …): the property oracle still applies
            rep.skipped["model-unsupported(oracle only):" + str(ex)] = rep.skipped.get("model-unsupported(oracle only):" + str(ex), 0) + 1
            oracle_only.append((tag, es, V))
            continue
        pos = rng.random() < 0.6
        xs = rand_x(rng, len(V), pos)
        E, VV, X = plist(es_s), plist(V_s), point_text(xs)
        idx = len(lines)
        lines.append(f"jacrows {E} {VV}")
        lines.append(f"jacpath {E} {VV}")
        lines.append(f"jacrun {E} {VV} {X} {store}")
        single = len(es) == 1
        if single:
            lines.append(f"jacrow {es_s[0]} {VV}")
            lines.append(f"gradpath {es_s[0]} {VV}")
            lines.append(f"gradrun {es_s[0]} {VV} {X} {store}")
        metas.append((tag, es, V, xs, params, idx, single))
    outs = run_lean_unit(lines)
    rep.evaluations = len(metas)

    import optyx.core.autodiff as AD
    from optyx.core.compiler import CompiledExpression

    def mismatch(kind, tag, es, V, xs, params, impl, model):
        d = {"kind": kind, "tag": tag, "impl": str(impl)[:300], "model": str(model)[:300]}
        d.update(payload_of(es, V, xs, params))
        rep.corr_mismatches.append(d)

    for tag, es, V, xs, params, idx, single in metas:
        hk = tag.split("|")[0].split(":")[0]
        rep.histogram["node:" + hk] = rep.histogram.get("node:" + hk, 0) + 1
        vk = tag.split("|")[1] if "|" in tag else "?"
        rep.histogram["V:" + vk] = rep.histogram.get("V:" + vk, 0) + 1
        x = np.array(xs, dtype=float)
        # (i) structural rows
        J = grab(lambda: AD.compute_jacobian(es, V))
        rows_impl = J if isinstance(J, str) else rows_text(J)
        if rows_impl != outs[idx]:
            mismatch("rows", tag, es, V, xs, params, rows_impl, outs[idx])
        if not isinstance(J, str) and any(Ser(with_ids=False).expr(e) != "(c 0)" for r in J for e in r):
            rep.nontrivial.add(hash((outs[idx], tuple(v.name for v in V))))
        # (ii) path
        fn = grab(lambda: AD.compile_jacobian(es, V))
        path_impl = fn if isinstance(fn, str) else fn.__name__
        rep.histogram["path:" + path_impl] = rep.histogram.get("path:" + path_impl, 0) + 1
        if path_impl != outs[idx + 1]:
            mismatch("jacpath", tag, es, V, xs, params, path_impl, outs[idx + 1])
        covered = names_of(es) <= {v.name for v in V}
        regular = None
        if covered and not isinstance(fn, str):
            regular = oracle_rows(es, V, xs)
        # (iii) numeric, model vs code, on regular rows
        if not isinstance(fn, str) and not outs[idx + 2].startswith("raise") and regular is not None:
            got = grab(lambda: np.asarray(fn(x), dtype=float))
            model = parse_nums(outs[idx + 2])
            if isinstance(got, str):
                if all(w is not None for w in regular):
                    mismatch("jacrun-raise", tag, es, V, xs, params, got, outs[idx + 2])
                else:
                    rep.skipped["raise-at-irregular-point"] = rep.skipped.get("raise-at-irregular-point", 0) + 1
            else:
                for i, wr in enumerate(regular):
                    if wr is None:
                        continue
                    if len(model) != got.shape[0] or len(model[i]) != got.shape[1]:
                        mismatch("jacrun-shape", tag, es, V, xs, params, got.shape, outs[idx + 2]); break
                    if not all(close(float(got[i, j]), model[i][j]) for j in range(len(V))):
                        if well_conditioned(es[i], V, xs, wr):
                            mismatch("jacrun", tag, es, V, xs, params, got[i].tolist(), model[i])
                        else:
                            rep.skipped["ill-conditioned"] = rep.skipped.get("ill-conditioned", 0) + 1
        if single:
            e = es[0]
            r = grab(lambda: e.jacobian_row(V))
            row_impl = r if isinstance(r, str) else ("none" if r is None else plist([Ser(with_ids=False).expr(a) for a in r]))
            if row_impl != outs[idx + 3]:
                mismatch("jacrow", tag, es, V, xs, params, row_impl, outs[idx + 3])
            rep.histogram["row:" + ("none" if row_impl == "none" else "some")] = \
                rep.histogram.get("row:" + ("none" if row_impl == "none" else "some"), 0) + 1
            gfn = grab(lambda: real_gradient(e, V))
            gp = gfn if isinstance(gfn, str) else gfn.__name__
            rep.histogram["gpath:" + gp] = rep.histogram.get("gpath:" + gp, 0) + 1
            if gp != outs[idx + 4]:
                mismatch("gradpath", tag, es, V, xs, params, gp, outs[idx + 4])
            if not isinstance(gfn, str) and regular is not None and regular[0] is not None \
                    and not outs[idx + 5].startswith("raise"):
                g = grab(lambda: np.asarray(gfn(x), dtype=float))
                model = parse_nums(outs[idx + 5])
                if isinstance(g, str) or len(model) != len(g) or \
                        not all(close(float(a), b) for a, b in zip(g, model)):
                    if isinstance(g, str) or well_conditioned(e, V, xs, regular[0]):
                        mismatch("gradrun", tag, es, V, xs, params, g if isinstance(g, str) else g.tolist(), model)
                # CompiledExpression.gradient is the same callable family
                ce = grab(lambda: np.asarray(CompiledExpression(e, V).gradient(x), dtype=float))
                if isinstance(ce, str) or not all(close(float(a), float(b)) for a, b in zip(ce, g)):
                    rep.oracle_failures.append(dict(payload_of(es, V, xs, params), kind="compiled-expression-gradient",
                                                    what="CompiledExpression.gradient differs from compile_gradient",
                                                    got=str(ce)[:200], want=str(g)[:200]))
        # property oracle on the real code (independent of the Lean model): the point sent to the model, plus points
        # in every sign pattern for the compositions (one further random pattern for everything else)
        if tag.startswith("comp:"):
            more = sign_points(rng, len(V))
        elif V and covered and "orders" not in tag:
            more = [[rng.choice((1.0, -1.0)) * rng.choice(MAGS) for _ in V], wide_point(rng, len(V))]
        else:
            more = []
        for pt in [xs] + more:
            fails, checked, skipped = check_numeric(es, V, pt)
            rep.histogram["oracle_entries"] = rep.histogram.get("oracle_entries", 0) + checked
            rep.histogram["oracle_points"] = rep.histogram.get("oracle_points", 0) + 1
            if skipped:
                rep.skipped["irregular-or-ill-conditioned-row"] = rep.skipped.get("irregular-or-ill-conditioned-row", 0) + skipped
            for f in fails:
                f.update(payload_of(es, V, pt, params))
                f["tag"] = tag
                rep.oracle_failures.append(f)
        # call sequences at regular points (one callable, several requests; answers must not depend on history)
        if es and V and covered and (thorough or zlib.crc32(tag.encode()) % 4 == 0):
            q = rand_x(rng, len(V), True)
            for kind in (("jac", "grad") if single else ("jac",)):
                sf, n_calls = check_sequences(kind, es, V, light_sequences(xs, q, len(params)))
                rep.histogram["sequence_calls"] = rep.histogram.get("sequence_calls", 0) + n_calls
                for f in sf:
                    # only points regular for every row are witnesses of C03
                    if all(w is not None for w in oracle_rows(es, V, f["x"])):
                        f.update(payload_of(es, V, f["x"], params))
                        f["tag"] = tag
                        rep.oracle_failures.append(f)
                    else:
                        rep.skipped["sequence-at-irregular-point"] = rep.skipped.get("sequence-at-irregular-point", 0) + 1
        if len(rep.samples) < 6 and single and outs[idx + 3] != "none" and len(outs[idx]) < 220:
            rep.samples.append({"tag": tag, "V": [v.name for v in V], "rows": outs[idx], "path": outs[idx + 1]})

    def record(fails, tag=None):
        for f in fails:
            if tag and "tag" not in f:
                f["tag"] = tag
            rep.oracle_failures.append(f)

    # cases the Lean syntax cannot express: property oracle + call sequences only
    for tag, es, V in oracle_only:
        if not (es and V):
            continue
        for pt in [rand_x(rng, len(V), True), rand_x(rng, len(V), False), wide_point(rng, len(V))]:
            fails, checked, _ = check_numeric(es, V, pt)
            rep.histogram["oracle_entries"] = rep.histogram.get("oracle_entries", 0) + checked
            for f in fails:
                f["exprs_repr"] = [repr(e)[:200] for e in es]; f["V_names"] = [v.name for v in V]; f["x"] = pt
            record(fails, tag)
    # every cell again with the recursion thresholds forced low (explicit-stack differentiator / compiler on every tree)
    step = 7 if not thorough else 2
    with forced_thresholds(2):
        for tag, es, V, xs, params, idx, single in metas[::step]:
            if not (es and V) or tag.startswith("deep"):
                continue
            fails, checked, _ = check_numeric(es, V, xs)
            rep.histogram["oracle_entries_thresholds_forced"] = rep.histogram.get("oracle_entries_thresholds_forced", 0) + checked
            for f in fails:
                f.update(payload_of(es, V, xs, params)); f["thresholds_forced"] = 2
            record(fails, tag + "|threshold=2")
    # channels and histories that are not (expression, V) cases
    U0 = gen.Universe(rng)
    f1, n1 = scipy_channel_failures(rng, U0, 400 if thorough else 60)
    rep.histogram["scipy_channel_checks"] = n1
    record(f1)
    f2, n2 = lifetime_failures(rng, 1500 if thorough else 150)
    rep.histogram["lifetime_entries"] = n2
    record(f2)
    record(user_array_failures(U0), "user-arrays")
    recheck_retained()
    record(list(RETAINED_FAILS))
    return rep


def search(ctx, rep):
    """correspondence or proof broken and no failing input among this run's cases: widen the dual-number
    oracle over many more (expression list, V order, point) triples on the real code"""
    rng = core.Rng(ctx["seed"] + 104729)

    def probe(tag, es, V, points):
        for xs in points:
            fails, _, _ = check_numeric(es, V, xs)
            if fails:
                f = fails[0]
                try:
                    f.update(payload_of(es, V, xs, all_params(es)))
                except Unsupported:
                    return None
                f["tag"] = tag
                return f
        return None

    # (1) the rule / simplifier interaction family at every sign pattern and several magnitudes: when a generated
    #     rule template or a proof about it broke, the change is in exactly these operators
    U = gen.Universe(rng)
    for tag, e in composition_exprs(U):
        own = sorted({v.name: v for v in gen.expr_vars(e)}.values(), key=lambda v: v.name)
        pts = [p for _ in range(3) for p in sign_points(rng, len(own))]
        f = probe(tag, [e], own, pts)
        if f:
            return f
    # (2) the disagreeing cases of this run, at many sign patterns
    seen = set()
    for mm in rep.corr_mismatches[:300]:
        key = (tuple(mm.get("exprs", [])), tuple(mm.get("V", [])))
        if "exprs" not in mm or key in seen:
            continue
        seen.add(key)
        try:
            es, V, _ = rebuild(mm)
        except Exception:  # noqa: BLE001
            continue
        pts = [p for _ in range(4) for p in sign_points(rng, len(V))]
        f = probe(mm.get("tag", "mismatch"), es, V, pts)
        if f:
            return f
    for rnd in range(6):
        pool = cell_cases(rng) + random_cases(rng, 1500, 4)
        for tag, es, V, U in pool:
            for positive in (True, False):
                xs = rand_x(rng, len(V), positive)
                fails, _, _ = check_numeric(es, V, xs)
                if fails:
                    f = fails[0]
                    try:
                        f.update(payload_of(es, V, xs, all_params(es)))
                    except Unsupported:
                        continue
                    f["tag"] = tag
                    return f
    return None


def rebuild(f):
    d = Deser()
    es = [d.expr(parse_sexp(s)[0]) for s in f["exprs"]]
    V = [d.var(parse_sexp(s)[0]) for s in f["V"]]
    for pair in parse_sexp(f.get("params", "()"))[0]:
        key = ("p", pair[0])
        if key in d.objs:
            from fractions import Fraction
            d.objs[key].set(float(Fraction(pair[1])))
    return es, V, [float(a) for a in f["x"]]


def replay(payload) -> bool:
    f = payload["failure"]
    if f.get("kind") == "call-sequence":
        return replay_sequence(f)
    if "exprs" not in f:
        print("this failure has no serialisable expression (outside the Lean syntax); see its repr fields:", {k: f[k] for k in f if k != "got"})
        return False
    es, V, xs = rebuild(f)
    if f.get("thresholds_forced") is not None:
        with forced_thresholds(int(f["thresholds_forced"])):
            fails, checked, skipped = check_numeric(es, V, xs)
        print("entries checked (thresholds forced):", checked)
        for g in fails:
            print("FAIL:", g)
        return not fails
    fails, checked, skipped = check_numeric(es, V, xs)
    print("entries checked:", checked, "rows skipped:", skipped)
    for g in fails:
        print("FAIL:", g)
    return not fails
