"""C10 — constraints mean the relation the user wrote, also inside the solver.

Tie:    (i) the operand-kind table: every (left kind, right kind) pair over Python int/float, NumPy scalars,
        0-d / 1-d / 2-d arrays, lists, scalar Expressions, Vector* and Matrix* objects × {<=, >=, .eq} × matching /
        mismatching shapes on the *real operators*; the canonical outcome (Constraint | list of Constraints |
        exception class | "NumPy took the comparison") is compared exactly with Py.Api.compare of the Lean model;
        (ii) Constraint.evaluate / violation / is_satisfied and (iii) the SciPy dicts that
        `_build_solver_cache` really builds (type, fun(x), jac(x)) are probed at dyadic points and compared
        with the model (`viol`, `scipy` commands).
Oracle: direct evaluation of the relation between the operand values (independent reference interpreter
        oracle.ref_eval, NumPy broadcasting for scalar operands): constraint i must be satisfied exactly when the
        relation holds between the i-th elements, violation must be the amount by which it fails, the SciPy
        function must be >= 0 (== 0) exactly on that set and its Jacobian the derivative (dual numbers) of it.
Known:  F21 (ndarray on the left of a scalar Expression: NumPy evaluates the comparison, no constraint),
        F24 (`v**2 <= 4` on a VectorVariable: one Constraint over an array-valued node).
"""
from __future__ import annotations

import itertools
import math
import warnings

import numpy as np

import core
import oracle
from ser import Ser, Ids, Unsupported, rat, env_text
from props import c11 as R

LEAN_MODULE = "Optyx.Props.C10"
EXTRA_MODULES = ["Optyx.Props.PinsC10", "Optyx.Props.ConstraintTie", "Optyx.Props.OperatorsTie"]   # transcription anchors (harness/source_pins.py)
THEOREMS = [
    "Optyx.Props.C10.mkConstraint_denote",
    "Optyx.Props.C10.mkConstraint_error_iff",
    "Optyx.Props.C10.violation_spec",
    "Optyx.Props.C10.violation_nonneg",
    "Optyx.Props.C10.satisfied_iff",
    "Optyx.Props.C10.satisfied_zero_tol_iff",
    "Optyx.Props.C10.scipy_ineq_nonneg_iff",
    "Optyx.Props.C10.scipy_eq_zero_iff",
    "Optyx.Props.C10.scipy_sign_consistent",
    "Optyx.Props.C10.scipy_jac_is_deriv",
    "Optyx.Props.C10.vectorConstraint_elementwise",
    "Optyx.Props.C10.matrixConstraint_elementwise",
    "Optyx.Props.C10.shape_mismatch_raises",
    "Optyx.Props.C10.reflected_dispatch",
    "Optyx.Props.C10.compare_meaning",
    "Optyx.Props.Glue.makeConstraint_shape",
    "Optyx.Props.Glue.scipyConstraint_agrees",
    "Optyx.Props.Glue.conRow_table",
    "Optyx.Props.ConstraintTie.api_violation_eq",
    "Optyx.Props.ConstraintTie.senses_eq",
    "Optyx.Props.ConstraintTie.isSatisfied_eq",
    "Optyx.Props.ConstraintTie.isSatisfied_default",
    "Optyx.Props.ConstraintTie.evaluate_text",
    "Optyx.Props.OperatorsTie.operators_spec",
    "Optyx.Props.OperatorsTie.comparisons_spec",
    "Optyx.Props.OperatorsTie.ensureExpr_text",
    "Optyx.Props.ConstraintTie.getVariables_text",
    "Optyx.Props.PinsC10.anchors",
]
ASSUMPTIONS = [
    "values are reals (ordered field); IEEE rounding of lhs - rhs is not modelled",
    "the compiled function / Jacobian handed to SciPy are the value / gradient of the constraint expression (properties C01, C03)",
    "tolerance of is_satisfied is explicit and non-negative (for tol < 0 the real code never reports satisfaction)",
    "operand kinds: Python int/float, NumPy scalars, ndarray of ndim 0..3, (nested) lists of numbers, Expression, Vector*, Matrix*; bool / str / complex operands are outside the model",
]


def run_lean_unit(lines):
    return core.run_lean(lines)


# ------------------------------------------------------------------ operands


class Op:
    """an operand of a comparison: literal description + how to build it + its value"""

    def __init__(self, kind, shape, make, sexp, value):
        self.kind, self.shape, self.make, self.sexp, self.value = kind, shape, make, sexp, value


def literal_ops(n, r, c):
    """non-optyx operands for a vector length n and a matrix shape (r, c), matching and mismatching"""
    L = []

    def lit(kind, l, shape):
        L.append(Op(kind, shape, (lambda l=l: R.lit_py(l)), (lambda ids, l=l: R.lit_sexp(l)),
                    (lambda pt, l=l: np.asarray(R.lit_py(l), dtype=float))))

    lit("int", ("int", 2), ())
    lit("float", ("float", 1.5), ())
    lit("npf", ("npf", 0.5), ())
    lit("npi", ("npi", 1), ())
    L.append(Op("npf32", (), lambda: np.float32(1.5), lambda ids: "(npi 3/2)", lambda pt: np.asarray(1.5)))
    lit("a0", ("a0", 1.5), ())
    for m in sorted({n, n + 1, 1}):
        lit("a1", ("a1", [0.5 * (i + 1) for i in range(m)]), (m,))
        lit("l1", ("l1", [float(i) - 0.5 for i in range(m)]), (m,))
    for rr, cc in sorted({(r, c), (r + 1, c), (c, r), (1, c), (r, 1)}):
        lit("a2", ("a2", [[0.5 * (i - j) for j in range(cc)] for i in range(rr)]), (rr, cc))
        lit("l2", ("l2", [[float(i * cc + j) / 4 for j in range(cc)] for i in range(rr)]), (rr, cc))
    # the same logical array in other memory layouts / dtypes (non-symmetric values): NumPy semantics
    # and therefore the constraints must not depend on strides, order or dtype
    for lay in R.LAYOUTS[1:]:
        lit("a1", ("a1", [float((3 * i) % 5 - 1) for i in range(n)], lay), (n,))
        lit("a2", ("a2", [[float((2 * i + 3 * j) % 7 - 2) for j in range(c)] for i in range(r)], lay), (r, c))
    lit("aN", ("aN", 3, n), (n, 1, 1))
    return L


NP_DTYPES = ["uint8", "uint16", "uint32", "uint64", "int8", "int16", "int32", "int64", "float16", "float32", "float64", "bool_"]


def dtype_values(dt):
    """interesting values of a NumPy scalar type: 0, 1, a small one, the extremes"""
    t = getattr(np, dt)
    if dt == "bool_":
        return [t(False), t(True)]
    if dt.startswith(("uint", "int")):
        info = np.iinfo(t)
        vals = [0, 1, 3, info.max] + ([info.min, -2] if info.min < 0 else [])
        return [t(v) for v in vals]
    info = np.finfo(t)
    return [t(0.0), t(1.0), t(-0.5), t(1.5), t(info.max)]


def numeric_ops(n, r, c):
    """numeric operand kinds: Python int / float / bool, NumPy scalars of every dtype, 0-d arrays of them, and 1-d / 2-d
    arrays of every dtype.  The operand's mathematical value is taken here, by float(), before any arithmetic."""
    ops = []

    def add(kind, obj, sx, shape=(), item=False):
        val = np.asarray(obj, dtype=float) if shape else np.asarray(float(obj))
        op = Op(kind, shape, (lambda obj=obj: obj), (lambda ids, sx=sx: sx) if sx else _unsupported, (lambda pt, val=val: val))
        if item:
            # a NumPy scalar on the LEFT of a scalar Expression: NumPy hands `self.item()` (a Python int / float / bool)
            # to the reflected method, so the operand the constraint builder sees is that Python number, exactly
            it = obj.item()
            alt = None if isinstance(it, bool) else f"(int {it})" if isinstance(it, int) else f"(float {rat(it)})"
            op.sexp_left_of_scalar = (lambda ids, alt=alt: alt) if alt else _unsupported
        ops.append(op)

    for v in (0, 1, 3, -2, 2 ** 40, -(2 ** 70)):
        add("pyint", v, f"(int {rat(v)})")
    for v in (0.0, 1.0, -0.5, 1e300):
        add("pyfloat", v, f"(float {rat(v)})")
    for v in (True, False):
        add("pybool", v, None)                      # Constant(True): no S-expression (ser rejects bool constants); semantics only
    for dt in NP_DTYPES:
        for v in dtype_values(dt):
            q = rat(float(v))
            add("np:" + dt, v, f"(npf {q})" if dt == "float64" else f"(npi {q})", item=True)
            add("a0:" + dt, np.array(v), f"(a0 {q})")
        vals = dtype_values(dt)
        t = getattr(np, dt)
        row = [vals[i % len(vals)] for i in range(n)]
        add("a1:" + dt, np.array(row, dtype=t), "(a1 (" + " ".join(rat(float(x)) for x in row) + "))", (n,))
        grid = [[vals[(2 * i + j + 1) % len(vals)] for j in range(c)] for i in range(r)]
        add("a2:" + dt, np.array(grid, dtype=t), "(a2 (" + " ".join("(" + " ".join(rat(float(x)) for x in g) + ")" for g in grid) + "))", (r, c))
    return ops


def _unsupported(ids):
    raise Unsupported("no S-expression for this operand")


def elems_of(o):
    """flat element list (Expression objects) of an optyx container, row-major"""
    from optyx.core import vectors as V
    from optyx.core import matrices as M

    if isinstance(o, V.VectorVariable):
        return list(o._variables)
    if isinstance(o, V.VectorExpression):
        return list(o._expressions)
    if isinstance(o, M.MatrixVariable):
        return [v for row in o._variables for v in row]
    if isinstance(o, M.MatrixExpression):
        return [e for row in o._expressions for e in row]
    return [o]


def optyx_sexp(o, ids):
    """operand literal of the `cmp` command for a real object (object ids kept)"""
    from optyx.core.expressions import Expression
    from optyx.core import vectors as V
    from optyx.core import matrices as M

    S = Ser(ids)
    if isinstance(o, M.MatrixVectorProduct):
        rows = " ".join(S.rats(row) for row in np.asarray(o.matrix))
        return f"(mvp ({rows}) {S.vec(o.vector)})"
    if isinstance(o, V.VectorExpression):
        return "(ve (" + " ".join(S.expr(e) for e in o._expressions) + "))"
    if isinstance(o, V.VectorVariable):
        return S.vvar(o)
    if isinstance(o, V.ElementwisePower):
        return f"(epow {S.vvar(o.vector)} {rat(o.power)})"
    if isinstance(o, V.ElementwiseUnary):
        return f"(eun {S.vvar(o.vector)} {o.op})"
    if isinstance(o, M.MatrixVariable):
        return S.mvar(o)
    if isinstance(o, M.MatrixExpression):
        return "(me (" + " ".join("(" + " ".join(S.expr(e) for e in row) + ")" for row in o._expressions) + "))"
    if isinstance(o, Expression):
        return "(e " + S.expr(o) + ")"
    raise Unsupported(type(o).__name__)


class World:
    """fresh modelling objects for one batch of comparisons"""

    def __init__(self, n, r, c):
        import optyx
        from optyx.core import matrices as M
        from optyx.core.functions import abs_, sin
        from optyx.core.expressions import Constant

        self.n, self.r, self.c = n, r, c
        self.x, self.y = optyx.Variable("x"), optyx.Variable("y")
        self.p = optyx.Parameter("p", 0.75)
        self.v, self.w = optyx.VectorVariable("v", n), optyx.VectorVariable("w", n)
        self.u = optyx.VectorVariable("u", n + 1)
        self.A, self.B = optyx.MatrixVariable("A", r, c), optyx.MatrixVariable("B", r, c)
        self.C = optyx.MatrixVariable("C", r + 1, c)
        self.S = optyx.MatrixVariable("S", c, c, symmetric=True)
        q = np.array([[float((i + 2 * j) % 3 - 1) / 2 for j in range(n)] for i in range(n)])
        objs = [
            ("e", (), self.x), ("e", (), 2 * self.x - self.y * self.x + 1), ("e", (), self.p * self.y),
            ("e", (), self.v.sum()), ("e", (), self.v.dot(self.w) - 1),
            ("vv", (n,), self.v), ("vv", (n,), self.w[::-1]), ("vv", (n + 1,), self.u),
            ("ve", (n,), self.v + self.w), ("ve", (n,), 2 * self.w - 1), ("ve", (n + 1,), self.u * 0.5),
            ("mvp", (n,), M.MatrixVectorProduct(q, self.w)),
            ("mv", (r, c), self.A), ("mv", (r, c), self.B), ("mv", (r + 1, c), self.C), ("mv", (c, r), self.A.T),
            ("mv", (c, c), self.S),
            ("me", (r, c), self.A - self.B), ("me", (r, c), 2 * self.B + 1), ("me", (r + 1, c), self.C * 2),
            ("epow", (n,), self.v ** 2), ("eun", (n,), abs_(self.w)),
            # constant-valued compound expressions where a number can stand
            ("e", (), Constant(2) * Constant(3) - 1), ("e", (), self.p), ("e", (), 0 * self.y + 1.5), ("e", (), sin(Constant(0.5)) + self.p * 2),
            # wrappers around reduction nodes at the root
            ("e", (), 3 - 2 * self.w.sum()), ("e", (), -(self.v.dot(self.v)) / 2), ("e", (), (self.A * self.A).sum() - self.S.trace()),
            # further vector-like / matrix-like objects: strided view, slice of a slice, matrix row / column / diagonal,
            # strided block and transposed slice of a symmetric matrix, 1 x c and r x 1 blocks
            ("vv", (len(range(n)[::2]),), self.v[::2]), ("vv", (n,), self.w[::-1][0:n]), ("vv", (c,), self.A[0, :]), ("vv", (r,), self.A[:, -1]),
            ("vv", (c,), self.S.diagonal()), ("mv", (c, c), self.S[::-1, :]), ("mv", (r, c), self.A.T[:, ::-1].T),
            ("mv", (1, c), self.A[0:1, :]), ("mv", (r, 1), self.B[:, 0:1]), ("me", (c, c), self.S - self.S.T * 2),
        ]
        self.ops = []
        for kind, shape, o in objs:
            op = Op(kind, shape, (lambda o=o: o), (lambda ids, o=o: optyx_sexp(o, ids)),
                    (lambda pt, o=o, shape=shape: self.value(o, shape, pt)))
            try:
                op.uses_p = kind == "e" and '(p "p"' in Ser(with_ids=False).expr(o)
            except Unsupported:
                op.uses_p = False
            self.ops.append(op)
        self.ops += literal_ops(n, r, c)
        # one representative per optyx receiver kind, to be paired with every numeric operand kind
        self.partners = [self.ops[i] for i in (0, 1, 5, 8, 11, 12, 17)]
        self.num_ops = numeric_ops(n, r, c)
        self.names = sorted({v.name for _, _, o in objs for e in elems_of(o) for v in self.vars_of(e)})

    @staticmethod
    def vars_of(e):
        from optyx.core.expressions import get_all_variables
        try:
            return get_all_variables(e)
        except Exception:  # noqa: BLE001
            return set()

    @staticmethod
    def value(o, shape, pt):
        from optyx.core import vectors as V
        if isinstance(o, (V.ElementwisePower, V.ElementwiseUnary)):
            raise oracle.NotRegular("array-valued node")
        vals = [oracle.ref_eval(e, pt) for e in elems_of(o)]
        return np.asarray(vals, dtype=float).reshape(shape)


OPTYX_KINDS = ("e", "vv", "ve", "mvp", "mv", "me", "epow", "eun")


def do_compare(rel, a, b):
    with warnings.catch_warnings(), np.errstate(all="ignore"):
        warnings.simplefilter("ignore")
        if rel == "le":
            return a <= b
        if rel == "ge":
            return a >= b
        return a.eq(b)


def outcome_text(res):
    """canonical text of what a comparison returned / raised (same syntax as showOutcome)"""
    from optyx.constraints import Constraint

    S = Ser(with_ids=False)
    if isinstance(res, R.PyErr):
        return "raise:" + res.cls
    try:
        if isinstance(res, Constraint):
            return "single " + R.ser_constraint(res, S)
        if isinstance(res, list) and all(isinstance(c, Constraint) for c in res):
            return "many " + " ".join(R.ser_constraint(c, S) for c in res)
    except (Unsupported, TypeError, ValueError):
        return "raise:outside-model"
    if isinstance(res, (np.ndarray, np.bool_, bool)):
        return "numpy-bool"
    return "other:" + type(res).__name__


def relation_holds(rel, l, r):
    return {"le": l <= r, "ge": l >= r, "eq": l == r}[rel]


def expected_violation(rel, l, r):
    return {"le": max(0.0, l - r), "ge": max(0.0, r - l), "eq": abs(l - r)}[rel]


def semantic_check(rel, lop, rop, res, pt):
    """the property oracle on the real constraints; returns a failure dict or None"""
    from optyx.constraints import Constraint

    cs = [res] if isinstance(res, Constraint) else list(res)
    try:
        lv, rv = lop.value(pt), rop.value(pt)
    except oracle.NotRegular:
        return "skip"
    try:
        L, Rr = np.broadcast_arrays(lv, rv)
    except ValueError:
        return {"what": "constraints were created for operands whose shapes do not broadcast", "n": len(cs)}
    L, Rr = L.reshape(-1), Rr.reshape(-1)
    if len(cs) != len(L):
        return {"what": "number of constraints differs from the number of elements", "n": len(cs), "elements": int(len(L))}
    for i, c in enumerate(cs):
        l, r = float(L[i]), float(Rr[i])
        want_v = expected_violation(rel, l, r)
        want_s = want_v <= 1e-8            # the documented default tolerance; equals the relation itself on dyadic points
        try:
            got_v, got_s = c.violation(pt), c.is_satisfied(pt)
        except Exception as ex:  # noqa: BLE001
            return {"what": "violation()/is_satisfied() raised", "error": f"{type(ex).__name__}: {ex}"[:120], "index": i}
        try:
            got_e = c.evaluate(pt)
        except Exception as ex:  # noqa: BLE001
            return {"what": "evaluate() raised", "error": f"{type(ex).__name__}: {ex}"[:120], "index": i}
        if abs(got_e) != abs(l - r):
            return {"what": "constraint value is not the difference of the two sides", "index": i, "lhs": l, "rhs": r, "evaluate": got_e}
        if got_v != want_v or bool(got_s) != bool(want_s):
            return {"what": "constraint does not mean the written relation", "index": i, "lhs": l, "rhs": r,
                    "violation": got_v, "want_violation": want_v, "satisfied": bool(got_s), "want_satisfied": bool(want_s)}
        # tolerance: satisfied with tol iff violation <= tol
        if bool(c.is_satisfied(pt, tol=0.0)) != relation_holds(rel, l, r):
            return {"what": "is_satisfied(tol=0) differs from the relation itself", "index": i, "lhs": l, "rhs": r}
        for tol in (0.0, 1e-300, 1e-12, 1e-8, 0.25, 10.0, 1e16):
            if bool(c.is_satisfied(pt, tol=tol)) != (want_v <= tol):
                return {"what": "is_satisfied(tol) differs from violation <= tol", "index": i, "tol": tol, "violation": want_v}
    return None


def operand_pairs(lop, rop, pt):
    """[(left_i, right_i)] from the operands' own values (NumPy broadcasting), or None"""
    try:
        L, Rr = np.broadcast_arrays(lop.value(pt), rop.value(pt))
    except (oracle.NotRegular, ValueError):
        return None
    return list(zip(L.reshape(-1).tolist(), Rr.reshape(-1).tolist()))


def scipy_check(rel, cs, pt_names, pt, rep, lr=None):
    """build a Problem around the constraints, capture the dicts _build_solver_cache makes, probe them"""
    import optyx
    from optyx.solvers.scipy_solver import _build_solver_cache

    z = optyx.Variable("zz_obj")
    prob = optyx.Problem().minimize(z * z)
    for c in cs:
        prob.subject_to(c)
    variables = prob.variables
    with warnings.catch_warnings(), np.errstate(all="ignore"):
        warnings.simplefilter("ignore")
        cache = _build_solver_cache(prob, variables)
    dicts = cache["scipy_constraints"]
    full = dict(pt)
    full.setdefault("zz_obj", 0.5)
    xvec = np.array([full[v.name] for v in variables], dtype=float)
    out = []
    if len(dicts) != len(cs):
        return [{"what": "number of SciPy dicts differs from the number of constraints"}], []
    fails = []
    for i, (c, d) in enumerate(zip(cs, dicts)):
        with warnings.catch_warnings(), np.errstate(all="ignore"):
            warnings.simplefilter("ignore")
            f = float(d["fun"](xvec))
            j = np.asarray(d["jac"](xvec), dtype=float).reshape(-1)
        try:
            val = oracle.ref_eval(c.expr, full)          # lhs - rhs
            grad = [oracle.ref_grad(c.expr, full, v.name) for v in variables]
        except (oracle.NotRegular, ZeroDivisionError, OverflowError, ValueError):
            rep.skipped["irregular-point"] = rep.skipped.get("irregular-point", 0) + 1
            continue
        sign = -1.0 if c.sense == "<=" else 1.0
        want_type = "eq" if c.sense == "==" else "ineq"
        if d["type"] != want_type or not oracle.close(f, sign * val, 1e-9, 1e-12):
            fails.append({"what": "SciPy constraint function is not ±(lhs - rhs) with the sign of the sense", "index": i,
                          "sense": c.sense, "type": d["type"], "fun": f, "want": sign * val})
            continue
        if len(j) != len(grad) or any(not oracle.close(a, sign * b, 1e-7, 1e-9) for a, b in zip(j, grad)):
            fails.append({"what": "SciPy constraint Jacobian is not the derivative of the constraint function", "index": i,
                          "sense": c.sense, "jac": j.tolist(), "want": [sign * g for g in grad]})
            continue
        # the defining property: feasible set of the dict = the written relation
        holds = {"<=": val <= 0, ">=": val >= 0, "==": val == 0}[c.sense]
        dict_feasible = (f == 0) if d["type"] == "eq" else (f >= 0)
        if holds != dict_feasible:
            fails.append({"what": "SciPy feasibility differs from the relation", "index": i, "sense": c.sense, "fun": f, "value": val})
        # ... and the relation is the one between the operands as written (their values taken by the harness)
        if lr is not None and i < len(lr):
            l, r = lr[i]
            if dict_feasible != relation_holds(rel, l, r) or not oracle.close(abs(f), abs(l - r), 1e-9, 1e-12):
                fails.append({"what": "SciPy constraint function does not express the relation between the operands as written",
                              "index": i, "sense": c.sense, "fun": f, "lhs": l, "rhs": r})
        out.append((c, variables, f, j))
    return fails, out


# ------------------------------------------------------------------ magnitudes and the tolerance boundary

MAGS = [0.0, 1e-300, -1e-300, 1e-12, -1e-12, 1e-9, -1e-9, 9.9e-9, 1.01e-8, 1e-7, -1e-7, 1.0, -2.5, 1e8, -1e8, 1e16, -1e16, 1.5e17, 1e300]
DELTAS = [0.0, 5e-9, -5e-9, 1e-8, -1e-8, 1.5e-8, -1.5e-8, 9.999e-9, 1.0001e-8, 1e-7, -1e-7, 1e-300, -1e-300, 1.0, -1.0]


def magnitude_family(W, rng, rep):
    """rhs constants from 1e-300 to 1e300 (both signs, exact 0) against a scalar, a vector and a matrix variable, probed at
    points ON the boundary lhs == rhs and within 1e-9 .. 1e-7 of it on both sides (the default tolerance of is_satisfied
    is 1e-8): violation, is_satisfied(tol) and the SciPy dict must follow the relation between the variable's value and
    the constant exactly"""
    from optyx.constraints import Constraint

    fails = []
    recvs = [W.ops[0], W.ops[5], W.ops[12]]
    for recv in recvs:
        names = [v.name for e in elems_of(recv.make()) for v in World.vars_of(e)]
        for cval in MAGS:
            cop = Op("pyfloat", (), (lambda cval=cval: cval), (lambda ids, cval=cval: f"(float {rat(cval)})"),
                     (lambda pt, cval=cval: np.asarray(float(cval))))
            for rel in ("le", "ge", "eq"):
                for lop, rop in ((recv, cop), (cop, recv)):
                    if rel == "eq" and lop is cop:
                        continue
                    try:
                        res = do_compare(rel, lop.make(), rop.make())
                    except Exception as ex:  # noqa: BLE001
                        fails.append({"what": "a comparison with a plain number raised", "error": f"{type(ex).__name__}: {ex}"[:120],
                                      "cell": f"{lop.kind}:{rop.kind}", "rel": rel, "value": cval})
                        continue
                    deltas = list(DELTAS)
                    rng.shuffle(deltas)
                    for k in range(0, len(deltas), max(1, len(names))):
                        pt = {nm: 0.0 for nm in W.names}
                        for i, nm in enumerate(names):
                            pt[nm] = cval + deltas[(k + i) % len(deltas)]
                        r_ = semantic_check(rel, lop, rop, res, pt)
                        rep.histogram["magnitude-points"] = rep.histogram.get("magnitude-points", 0) + 1
                        if r_ not in (None, "skip"):
                            r_.update({"cell": f"{lop.kind}:{rop.kind}", "rel": rel, "left": lop.sexp(Ids()), "right": rop.sexp(Ids()),
                                       "point": {nm: pt[nm] for nm in names}, "family": "magnitude"})
                            fails.append(r_)
                            break
                    else:
                        cs = [res] if isinstance(res, Constraint) else res
                        f2, _p = scipy_check(rel, cs[:3], W.names, pt, rep, lr=operand_pairs(lop, rop, pt))
                        for f in f2:
                            f.update({"cell": f"{lop.kind}:{rop.kind}", "rel": rel, "left": lop.sexp(Ids()), "right": rop.sexp(Ids()),
                                      "point": {nm: pt[nm] for nm in names}, "family": "magnitude"})
                            fails.append(f)
    return fails


# ------------------------------------------------------------------ whole problems through the minimize seam


class _Captured(Exception):
    pass


def capture_solver_inputs(prob, method):
    """what optyx really hands to scipy.optimize.minimize (the import seam of solvers/scipy_solver.py)"""
    import optyx.solvers.scipy_solver as SS

    got = {}

    def spy(*a, **kw):
        got.update(kw)
        got["_args"] = a
        raise _Captured()

    old = SS.minimize
    SS.minimize = spy
    try:
        with warnings.catch_warnings():
            warnings.simplefilter("ignore")
            prob.solve(method=method)
    finally:
        SS.minimize = old
    return got


def gen_solver_problem(rng):
    """a problem with long vectors (>= 11 elements), digit-bearing scalar / container names and constraints that each
    touch a strict subset of the variables with unequal partial derivatives (linear and nonlinear)"""
    import optyx
    from optyx.core.functions import sin, cos
    from props import c16 as N

    for _ in range(50):
        fam = N.name_family(rng)
        decls = [["vec", nm, rng.choice([11, 12, 13, 3]), None, None] for nm in rng.sample(fam, min(len(fam), rng.randint(1, 2)))]
        decls += [["scalar", nm, None, None] for nm in rng.sample(fam, min(len(fam), rng.randint(2, 5)))]
        if rng.random() < 0.3:
            decls.append(["mat", rng.choice(fam), rng.choice([1, 2]), rng.choice([2, 11]), False, None, None])
        if N.names_unique(decls):
            break
    else:
        decls = [["vec", "x", 12, None, None], ["scalar", "x9", None, None], ["scalar", "x10", None, None]]
    vecs, mats, scalars = [], [], []
    for d in decls:
        if d[0] == "vec":
            vecs.append(optyx.VectorVariable(d[1], d[2]))
        elif d[0] == "mat":
            mats.append(optyx.MatrixVariable(d[1], d[2], d[3]))
        else:
            scalars.append(optyx.Variable(d[1]))
    allv = [v for vv in vecs for v in vv] + [v for m in mats for row in m._variables for v in row] + scalars
    obj = None
    for vv in vecs:
        t = vv.dot(vv)
        obj = t if obj is None else obj + t
    for m in mats:
        obj = obj + (m * m).sum() if obj is not None else (m * m).sum()
    for v in scalars:
        obj = obj + v * v if obj is not None else v * v

    def coef():
        return rng.choice([1.0, 2.0, 3.0, 5.0, -2.0, 0.5, -1.0, 4.0, -3.0, 7.0])

    cons = []
    for _ in range(rng.randint(4, 8)):
        k = rng.randint(1, min(5, len(allv) - 1))
        vs = rng.sample(allv, k)
        form = rng.choice(["lin", "lin", "pow", "prod", "trig", "slice-lc", "slice-dot", "mixed", "reduce-wrap", "reduce-wrap"])
        if form == "reduce-wrap" and (vecs or mats):
            # a vector / matrix reduction node at (or one wrapper away from) the root, over a view that is a strict subset
            if vecs and (not mats or rng.random() < 0.7):
                vv = rng.choice(vecs)
                n = len(vv)
                view = vv if n <= 3 else vv[rng.randint(0, 2):n:rng.choice([1, 2, 3])] if rng.random() < 0.8 else vv[::-1]
                red = rng.choice([lambda: view.sum(), lambda: view.dot(view), lambda: (view ** 2).sum(), lambda: (view ** 3).sum(),
                                  lambda: np.array([coef() for _ in range(len(view))]) @ view, lambda: (2 * view - 1).sum(),
                                  lambda: view.norm(1) if False else (view * view).sum(),
                                  lambda: optyx.core.matrices.QuadraticForm(view, np.array([[coef() for _ in range(len(view))] for _ in range(len(view))]))])()
            else:
                m = rng.choice(mats)
                mview = rng.choice([m, m.T, m[:, ::2], m[0:1, :]])
                red = rng.choice([lambda: mview.sum(), lambda: (mview * mview).sum(), lambda: (2 * mview + 1).sum()])()
            k_ = coef()
            e = rng.choice([lambda: red, lambda: -red, lambda: k_ * red, lambda: red * k_, lambda: red / 2, lambda: red + k_, lambda: k_ - red,
                            lambda: -(k_ * red) + 1.0, lambda: (red - 1.0) * k_, lambda: red + coef() * vs[0]])()
        elif form == "slice-lc" and vecs:
            vv = rng.choice(vecs)
            n = len(vv)
            view = vv[rng.randint(0, 2):n:rng.choice([2, 3, 4, 5])]
            e = np.array([coef() for _ in range(len(view))]) @ view
        elif form == "slice-dot" and vecs and len(rng.choice(vecs)) >= 6:
            vv = max(vecs, key=len)
            n = len(vv)
            a = vv[0:n - 1:3]
            b = vv[1:n:3]
            m_ = min(len(a), len(b))
            e = a[0:m_].dot(b[0:m_]) + coef() * vs[0]
        elif form == "lin":
            e = sum((coef() * v for v in vs[1:]), coef() * vs[0])
        elif form == "pow":
            e = sum((coef() * v ** rng.choice([1, 2, 3]) for v in vs[1:]), coef() * vs[0] ** 2)
        elif form == "prod":
            e = coef() * vs[0]
            for v in vs[1:]:
                e = e * v if rng.random() < 0.5 else e + coef() * v * vs[0]
        elif form == "trig":
            e = sum((coef() * sin(v) if rng.random() < 0.5 else coef() * cos(coef() * v) for v in vs[1:]), coef() * sin(vs[0]))
        else:
            e = coef() * vs[0] ** 2 + sum((coef() * v for v in vs[1:]), 0.0 * vs[0])
        rhs = rng.choice([0.5, 1.0, -2.0, 4.0, 0])
        rel = rng.choice(["le", "ge", "eq"])
        cons.append(do_compare(rel, e, rhs))
    prob = optyx.Problem()
    (prob.maximize if rng.random() < 0.25 else prob.minimize)(obj)
    order = list(range(len(cons)))
    rng.shuffle(order)
    for i in order:
        prob.subject_to(cons[i])
    return {"problem": prob, "constraints": [cons[i] for i in order], "vars": allv, "names": sorted(v.name for v in allv),
            "decls": decls, "method": rng.choice(["SLSQP", "SLSQP", "trust-constr", "COBYLA", "auto"])}


def problem_desc(sp):
    """everything needed to rebuild the problem (replay): S-expressions of objective and constraints"""
    S = Ser(with_ids=False)
    prob = sp["problem"]
    return {"objective": S.expr(prob.objective), "maximize": prob.sense == "maximize", "method": sp["method"],
            "constraints": [[S.expr(c.expr), c.sense] for c in sp["constraints"]], "names": sp["names"]}


def rebuild_problem(desc):
    import optyx
    from optyx.constraints import Constraint
    from ser import Deser, parse_sexp

    d = Deser()
    obj = d.expr(parse_sexp(desc["objective"])[0])
    cons = [Constraint(expr=d.expr(parse_sexp(e)[0]), sense=sn) for e, sn in desc["constraints"]]
    prob = optyx.Problem()
    (prob.maximize if desc["maximize"] else prob.minimize)(obj)
    for c in cons:
        prob.subject_to(c)
    return {"problem": prob, "constraints": cons, "names": desc["names"], "method": desc["method"]}


def solver_seam_check(sp, rng, rep, n_points=2, points=None):
    """fun / jac of every dict handed to minimize vs dual-number derivatives of lhs - rhs, column i = i-th name in natural order"""
    from props import c16 as N

    prob, cons = sp["problem"], sp["constraints"]
    got = capture_solver_inputs(prob, sp["method"])
    fails, probes = [], []
    try:
        desc = problem_desc(sp)
    except Unsupported:
        rep.skipped["unsupported-problem"] = rep.skipped.get("unsupported-problem", 0) + 1
        return [], []
    if "constraints" not in got:
        return [{"what": "minimize was not reached", "problem": desc}], []
    dicts = list(got["constraints"])
    names = sorted(set(sp["names"]), key=N.natural_key)     # the declared (natural) order, computed here
    variables = prob.variables
    if [v.name for v in variables] != names:
        rep.skipped["variable-order (C16's subject)"] = rep.skipped.get("variable-order (C16's subject)", 0) + 1
        return [], []
    if len(dicts) != len(cons):
        return [{"what": "number of SciPy dicts differs from the number of constraints", "problem": desc}], []
    rep.histogram["solver-problems"] = rep.histogram.get("solver-problems", 0) + 1
    pts = points if points is not None else [{nm: rng.randint(-16, 16) / 8 for nm in names} for _ in range(n_points)]
    for pt in pts:
        xvec = np.array([pt[nm] for nm in names], dtype=float)
        for i, (c, d) in enumerate(zip(cons, dicts)):
            with warnings.catch_warnings(), np.errstate(all="ignore"):
                warnings.simplefilter("ignore")
                try:
                    f = float(d["fun"](xvec))
                    j = np.asarray(d["jac"](xvec), dtype=float).reshape(-1)
                except Exception as ex:  # noqa: BLE001
                    fails.append({"what": "a SciPy constraint callable raised", "error": f"{type(ex).__name__}: {ex}"[:160],
                                  "index": i, "problem": desc, "point": pt})
                    continue
            try:
                val = oracle.ref_eval(c.expr, pt)
                grad = [oracle.ref_grad(c.expr, pt, nm) for nm in names]
            except (oracle.NotRegular, ZeroDivisionError, OverflowError, ValueError):
                rep.skipped["irregular-point"] = rep.skipped.get("irregular-point", 0) + 1
                continue
            sign = -1.0 if c.sense == "<=" else 1.0
            own = {v.name for v in World.vars_of(c.expr)}
            key = "subset" if len(own) < len(names) else "dense"
            rep.histogram["seam:" + key] = rep.histogram.get("seam:" + key, 0) + 1
            want_type = "eq" if c.sense == "==" else "ineq"
            if d["type"] != want_type or not oracle.close(f, sign * val, 1e-9, 1e-10):
                fails.append({"what": "SciPy constraint function is not ±(lhs - rhs) with the sign of the sense", "index": i,
                              "sense": c.sense, "type": d["type"], "fun": f, "want": sign * val, "problem": desc, "point": pt})
                continue
            if len(j) != len(grad) or any(not oracle.close(a, sign * b, 1e-7, 1e-8) for a, b in zip(j, grad)):
                fails.append({"what": "SciPy constraint Jacobian is not the derivative of the constraint function", "index": i,
                              "sense": c.sense, "constraint": desc["constraints"][i][0][:300], "variables": names,
                              "jac": [float(a) for a in j], "want": [sign * g for g in grad], "problem": desc, "point": pt})
                if sp.get("fd"):
                    with warnings.catch_warnings(), np.errstate(all="ignore"):
                        warnings.simplefilter("ignore")
                        fails[-1].update({"fd": True, "finite_differences_of_fun": [float(_fd4(d["fun"], xvec, k)) for k in range(len(names))]})
                continue
            if sp.get("fd"):
                # the dict judged against ITSELF: jac = 4th-order central differences of the `fun` entry of the same dict
                with warnings.catch_warnings(), np.errstate(all="ignore"):
                    warnings.simplefilter("ignore")
                    fd = [_fd4(d["fun"], xvec, k) for k in range(len(names))]
                rep.histogram["seam:fd-of-fun"] = rep.histogram.get("seam:fd-of-fun", 0) + 1
                sc = max(1.0, max(abs(b) for b in fd))
                if any(not oracle.close(a, b, 1e-4, 1e-5 * sc) for a, b in zip(j, fd)):
                    fails.append({"what": "SciPy constraint Jacobian is not the derivative of the `fun` of the same dict (finite differences of fun)",
                                  "index": i, "sense": c.sense, "constraint": desc["constraints"][i][0][:300], "variables": names,
                                  "jac": [float(a) for a in j], "finite_differences_of_fun": [float(b) for b in fd], "fd": True,
                                  "problem": desc, "point": pt})
                    continue
            probes.append((c, variables, dict(pt), f, j))
    return fails[:3], probes


# ------------------------------------------------------------------ reduction nodes on the RIGHT of a subtraction
#
# `K - f <= r`, `K - f >= r`, `(K - f).eq(r)`, `r >= K - f`, `r <= K - f`: f a vectorised reduction node of every kind, K a
# Python / NumPy number or a Constant, the difference optionally wrapped in further ± constants / scalings / a second
# reflection.  d(K - f) = -df: whatever looks "through" the constants to reach the reduction must keep the sign.

REFL_UNARY = ["sin", "cos", "exp", "tanh", "sinh", "cosh", "abs_", "log", "sqrt"]
REFL_POS = {"log", "sqrt", "pow1.5", "pow-1", "l2"}
REFL_REDS = ["pow2", "pow3", "pow4", "pow1.5", "pow-1"] + REFL_UNARY + ["sum", "lin", "rlin", "dot", "self", "l2", "l1", "qf", "esum", "terms",
                                                                          "msum", "mesum", "mfro"]
REFL_FORMS = ["le", "ge", "eq", "rle", "rge"]
REFL_WRAPS = ["id", "id", "+c", "c+", "-c", "c-", "s*", "*s", "neg", "half", "k-sf", "k-(f+c)", "k-(c+f)", "(c+k)-f", "c-(c-)", "+var", "inner-neg"]


def _refl_number(rng, v):
    from optyx.core.expressions import Constant
    t = rng.choice(["int", "float", "float", "np.float64", "np.int64", "np.float32", "Constant"])
    if t in ("int", "np.int64"):
        v = float(int(v)) if int(v) != 0 else 3.0
    return {"int": lambda: int(v), "float": lambda: float(v), "np.float64": lambda: np.float64(v), "np.int64": lambda: np.int64(int(v)),
            "np.float32": lambda: np.float32(v), "Constant": lambda: Constant(float(v))}[t]()


def _refl_reduction(rng, kind, vecs, mats):
    """one reduction node of the given kind over a (view of a) vector / matrix of the problem"""
    import optyx
    from optyx.core import functions as F
    vv = rng.choice(vecs)
    n = len(vv)
    view = vv if (n <= 3 or rng.random() < 0.5) else rng.choice([vv[1:], vv[::2], vv[0:n - 1], vv[::-1]])
    k = len(view)

    def coefs(m=None):
        return np.array([rng.choice([1.0, 2.0, 3.0, -2.0, 0.5, -1.0, 4.0]) for _ in range(m or k)])
    if kind.startswith("pow"):
        return (view ** float(kind[3:])).sum() if kind in ("pow1.5", "pow-1") else (view ** int(kind[3:])).sum()
    if kind in REFL_UNARY:
        return getattr(F, kind)(view).sum()
    if kind == "sum":
        return view.sum()
    if kind == "lin":
        return coefs() @ view
    if kind == "rlin":
        return view @ coefs() if hasattr(view, "__matmul__") else view.dot(coefs())
    if kind == "dot":
        w = rng.choice(vecs)
        m_ = min(len(w), k)
        return view[0:m_].dot(w[0:m_])
    if kind == "self":
        return view.dot(view)
    if kind == "l2":
        return view.norm()
    if kind == "l1":
        return view.norm(1)
    if kind == "qf":
        return optyx.core.matrices.QuadraticForm(view, np.array([coefs() for _ in range(k)]))
    if kind == "esum":
        return (2 * view - 1).sum()
    if kind == "terms":
        return (view * view * coefs()[0]).sum() if rng.random() < 0.5 else (view * coefs()).sum()
    m = rng.choice(mats)
    mview = rng.choice([m, m.T, m[0:1, :]])
    if kind == "msum":
        return mview.sum()
    if kind == "mesum":
        return (mview * mview).sum() if rng.random() < 0.5 else (2 * mview + 1).sum()
    return m.norm() if hasattr(m, "norm") else (m * m).sum()


def gen_reflected_problem(rng, kinds=None):
    """a small NLP whose constraints all put a reduction node on the RIGHT of a subtraction (every sense, both comparison
    directions, numeric kinds of K, wrappers); sp["positive"]: the probe points must be positive (log / sqrt / fractional powers)"""
    import optyx

    vecs = [optyx.VectorVariable(nm, rng.choice([2, 3, 4, 5, 11])) for nm in rng.sample(["x", "w", "q2"], rng.randint(1, 2))]
    mats = [optyx.MatrixVariable("M", rng.choice([1, 2]), rng.choice([2, 3]))]
    y = optyx.Variable("y")
    kinds = list(kinds or rng.sample(REFL_REDS, rng.randint(3, 5)))
    cons, shapes = [], []
    positive = False
    for kind in kinds:
        f = _refl_reduction(rng, kind, vecs, mats)
        positive = positive or kind in REFL_POS
        K = _refl_number(rng, rng.choice([6.0, 2.0, 25.0, -3.0, 0.5, 1.0, 4.0, 0.0]))
        c_ = _refl_number(rng, rng.choice([1.0, -2.0, 3.0, 0.5, 5.0]))
        s_ = rng.choice([2.0, -1.0, 0.5, -3.0, 4, 7.0])
        wrap = rng.choice(REFL_WRAPS)
        e = {"id": lambda: K - f, "+c": lambda: (K - f) + c_, "c+": lambda: c_ + (K - f), "-c": lambda: (K - f) - c_,
             "c-": lambda: c_ - (K - f), "s*": lambda: s_ * (K - f), "*s": lambda: (K - f) * s_, "neg": lambda: -(K - f),
             "half": lambda: (K - f) / 2, "k-sf": lambda: K - s_ * f, "k-(f+c)": lambda: K - (f + c_), "k-(c+f)": lambda: K - (c_ + f),
             "(c+k)-f": lambda: (c_ + 1.0) - f - 2, "c-(c-)": lambda: c_ - (1.5 - (K - f)), "+var": lambda: (K - f) + s_ * y,
             "inner-neg": lambda: K - (-f)}[wrap]()
        r = _refl_number(rng, rng.choice([0.0, 1.0, -1.0, 3.0, 3.5, -2.0]))
        form = rng.choice(REFL_FORMS)
        if form in ("rle", "rge") and not isinstance(r, (int, float)):
            r = float(getattr(r, "value", r))           # a plain number on the left: the reflected comparison of the expression decides
        c = {"le": lambda: e <= r, "ge": lambda: e >= r, "eq": lambda: e.eq(r), "rle": lambda: r <= e, "rge": lambda: r >= e}[form]()
        cons.append(c)
        shapes.append(f"{kind}/{wrap}/{form}")
    allv = [v for vv in vecs for v in vv] + [v for m in mats for row in m._variables for v in row] + [y]
    obj = y * y
    for vv in vecs:
        obj = obj + vv.dot(vv)
    for m in mats:
        obj = obj + (m * m).sum()
    prob = optyx.Problem()
    (prob.maximize if rng.random() < 0.2 else prob.minimize)(obj)
    for c in cons:
        prob.subject_to(c)
    return {"problem": prob, "constraints": cons, "vars": allv, "names": sorted(v.name for v in allv), "fd": True, "positive": positive,
            "shapes": shapes, "method": rng.choice(["SLSQP", "SLSQP", "trust-constr"])}


def reflected_points(sp, rng, n_points):
    """well-conditioned probe points: |value| in [1/2, 5/4] (dyadic), positive when a log / sqrt / fractional power is present"""
    return [{nm: (rng.randint(4, 10) / 8) * (1.0 if sp.get("positive") or rng.random() < 0.5 else -1.0) for nm in sp["names"]}
            for _ in range(n_points)]


def reflected_reduction_family(rng, rep, n_problems, n_points=2):
    """every reduction kind at least once per run on the right of a subtraction; fun = ±(lhs - rhs), jac = dual-number derivative of
    lhs - rhs AND finite differences of the dict's own fun, for all three senses"""
    from optyx.constraints import Constraint
    fails = []
    order = list(REFL_REDS)
    rng.shuffle(order)
    for i in range(n_problems):
        kinds = order[3 * i:3 * i + 3] if 3 * i < len(order) else None
        try:
            sp = gen_reflected_problem(rng, kinds=kinds)
        except (TypeError, ValueError, AttributeError) as ex:
            rep.skipped["reflected:not-constructible:" + type(ex).__name__] = rep.skipped.get("reflected:not-constructible:" + type(ex).__name__, 0) + 1
            continue
        if not all(isinstance(c, Constraint) for c in sp["constraints"]):
            rep.skipped["reflected:no-constraint"] = rep.skipped.get("reflected:no-constraint", 0) + 1
            continue
        fs, _p = solver_seam_check(sp, rng, rep, points=reflected_points(sp, rng, n_points))
        for sh in sp["shapes"]:
            rep.histogram["reflected:" + sh.split("/")[2]] = rep.histogram.get("reflected:" + sh.split("/")[2], 0) + 1
            rep.nontrivial.add(("reflected",) + tuple(sh.split("/")))
        for f in fs:
            f["family"] = "reduction on the right of a subtraction"
            f["refl_shape"] = sp["shapes"][f["index"]] if "index" in f else None
        fails.extend(fs[:1])
        if len(fails) >= 3:
            break
    return fails


def gen_swap_history(rng):
    """constraints over a set C of variables; a sequence of objectives, each over C plus ONE further variable that sorts at a
    different place (before / inside / after C in natural order): the variable count stays the same, the column layout shifts"""
    import optyx
    from props import c16 as N

    for _ in range(50):
        fam = N.name_family(rng)
        if len(fam) >= 5:
            break
    names = rng.sample(fam, min(len(fam), rng.randint(5, 7)))
    names = sorted(set(names), key=N.natural_key)
    k = rng.randint(2, len(names) - 2)
    cset = rng.sample(names, k)
    extras = [n for n in names if n not in cset]
    rng.shuffle(extras)
    var = {n: optyx.Variable(n, lb=-10.0, ub=10.0) for n in names}

    def coef():
        return rng.choice([1.0, 2.0, 3.0, 5.0, -2.0, 0.5, -1.0, 4.0])

    cons = []
    for _ in range(rng.randint(1, 3)):
        vs = rng.sample(cset, rng.randint(1, len(cset)))
        form = rng.choice(["lin", "lin", "quad", "prod"])
        if form == "lin":
            e = sum((coef() * var[n] for n in vs[1:]), coef() * var[vs[0]])
        elif form == "quad":
            e = sum((abs(coef()) * var[n] ** 2 for n in vs[1:]), abs(coef()) * var[vs[0]] ** 2) - 50.0
        else:
            e = coef() * var[vs[0]] * var[vs[-1]] + coef() * var[vs[0]]
        rel = "le" if form == "quad" else rng.choice(["le", "ge"])
        cons.append(do_compare(rel, e, rng.choice([1.0, 4.0, -2.0]) if form != "quad" else 0.0))
    objs = []
    for x in extras[:rng.randint(2, 3)]:
        targets = {n: rng.choice([0.5, -1.0, 2.0, 3.0]) for n in cset + [x]}
        e = None
        for n, t in targets.items():
            term = (var[n] - t) ** 2 * abs(coef())
            e = term if e is None else e + term
        objs.append((e, rng.random() < 0.25, sorted(cset + [x], key=N.natural_key)))
    return {"var": var, "constraints": cons, "objectives": objs, "method": rng.choice(["SLSQP", "SLSQP", "trust-constr"])}


def objective_swap_history(rng, rep, hist=None):
    """after every objective replacement the dicts handed to minimize must be those of the CURRENT variable layout
    (fun / jac vs dual numbers in natural order), and a reported OPTIMAL must satisfy the constraints"""
    import optyx

    h = hist or gen_swap_history(rng)
    S = Ser(with_ids=False)
    desc = {"objectives": [[S.expr(e if not mx else e), mx, names] for e, mx, names in h["objectives"]],
            "constraints": [[S.expr(c.expr), c.sense] for c in h["constraints"]], "method": h["method"]}
    prob = optyx.Problem()
    fails = []
    for stage, (e, mx, names) in enumerate(h["objectives"]):
        (prob.maximize if mx else prob.minimize)(-e if mx else e)
        if stage == 0:
            for c in h["constraints"]:
                prob.subject_to(c)
        sp = {"problem": prob, "constraints": h["constraints"], "names": names, "method": h["method"]}
        f1, _p = solver_seam_check(sp, rng, rep, n_points=2)
        rep.histogram["swap-history-stages"] = rep.histogram.get("swap-history-stages", 0) + 1
        for f in f1:
            f.update({"stage": stage, "swap_history": desc})
            f.pop("problem", None)
            fails.append(f)
        if fails:
            break
        # a real solve of the same object: OPTIMAL must be feasible and agree with a fresh problem on the same model
        try:
            with warnings.catch_warnings(), np.errstate(all="ignore"):
                warnings.simplefilter("ignore")
                sol = prob.solve(method="SLSQP")
                fresh = optyx.Problem()
                (fresh.maximize if mx else fresh.minimize)(-e if mx else e)
                for c in h["constraints"]:
                    fresh.subject_to(c)
                sol2 = fresh.solve(method="SLSQP")
        except Exception as ex:  # noqa: BLE001
            fails.append({"what": "solve raised in an objective-replacement history", "error": f"{type(ex).__name__}: {ex}"[:160],
                          "stage": stage, "swap_history": desc})
            break
        if sol.status.name == "OPTIMAL":
            worst = max((c.violation(sol.values) for c in h["constraints"]), default=0.0)
            if worst > 1e-5:
                fails.append({"what": "OPTIMAL reported for a point that violates a constraint", "violation": worst, "stage": stage,
                              "values": dict(sol.values), "swap_history": desc})
                break
        if sol.status.name != sol2.status.name or (sol.status.name == "OPTIMAL" and
                                                   not oracle.close(sol.objective_value, sol2.objective_value, 1e-4, 1e-5)):
            fails.append({"what": "a solve after replacing the objective differs from a fresh problem on the same model", "stage": stage,
                          "status": [sol.status.name, sol2.status.name], "objective": [sol.objective_value, sol2.objective_value],
                          "swap_history": desc})
            break
    return fails[:2]


def rebuild_swap_history(desc):
    import optyx
    from optyx.constraints import Constraint
    from ser import Deser, parse_sexp

    d = Deser()
    cons = [Constraint(expr=d.expr(parse_sexp(e)[0]), sense=sn) for e, sn in desc["constraints"]]
    objs = [(d.expr(parse_sexp(e)[0]), mx, names) for e, mx, names in desc["objectives"]]
    return {"constraints": cons, "objectives": objs, "method": desc["method"]}


# ------------------------------------------------------------------ Parameters inside constraints × Parameter.set histories
#
# A constraint may contain Parameters (updatable constants).  The SciPy dicts are built ONCE (first solve /
# _build_solver_cache) and reused after Parameter.set(): whatever was derived from the tree at build time (Jacobian rows,
# folded coefficients, compiled closures) must still follow the CURRENT parameter values.  A model of this family is a
# JSON recipe (replayable), interpreted twice: once through the real optyx API and once by the small reference
# interpreter below (plain floats / dual numbers, never an optyx tree).

PAR_VALUES = [0.0, 1.0, -1.0, -2.0, 2.5, 0.5, -0.25, 3.0, 100.0, -7.0, 1e-3, 2.0]
PH_NAMES = [("x", "y", "s", "A"), ("q", "b", "z", "M"), ("v2", "v10", "v", "V")]
PH_RED_KINDS = ["sum", "lin", "rlin", "dot", "self", "qf", "pow2", "esum", "terms", "msum", "mfro", "var", "sx"]
PH_LINEAR_REDS = ["sum", "lin", "rlin", "esum", "terms", "msum", "var"]


def _ph_reduction(rng, n, kinds=None):
    """a scalar term over the variables: vector / matrix reduction nodes (over the whole vector or a view) and two
    non-reduction controls"""
    def cf():
        return rng.choice([1.0, 2.0, 3.0, -2.0, 0.5, -1.0, 4.0, -3.0, 0.25])

    kind = rng.choice(kinds or PH_RED_KINDS)
    view = [None, None, None]
    if n >= 3 and rng.random() < 0.35:
        view = rng.choice([[None, None, -1], [None, None, 2], [1, None, None], [0, n - 1, None], [1, None, 2]])
    m = len(range(n)[slice(*view)])
    data = None
    if kind in ("lin", "rlin", "terms"):
        data = [cf() for _ in range(m)]
    elif kind == "qf":
        data = [[cf() if (i == j or rng.random() < 0.5) else 0.0 for j in range(m)] for i in range(m)]
    elif kind == "esum":
        data = [cf(), cf()]
    return ["red", kind, view, data]


def gen_param_term(rng, n, npar):
    """operator forms around (Parameter, reduction): the Parameter on either side of * + - /, under ±const, unary minus,
    k·, /k, products and sums of parameters as coefficient, two parameterised reductions in one body"""
    def R(kinds=None):
        return _ph_reduction(rng, n, kinds)

    def P():
        return ["par", rng.randrange(npar)]

    def K():
        return ["const", rng.choice([1.0, 2.0, -3.0, 0.5, 6.0, -1.0, 4.0])]

    def B(op, a, b):
        return ["bin", op, a, b]

    forms = [
        lambda: B("*", P(), R()), lambda: B("*", R(), P()), lambda: B("*", P(), R()), lambda: B("*", R(), P()),
        lambda: B("+", R(), P()), lambda: B("+", P(), R()), lambda: B("-", R(), P()), lambda: B("-", P(), R()),
        lambda: ["neg", B("*", P(), R())], lambda: B("-", K(), B("*", P(), R())), lambda: B("+", B("*", P(), R()), K()),
        lambda: B("-", B("*", R(), P()), K()), lambda: B("*", K(), B("*", P(), R())), lambda: B("*", B("*", R(), P()), K()),
        lambda: B("*", P(), B("+", R(), K())), lambda: B("*", B("-", R(), K()), P()), lambda: B("/", B("*", P(), R()), K()),
        lambda: B("/", R(), P()), lambda: B("+", B("*", P(), R()), B("*", P(), R())), lambda: B("-", B("*", R(), P()), B("*", P(), R())),
        lambda: B("*", P(), B("*", P(), R())), lambda: B("*", B("*", P(), P()), R()), lambda: B("*", B("+", P(), K()), R()),
        lambda: B("-", B("*", P(), R()), P()), lambda: B("*", ["neg", P()], R()), lambda: B("*", P(), B("*", K(), R())),
        lambda: B("*", P(), ["neg", R()]), lambda: B("*", B("*", P(), R()), R(PH_LINEAR_REDS)), lambda: B("+", B("+", P(), R()), K()),
        lambda: B("*", B("-", K(), P()), R()), lambda: R(),
    ]
    return rng.choice(forms)()


def gen_param_recipe(rng):
    """a whole model: variables, 1-3 scalar Parameters (free-standing or the elements of a VectorParameter), 1-3 constraints
    whose bodies contain them, how the SciPy dicts are obtained, and a history of Parameter.set calls (to 0, 1, sign flips,
    the same value again, other numeric types) after which the dicts are probed again"""
    n = rng.choice([1, 2, 3, 3, 4, 5, 12])
    npar = rng.randint(1, 3)
    init = [rng.choice([1.0, 2.0, -1.5, 0.5, 3.0]) for _ in range(npar)]
    cons = []
    for _ in range(rng.randint(1, 3)):
        lhs = gen_param_term(rng, n, npar)
        u = rng.random()
        rhs = ["const", rng.choice([6.0, 0.0, 1.0, -2.0, 0.5])] if u < 0.5 else ["par", rng.randrange(npar)] if u < 0.8 \
            else gen_param_term(rng, n, npar)
        if rng.random() < 0.3:
            lhs, rhs = rhs, lhs
        rel = rng.choice(["le", "ge", "eq"])
        if rel == "eq" and lhs[0] == "const":
            lhs, rhs = rhs, lhs
        cons.append([rel, lhs, rhs])
    if not any("'par'" in repr(c) for c in cons):
        cons[0][1] = ["bin", "*", ["par", 0], cons[0][1]] if cons[0][1][0] != "const" else ["par", 0]
    sets = []
    for _ in range(rng.randint(2, 4)):
        if rng.random() < 0.15 and sets:
            who, val = sets[-1]["who"], sets[-1]["value"]           # the same value again
        else:
            who, val = rng.randrange(npar), rng.choice(PAR_VALUES)
        typ = rng.choice(["float", "float", "int", "np.float64", "np.float32", "np.int64", "a0"])
        if typ in ("int", "np.int64") and val != int(val):
            typ = "float"
        sets.append({"who": who, "value": val, "type": typ, "resolve": rng.random() < 0.6})
    return {"n": n, "names": list(rng.choice(PH_NAMES)), "init": init, "vector_parameter": rng.random() < 0.3,
            "constraints": cons, "sets": sets, "mode": rng.choice(["build", "solve", "solve", "seam"]),
            "method": rng.choice(["SLSQP", "SLSQP", "trust-constr", "auto"]), "maximize": rng.random() < 0.2}


def _ph_number(value, typ):
    return {"float": float, "int": int, "np.float64": np.float64, "np.float32": np.float32, "np.int64": np.int64,
            "a0": np.array}[typ](value)


class ParamModel:
    """the recipe through the real API"""

    def __init__(self, recipe, init=None):
        import optyx

        n = recipe["n"]
        nx, ny, ns, nA = recipe["names"]
        init = list(recipe["init"] if init is None else init)
        self.x, self.y = optyx.VectorVariable(nx, n, lb=-10.0, ub=10.0), optyx.VectorVariable(ny, n, lb=-10.0, ub=10.0)
        self.s = optyx.Variable(ns, lb=-10.0, ub=10.0)
        self.A = optyx.MatrixVariable(nA, 2, 2, lb=-10.0, ub=10.0)
        self.vp = None
        if recipe["vector_parameter"]:
            self.vp = optyx.VectorParameter("c", len(init), values=list(init))
            self.pars = [self.vp[i] for i in range(len(init))]
        else:
            self.pars = [optyx.Parameter(f"p{i}", v) for i, v in enumerate(init)]
        self.constraints = []
        for rel, lhs, rhs in recipe["constraints"]:
            self.constraints.append(do_compare(rel, self.term(lhs), self.term(rhs)))
        obj = self.x.dot(self.x) + self.y.dot(self.y) + self.s * self.s + (self.A * self.A).sum()
        self.problem = optyx.Problem()
        (self.problem.maximize if recipe["maximize"] else self.problem.minimize)(-obj if recipe["maximize"] else obj)
        for c in self.constraints:
            self.problem.subject_to(c)

    def term(self, t):
        import optyx

        k = t[0]
        if k == "const":
            return float(t[1])
        if k == "par":
            return self.pars[t[1]]
        if k == "neg":
            return -self.term(t[1])
        if k == "bin":
            a, b = self.term(t[2]), self.term(t[3])
            return {"+": lambda: a + b, "-": lambda: a - b, "*": lambda: a * b, "/": lambda: a / b}[t[1]]()
        _, kind, view, data = t
        whole = view == [None, None, None]
        xv = self.x if whole else self.x[slice(*view)]
        yv = self.y if whole else self.y[slice(*view)]
        if kind == "sum":
            return xv.sum()
        if kind == "lin":
            return np.array(data) @ xv
        if kind == "rlin":
            return xv @ np.array(data)
        if kind == "dot":
            return xv.dot(yv)
        if kind == "self":
            return xv.dot(xv)
        if kind == "qf":
            return optyx.quadratic_form(xv, np.array(data))
        if kind == "pow2":
            return (xv ** 2).sum()
        if kind == "esum":
            return (data[0] * xv + data[1]).sum()
        if kind == "terms":
            els = list(xv)
            e = data[0] * els[0]
            for cf, el in zip(data[1:], els[1:]):
                e = e + cf * el
            return e
        if kind == "msum":
            return self.A.sum()
        if kind == "mfro":
            return (self.A * self.A).sum()
        if kind == "var":
            return self.s
        if kind == "sx":
            return self.s * self.x[0]
        raise ValueError(kind)

    def env(self, pt):
        return {"x": [pt[v.name] for v in self.x], "y": [pt[v.name] for v in self.y], "s": pt[self.s.name],
                "A": [[pt[v.name] for v in row] for row in self.A._variables]}


def ph_ref(t, env, pars):
    """reference value of a recipe term: plain Python arithmetic on floats / dual numbers, current parameter values `pars`"""
    k = t[0]
    if k == "const":
        return float(t[1])
    if k == "par":
        return float(pars[t[1]])
    if k == "neg":
        return -ph_ref(t[1], env, pars)
    if k == "bin":
        a, b = ph_ref(t[2], env, pars), ph_ref(t[3], env, pars)
        if t[1] == "+":
            return a + b
        if t[1] == "-":
            return a - b
        if t[1] == "*":
            return a * b
        if abs(oracle.prim(b)) < 1e-2:
            raise oracle.NotRegular("division by a parameter near 0")
        return a / b
    _, kind, view, data = t
    xs, ys = env["x"][slice(*view)], env["y"][slice(*view)]
    if kind == "sum":
        return sum(xs, 0.0)
    if kind in ("lin", "rlin", "terms"):
        return sum((c * a for c, a in zip(data, xs)), 0.0)
    if kind == "dot":
        return sum((a * b for a, b in zip(xs, ys)), 0.0)
    if kind in ("self", "pow2"):
        return sum((a * a for a in xs), 0.0)
    if kind == "qf":
        return sum((data[i][j] * xs[i] * xs[j] for i in range(len(xs)) for j in range(len(xs))), 0.0)
    if kind == "esum":
        return sum((data[0] * a + data[1] for a in xs), 0.0)
    if kind == "msum":
        return sum((a for row in env["A"] for a in row), 0.0)
    if kind == "mfro":
        return sum((a * a for row in env["A"] for a in row), 0.0)
    if kind == "var":
        return env["s"]
    if kind == "sx":
        return env["s"] * env["x"][0]
    raise ValueError(kind)


def _fd4(fun, xvec, i, h=1.0 / 64):
    """4th-order central difference of the dict's own `fun` (exact for polynomials of degree <= 4, dyadic step)"""
    def at(k):
        z = xvec.copy()
        z[i] += k * h
        return float(fun(z))
    return (-at(2) + 8.0 * at(1) - 8.0 * at(-1) + at(-2)) / (12.0 * h)


def _ph_probe(M, recipe, dicts, pars_now, pts, rep):
    """fun must be the written relation's slack at the CURRENT parameter values, jac the derivative of fun (finite
    differences of fun itself and dual numbers of the reference), violation() the amount by which the relation fails"""
    variables = M.problem.variables
    names = [v.name for v in variables]
    if len(dicts) != len(M.constraints):
        return {"what": "number of SciPy dicts differs from the number of constraints", "dicts": len(dicts)}
    for pt in pts:
        xvec = np.array([pt[nm] for nm in names], dtype=float)
        env = M.env(pt)
        for i, ((rel, lhs, rhs), c, d) in enumerate(zip(recipe["constraints"], M.constraints, dicts)):
            try:
                l, r = ph_ref(lhs, env, pars_now), ph_ref(rhs, env, pars_now)
                grad = []
                for nm in names:
                    denv = M.env({k: (oracle.Dual(v, 1.0) if k == nm else v) for k, v in pt.items()})
                    dl, dr = ph_ref(lhs, denv, pars_now), ph_ref(rhs, denv, pars_now)
                    grad.append((dl.d if isinstance(dl, oracle.Dual) else 0.0) - (dr.d if isinstance(dr, oracle.Dual) else 0.0))
            except (oracle.NotRegular, ZeroDivisionError, OverflowError):
                rep.skipped["irregular-point"] = rep.skipped.get("irregular-point", 0) + 1
                continue
            rep.histogram["param-dict-probes"] = rep.histogram.get("param-dict-probes", 0) + 1
            info = {"index": i, "rel": rel, "constraint": repr(c)[:300], "point": {k: v for k, v in pt.items() if v != 0.0},
                    "variables": names, "lhs": l, "rhs": r}
            with warnings.catch_warnings(), np.errstate(all="ignore"):
                warnings.simplefilter("ignore")
                try:
                    f = float(d["fun"](xvec))
                    j = np.asarray(d["jac"](xvec), dtype=float).reshape(-1)
                    fd = [_fd4(d["fun"], xvec, k) for k in range(len(names))]
                    got_v, got_s = c.violation(pt), c.is_satisfied(pt)
                except Exception as ex:  # noqa: BLE001
                    return dict(info, what="a constraint callable raised at a finite point", error=f"{type(ex).__name__}: {ex}"[:160])
            scale = max(1.0, abs(l), abs(r))
            want_f = {"le": r - l, "ge": l - r, "eq": l - r}[rel]
            want_type = "eq" if rel == "eq" else "ineq"
            f_ok = oracle.close(abs(f), abs(want_f), 1e-9, 1e-9 * scale) if rel == "eq" else oracle.close(f, want_f, 1e-9, 1e-9 * scale)
            if d["type"] != want_type or not f_ok:
                return dict(info, what="SciPy constraint function is not the slack of the written relation at the current parameter values",
                            type=d["type"], fun=f, want=want_f)
            tol = 1e-7 * scale
            if len(j) != len(names) or any(not oracle.close(a, b, 1e-6, tol) for a, b in zip(j, fd)):
                return dict(info, what="SciPy constraint Jacobian is not the derivative of the SciPy constraint function (finite differences of fun)",
                            jac=[float(a) for a in j], finite_differences_of_fun=[float(b) for b in fd], fun=f)
            sgn = {"le": -1.0, "ge": 1.0}.get(rel) or (1.0 if f * want_f >= 0 else -1.0)
            if abs(want_f) > 1e-6 * scale or rel != "eq":
                if any(not oracle.close(a, sgn * g, 1e-7, tol) for a, g in zip(j, grad)):
                    return dict(info, what="SciPy constraint Jacobian is not the derivative of ±(lhs - rhs) at the current parameter values",
                                jac=[float(a) for a in j], want=[sgn * g for g in grad], fun=f)
            want_v = expected_violation(rel, l, r)
            if not oracle.close(got_v, want_v, 1e-9, 1e-9 * scale):
                return dict(info, what="violation() is not the amount by which the written relation fails at the current parameter values",
                            violation=got_v, want_violation=want_v)
            if abs(want_v - 1e-8) > 1e-9 * scale and bool(got_s) != (want_v <= 1e-8):
                return dict(info, what="is_satisfied() differs from the written relation at the current parameter values",
                            satisfied=bool(got_s), want_violation=want_v)
    return None


def short_solve(prob, method, maxiter=3):
    """a real Problem.solve whose SciPy iterations are capped at the minimize seam (also those of the automatic retry): the
    whole glue runs - cache lookup / build, x0, bounds, post-processing - but an infeasible random model costs milliseconds"""
    import optyx.solvers.scipy_solver as SS

    old = SS.minimize

    def capped(*a, **kw):
        kw["options"] = dict(kw.get("options") or {}, maxiter=maxiter)
        return old(*a, **kw)

    SS.minimize = capped
    try:
        return prob.solve(method=method)
    finally:
        SS.minimize = old


def param_history_check(recipe, rng, rep, fixed_point=None):
    """build the model, obtain the SciPy dicts the way the recipe says (direct _build_solver_cache, after a real solve, at the
    minimize seam), then Parameter.set ... and probe the SAME problem's dicts again; at the end a fresh model built with the
    final values as initial values must hand over the same functions"""
    from optyx.solvers.scipy_solver import _build_solver_cache

    M = ParamModel(recipe)
    prob = M.problem
    names = [v.name for v in prob.variables]
    pars_now = [float(v) for v in recipe["init"]]
    mode = recipe["mode"]

    def points():
        pts = [{nm: rng.randint(-16, 16) / 8 for nm in names} for _ in range(2)]
        if fixed_point is not None:
            pts.insert(0, {nm: float(fixed_point.get(nm, 0.0)) for nm in names})
        return pts

    def obtain(first, resolve=True):
        with warnings.catch_warnings(), np.errstate(all="ignore"):
            warnings.simplefilter("ignore")
            if mode == "build":
                return _build_solver_cache(prob, prob.variables)["scipy_constraints"] if first else None
            if mode == "solve":
                if first or resolve:
                    short_solve(prob, "SLSQP")
                return list(prob._solver_cache["scipy_constraints"])
            got = capture_solver_inputs(prob, recipe["method"])
            return list(got.get("constraints", []))

    def fail(f, stage, done):
        f.update({"family": "parameter-history", "stage": stage, "sets_done": done, "parameters_now": list(pars_now), "recipe": recipe})
        return [f]

    try:
        dicts = obtain(True)
    except Exception as ex:  # noqa: BLE001
        return fail({"what": "building / solving a model with Parameters in its constraints raised", "error": f"{type(ex).__name__}: {ex}"[:160]}, 0, [])
    rep.histogram["param-history:" + mode] = rep.histogram.get("param-history:" + mode, 0) + 1
    f = _ph_probe(M, recipe, dicts, pars_now, points(), rep)
    if f:
        return fail(f, 0, [])
    done = []
    for k, st in enumerate(recipe["sets"]):
        val = _ph_number(st["value"], st["type"])
        try:
            if M.vp is not None:
                new = list(pars_now)
                new[st["who"]] = float(val)
                M.vp.set(new if k % 2 else np.array(new))
            else:
                M.pars[st["who"]].set(val)
            pars_now[st["who"]] = float(val)
            done.append([st["who"], st["value"], st["type"]])
            new_dicts = obtain(False, st.get("resolve", True))
        except Exception as ex:  # noqa: BLE001
            return fail({"what": "Parameter.set / re-solve raised", "error": f"{type(ex).__name__}: {ex}"[:160]}, k + 1, done)
        if new_dicts is not None:
            dicts = new_dicts
        rep.histogram["param-history-sets"] = rep.histogram.get("param-history-sets", 0) + 1
        f = _ph_probe(M, recipe, dicts, pars_now, points(), rep)
        if f:
            return fail(f, k + 1, done)
    # a fresh model that starts from the final values is the reference for the reused one
    try:
        F = ParamModel(recipe, init=pars_now)
        with warnings.catch_warnings(), np.errstate(all="ignore"):
            warnings.simplefilter("ignore")
            fdicts = _build_solver_cache(F.problem, F.problem.variables)["scipy_constraints"]
            for pt in points():
                xvec = np.array([pt[nm] for nm in names], dtype=float)
                for i, (d_old, d_new) in enumerate(zip(dicts, fdicts)):
                    f_old, f_new = float(d_old["fun"](xvec)), float(d_new["fun"](xvec))
                    j_old = np.asarray(d_old["jac"](xvec), dtype=float).reshape(-1)
                    j_new = np.asarray(d_new["jac"](xvec), dtype=float).reshape(-1)
                    scale = max(1.0, abs(f_new))
                    if not np.all(np.isfinite(j_new)) or not math.isfinite(f_new):
                        continue
                    if not oracle.close(f_old, f_new, 1e-9, 1e-9 * scale) or len(j_old) != len(j_new) or any(
                            not oracle.close(a, b, 1e-7, 1e-7 * scale) for a, b in zip(j_old, j_new)):
                        return fail({"what": "after Parameter.set the reused problem hands SciPy other functions than a fresh model built with the same values",
                                     "index": i, "constraint": repr(M.constraints[i])[:300], "point": {k_: v for k_, v in pt.items() if v != 0.0},
                                     "variables": names, "fun": [f_old, f_new], "jac": [j_old.tolist(), j_new.tolist()]}, len(done), done)
    except Exception as ex:  # noqa: BLE001
        return fail({"what": "a fresh model with the final parameter values raised", "error": f"{type(ex).__name__}: {ex}"[:160]}, len(done), done)
    return []


def run(ctx) -> core.Report:
    rng = ctx["rng"]
    thorough = ctx["tier"] == "thorough" or ctx["escalate"]
    rep = core.Report(rule="exhaustive operand-kind table (left kind × right kind × {<=, >=, .eq} × shape relations) on the real "
                           "operators for several sizes, then violation / is_satisfied / SciPy dicts of every constraint that was "
                           "created, probed at seeded dyadic points; numeric operand kinds (Python int / float / bool, NumPy scalars and "
                           "0-d / 1-d / 2-d arrays of every integer, unsigned, float and bool dtype at 0, 1 and the extremes) in both operand "
                           "positions against their mathematical value; then whole problems (vectors of >= 11 elements, digit-bearing names, "
                           "constraints over strict subsets of the variables with unequal partials, linear and nonlinear; problems whose constraints put every "
                           "kind of vector / matrix reduction node on the RIGHT of a subtraction — K - f <= r, K - f >= r, (K - f).eq(r), r >= K - f, r <= K - f, "
                           "K a Python / NumPy number or Constant, wrapped in further ± constants, scalings, a second reflection — with jac also judged "
                           "against finite differences of the fun of the same dict) whose dicts are "
                           "captured at the scipy.optimize.minimize seam and checked against dual-number derivatives; histories in which the objective is "
                           "replaced by one over a different variable set of the same size between solves; models whose constraint bodies contain scalar Parameters "
                           "(Parameter on either side of * + - / around vector / matrix reductions, nested under ±const, k·, unary minus; elements of a "
                           "VectorParameter) × Parameter.set histories (0, 1, sign flips, other numeric types) between building the SciPy dicts "
                           "(_build_solver_cache / a solve / the minimize seam) and probing them: fun = slack of the written relation at the CURRENT "
                           "values (reference interpreter on the recipe), jac = derivative of fun (4th-order finite differences of fun itself and dual "
                           "numbers), same functions as a fresh model; non-trivial = distinct (operand pair, relation) cells that "
                           "produce at least one constraint")
    shapes = [(3, 2, 3), (1, 1, 1), (2, 3, 3)] + ([(4, 2, 2), (6, 3, 4), (5, 1, 4)] if thorough else [])
    n_points = 4 if thorough else 2
    cases = []
    for n, r, c in shapes:
        W = World(n, r, c)
        for lop, rop in itertools.product(W.ops, W.ops):
            if lop.kind not in OPTYX_KINDS and rop.kind not in OPTYX_KINDS:
                continue
            for rel in ("le", "ge", "eq"):
                if rel == "eq" and lop.kind not in OPTYX_KINDS:
                    continue
                cases.append((W, lop, rop, rel))
        if (n, r, c) == shapes[0] or thorough:
            for nop in W.num_ops:
                for part in W.partners:
                    for rel in ("le", "ge", "eq"):
                        cases.append((W, part, nop, rel))
                        if rel != "eq":
                            cases.append((W, nop, part, rel))

    ids = Ids()
    lines, metas, sem_only = [], [], []
    rep.mismatch_cases = []
    for W, lop, rop, rel in cases:
        try:
            lsx = lop.sexp_left_of_scalar(ids) if hasattr(lop, "sexp_left_of_scalar") and rop.kind == "e" else lop.sexp(ids)
            line = f"cmp {rel} {lsx} {rop.sexp(ids)}"
        except Unsupported as ex:
            rep.skipped["no-model-line:" + str(ex)] = rep.skipped.get("no-model-line:" + str(ex), 0) + 1
            sem_only.append((W, lop, rop, rel))
            continue
        lines.append(line)
        metas.append((W, lop, rop, rel))
    n_cmp = len(lines)

    # operands the syntax cannot express (Python bool): the meaning is still checked on the real constraints
    from optyx.constraints import Constraint as _C
    for W, lop, rop, rel in sem_only:
        try:
            res = do_compare(rel, lop.make(), rop.make())
        except Exception:  # noqa: BLE001
            continue
        if not (isinstance(res, _C) or (isinstance(res, list) and res and all(isinstance(c, _C) for c in res))):
            continue
        for _k in range(n_points):
            pt = {name: rng.randint(-16, 16) / 8 for name in W.names}
            r_ = semantic_check(rel, lop, rop, res, pt)
            if r_ not in (None, "skip"):
                r_.update({"cell": f"{lop.kind}:{rop.kind}", "rel": rel, "left": lop.kind, "right": rop.kind, "point": pt})
                rep.oracle_failures.append(r_)
            lr = operand_pairs(lop, rop, pt)
            fails, _p = scipy_check(rel, (res if isinstance(res, list) else [res])[:3], W.names, pt, rep, lr=lr)
            for f in fails:
                f.update({"cell": f"{lop.kind}:{rop.kind}", "rel": rel, "point": pt})
                rep.oracle_failures.append(f)

    # real operators
    results, snaps = [], []
    for W, lop, rop, rel in metas:
        a_, b_ = lop.make(), rop.make()
        snaps.append([(x, x.copy(), x.dtype, x.strides) for x in (a_, b_) if isinstance(x, np.ndarray)])
        try:
            res = do_compare(rel, a_, b_)
        except Exception as ex:  # noqa: BLE001
            res = R.PyErr(type(ex).__name__)
        results.append(res)

    # probes of the created constraints
    from optyx.constraints import Constraint

    probe_lines, probe_meta = [], []
    f21_seen = f24_seen = False
    for (W, lop, rop, rel), res, snap in zip(metas, results, snaps):
        cell = f"{lop.kind}:{rop.kind}"
        for arr, copy, dt, strides in snap:
            # the caller's arrays must come back bit-identical from a comparison
            if arr.dtype != dt or arr.strides != strides or not np.array_equal(arr, copy, equal_nan=True):
                rep.oracle_failures.append({"what": "a user-supplied array was modified by a comparison", "cell": cell, "rel": rel})
        txt = outcome_text(res)
        hk = txt.split(" ")[0] if not txt.startswith("raise:") else txt
        rep.histogram[hk] = rep.histogram.get(hk, 0) + 1
        if txt == "numpy-bool":
            # F21: an ndarray on the left of a scalar Expression; the result must at least be rejected by subject_to
            import optyx
            rejected = False
            try:
                optyx.Problem().minimize(W.x).subject_to(res)
            except Exception:  # noqa: BLE001
                rejected = True
            f = {"kind": "zero_d_array_left_of_scalar_expression", "what": f"{lop.kind} {rel} {rop.kind} returned {type(res).__name__}",
                 "cell": cell, "rejected_by_subject_to": rejected}
            if not rejected:
                f = {"what": "a comparison that produced no constraint is silently accepted by subject_to", "cell": cell}
            if not f21_seen or "kind" not in f:
                rep.oracle_failures.append(f)
            f21_seen = True
            continue
        if txt == "raise:outside-model" and isinstance(res, Constraint):
            # F24: one Constraint whose expression is an array-valued node
            if lop.kind in ("epow", "eun") or rop.kind in ("epow", "eun"):
                if not f24_seen:
                    rep.oracle_failures.append({"kind": "elementwise_node_constraint", "cell": cell,
                                                "what": f"{lop.kind} {rel} {rop.kind} returned a single Constraint over an array-valued node"})
                f24_seen = True
            else:
                rep.oracle_failures.append({"what": "a Constraint outside the expression syntax was created", "cell": cell, "rel": rel})
            continue
        if not (isinstance(res, Constraint) or (isinstance(res, list) and res and all(isinstance(c, Constraint) for c in res))):
            continue
        rep.nontrivial.add((W.n, W.r, W.c, lop.kind, lop.shape, rop.kind, rop.shape, rel, id(lop), id(rop)))
        cs = [res] if isinstance(res, Constraint) else res
        for k in range(n_points):
            pt = {name: rng.randint(-16, 16) / 8 for name in W.names}
            r_ = semantic_check(rel, lop, rop, res, pt)
            if r_ == "skip":
                rep.skipped["array-valued-operand"] = rep.skipped.get("array-valued-operand", 0) + 1
            elif r_ is not None:
                r_.update({"cell": cell, "rel": rel, "left": lop.sexp(Ids()), "right": rop.sexp(Ids()), "point": pt})
                rep.oracle_failures.append(r_)
            # history on the shared Parameter: after p.set(...) the same constraint objects must follow the new value
            if k == 0 and (getattr(lop, "uses_p", False) or getattr(rop, "uses_p", False)):
                old_p = W.p.value
                for newp in (0.0, -1.25, 1.0):
                    W.p.set(newp)
                    r2 = semantic_check(rel, lop, rop, res, pt)
                    if r2 not in (None, "skip"):
                        r2.update({"cell": cell, "rel": rel, "left": lop.sexp(Ids()), "right": rop.sexp(Ids()), "point": pt,
                                   "parameter_set_to": newp})
                        rep.oracle_failures.append(r2)
                    rep.histogram["param-history"] = rep.histogram.get("param-history", 0) + 1
                W.p.set(old_p)
            # model probes (first and last constraint of a list)
            for c in {id(cs[0]): cs[0], id(cs[-1]): cs[-1]}.values():
                try:
                    e = Ser(ids).expr(c.expr)
                except Unsupported:
                    continue
                sense = {"<=": "le", ">=": "ge", "==": "eq"}[c.sense]
                store = "(" + f"({ids.of(W.p)} {rat(W.p.value)})" + ")"
                probe_lines.append(f"viol {sense} {e} {env_text(pt)} {store} 1/100000000")
                probe_meta.append(("viol", c, pt, None))
            if k == 0:
                fails, probed = scipy_check(rel, cs[:3], W.names, pt, rep, lr=operand_pairs(lop, rop, pt))
                for f in fails:
                    f.update({"cell": cell, "rel": rel, "left": lop.sexp(Ids()), "right": rop.sexp(Ids()), "point": pt})
                    rep.oracle_failures.append(f)
                for c, variables, fval, jac in probed[:2]:
                    try:
                        e = Ser(ids).expr(c.expr)
                        vs = "(" + " ".join(Ser(ids).var(v) for v in variables) + ")"
                    except Unsupported:
                        continue
                    full = dict(pt); full.setdefault("zz_obj", 0.5)
                    sense = {"<=": "le", ">=": "ge", "==": "eq"}[c.sense]
                    store = "(" + f"({ids.of(W.p)} {rat(W.p.value)})" + ")"
                    probe_lines.append(f"scipy {sense} {e} {vs} {env_text(full)} {store}")
                    probe_meta.append(("scipy", c, full, (fval, jac)))

    # --- magnitudes of the stored right-hand side and points on / just off the satisfaction boundary
    for f in magnitude_family(World(*shapes[0]), rng, rep):
        rep.oracle_failures.append(f)

    # --- histories: solve, replace the objective by one over a DIFFERENT variable set of the SAME size, solve again
    for _ in range(60 if thorough else 20):
        for f in objective_swap_history(rng, rep):
            rep.oracle_failures.append(f)

    # --- Parameters inside constraint bodies (on either side of * + - /, around vector / matrix reductions) × Parameter.set
    #     histories between building the SciPy dicts and probing them
    n_bad = 0
    for _ in range(200 if thorough else 60):
        rec = gen_param_recipe(rng)
        fs = param_history_check(rec, rng, rep)
        rep.nontrivial.add(("param-history", repr(rec["constraints"]), rec["mode"]))
        if fs and n_bad < 3:
            rep.oracle_failures.extend(fs[:1])
            n_bad += 1

    # --- reduction nodes on the RIGHT of a subtraction (K - f ⋈ r, r ⋈ K - f, wrappers), every reduction kind × sense
    rep.oracle_failures.extend(reflected_reduction_family(rng, rep, 200 if thorough else 60, n_points=3 if thorough else 2))

    # --- whole problems through the solver seam: constraints over strict subsets of the problem's variables
    n_prob = 160 if thorough else 45
    for _ in range(n_prob):
        sp = gen_solver_problem(rng)
        fails, probes = solver_seam_check(sp, rng, rep, n_points=3 if thorough else 2)
        rep.oracle_failures.extend(fails)
        rep.nontrivial.add(("solver", tuple(sp["names"]), len(sp["constraints"])))
        for c, variables, full, fval, jac in probes[:3]:
            try:
                e = Ser(ids).expr(c.expr)
                vs = "(" + " ".join(Ser(ids).var(v) for v in variables) + ")"
            except Unsupported:
                continue
            sense = {"<=": "le", ">=": "ge", "==": "eq"}[c.sense]
            probe_lines.append(f"scipy {sense} {e} {vs} {env_text(full)} ()")
            probe_meta.append(("scipy", c, full, (fval, jac)))

    outs = run_lean_unit(lines + probe_lines)
    rep.evaluations = len(lines) + len(probe_lines)

    for (W, lop, rop, rel), res, model in zip(metas, results, outs[:n_cmp]):
        impl = outcome_text(res)
        if impl != model:
            rep.mismatch_cases.append((W, lop, rop, rel, res))
            rep.corr_mismatches.append({"cell": f"{lop.kind}{lop.shape}:{rop.kind}{rop.shape}", "rel": rel, "impl": impl[:300], "model": model[:300],
                                        "left": lop.sexp(Ids())[:200], "right": rop.sexp(Ids())[:200]})
        if len(rep.samples) < 8 and impl.startswith(("single", "many")) and len(impl) < 260 and rng.random() < 0.02:
            rep.samples.append({"left": lop.kind, "right": rop.kind, "rel": rel, "outcome": impl})

    from ser import bits_to_float
    for (what, c, pt, extra), model in zip(probe_meta, outs[n_cmp:]):
        rep.histogram["probe:" + what] = rep.histogram.get("probe:" + what, 0) + 1
        if what == "viol":
            try:
                ev, vi, sat = model.split(" ")
                ev, vi = bits_to_float(ev), bits_to_float(vi)
            except ValueError:
                rep.corr_mismatches.append({"probe": what, "model": model[:200]})
                continue
            with warnings.catch_warnings(), np.errstate(all="ignore"):
                warnings.simplefilter("ignore")
                pe, pv, ps = c.evaluate(pt), c.violation(pt), c.is_satisfied(pt)
            if not (oracle.close(pe, ev, 1e-12, 1e-12) and oracle.close(pv, vi, 1e-12, 1e-12) and str(bool(ps)).lower() == sat):
                rep.corr_mismatches.append({"probe": what, "impl": [pe, pv, bool(ps)], "model": [ev, vi, sat],
                                            "expr": Ser(with_ids=False).expr(c.expr)[:300], "sense": c.sense, "point": pt})
        else:
            fval, jac = extra
            try:
                typ, fb, rest = model.split(" ", 2)
                mf = bits_to_float(fb)
                mj = [bits_to_float(b) for b in rest.strip("()").split()]
            except ValueError:
                rep.corr_mismatches.append({"probe": what, "model": model[:200]})
                continue
            want_type = "eq" if c.sense == "==" else "ineq"
            ok = typ == want_type and oracle.close(fval, mf, 1e-9, 1e-12) and len(mj) == len(jac) and all(
                (math.isnan(a) and math.isnan(b)) or oracle.close(a, b, 1e-7, 1e-9) for a, b in zip(jac, mj))
            if not ok:
                rep.corr_mismatches.append({"probe": what, "impl": [want_type, fval, list(map(float, jac))], "model": [typ, mf, mj],
                                            "expr": Ser(with_ids=False).expr(c.expr)[:300], "sense": c.sense, "point": pt})
    return rep


def search(ctx, rep):
    """widened search on the real code: random operand pairs × points against the direct relation"""
    rng = core.Rng(ctx["seed"] + 15485863)
    dummy = core.Report()
    from optyx.constraints import Constraint
    # first: the very constraints whose structure differs from the model, judged by their meaning at points
    for W, lop, rop, rel, res in getattr(rep, "mismatch_cases", [])[:1500]:
        if not (isinstance(res, Constraint) or (isinstance(res, list) and res and all(isinstance(c, Constraint) for c in res))):
            continue
        if outcome_text(res) == "raise:outside-model":
            continue
        for _k in range(4):
            pt = {name: rng.randint(-16, 16) / 8 for name in W.names}
            r_ = semantic_check(rel, lop, rop, res, pt)
            if r_ in (None, "skip"):
                cs = [res] if isinstance(res, Constraint) else res
                fails, _p = scipy_check(rel, cs[:3], W.names, pt, dummy, lr=operand_pairs(lop, rop, pt))
                r_ = fails[0] if fails else None
            if r_ not in (None, "skip"):
                try:
                    lt, rt = lop.sexp(Ids()), rop.sexp(Ids())
                except Unsupported:
                    lt, rt = lop.kind, rop.kind
                r_.update({"rel": rel, "left": lt, "right": rt, "point": pt, "shape": [W.n, W.r, W.c]})
                return r_
    for _ in range(60):
        fails = objective_swap_history(rng, dummy)
        if fails:
            return fails[0]
    for _ in range(200):
        fails = param_history_check(gen_param_recipe(rng), rng, dummy)
        if fails:
            return fails[0]
    fails = reflected_reduction_family(rng, dummy, 120, n_points=3)
    if fails:
        return fails[0]
    for _ in range(150):
        fails, _p = solver_seam_check(gen_solver_problem(rng), rng, dummy, n_points=2)
        if fails:
            return fails[0]
    for _ in range(40):
        W = World(rng.randint(1, 6), rng.randint(1, 4), rng.randint(1, 4))
        pairs = [(a, b) for a in W.ops for b in W.ops if a.kind in OPTYX_KINDS or b.kind in OPTYX_KINDS]
        rng.shuffle(pairs)
        for lop, rop in pairs[:150]:
            for rel in ("le", "ge", "eq"):
                if rel == "eq" and lop.kind not in OPTYX_KINDS:
                    continue
                try:
                    res = do_compare(rel, lop.make(), rop.make())
                except Exception:  # noqa: BLE001
                    continue
                if not (isinstance(res, Constraint) or (isinstance(res, list) and res and all(isinstance(c, Constraint) for c in res))):
                    continue
                if outcome_text(res) == "raise:outside-model":
                    continue
                for _k in range(3):
                    pt = {name: rng.randint(-16, 16) / 8 for name in W.names}
                    r_ = semantic_check(rel, lop, rop, res, pt)
                    if r_ not in (None, "skip"):
                        r_.update({"rel": rel, "left": lop.sexp(Ids()), "right": rop.sexp(Ids()), "point": pt,
                                   "shape": [W.n, W.r, W.c], "li": W.ops.index(lop), "ri": W.ops.index(rop)})
                        return r_
                    cs = [res] if isinstance(res, Constraint) else res
                    fails, _ = scipy_check(rel, cs[:3], W.names, pt, dummy)
                    if fails:
                        f = fails[0]
                        f.update({"rel": rel, "left": lop.sexp(Ids()), "right": rop.sexp(Ids()), "point": pt,
                                  "shape": [W.n, W.r, W.c], "li": W.ops.index(lop), "ri": W.ops.index(rop)})
                        return f
    return None


def replay(payload) -> bool:
    f = payload["failure"]
    if "swap_history" in f:
        fs = objective_swap_history(core.Rng(0), core.Report(), hist=rebuild_swap_history(f["swap_history"]))
        for x in fs:
            print({k: x[k] for k in x if k not in ("swap_history", "point", "variables")})
        return not fs
    if f.get("family") == "parameter-history":
        fs = param_history_check(f["recipe"], core.Rng(payload.get("seed", 0)), core.Report(), fixed_point=f.get("point"))
        for x in fs:
            print({k: x[k] for k in x if k not in ("recipe", "variables")})
        return not fs
    if "problem" in f:
        sp = rebuild_problem(f["problem"])
        sp["fd"] = bool(f.get("fd"))
        pt = {k: float(v) for k, v in f["point"].items()} if "point" in f else None
        fails, _p = solver_seam_check(sp, core.Rng(0), core.Report(), points=[pt] if pt else None)
        for x in fails:
            print({k: x[k] for k in x if k not in ("problem", "point", "variables")})
        return not fails
    if f.get("family") == "magnitude":
        fs = magnitude_family(World(3, 2, 3), core.Rng(payload.get("seed", 0)), core.Report())
        for x in fs[:3]:
            print({k: x[k] for k in x if k != "point"})
        return not fs
    if "shape" not in f and "cell" in f and "point" not in f:
        print("structural finding:", f.get("what"))
        return False
    # rebuild the world of the same shape; operands are addressed by their index when recorded, else by kind
    shape = f.get("shape")
    cands = [tuple(shape)] if shape else [(3, 2, 3), (1, 1, 1), (2, 3, 3), (4, 2, 2), (6, 3, 4), (5, 1, 4)]
    rel = f["rel"]
    for n, r, c in cands:
        W = World(n, r, c)

        def _sx(o):
            try:
                return o.sexp(Ids())
            except Unsupported:
                return o.kind
        allops = W.ops + W.num_ops
        for lop, rop in itertools.product(allops, allops):
            if _sx(lop) != f.get("left") or _sx(rop) != f.get("right"):
                continue
            if "cell" in f and f["cell"] != f"{lop.kind}:{rop.kind}":
                continue
            res = do_compare(rel, lop.make(), rop.make())
            pt = {k: float(v) for k, v in f["point"].items()}
            r_ = semantic_check(rel, lop, rop, res, pt)
            print("semantic_check:", r_)
            from optyx.constraints import Constraint
            cs = [res] if isinstance(res, Constraint) else res
            fails, _ = scipy_check(rel, cs[:3], W.names, pt, core.Report())
            print("scipy_check:", fails)
            return r_ in (None, "skip") and not fails
    print("operands not found")
    return True
