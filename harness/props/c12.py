"""C12 — parameter updates are honoured by every later evaluation and solve.

Tie:    histories over {p.set(v), evaluate, compiled call, Jacobian call, Hessian call} on a model expression with
        `Parameter` leaves.  The real artefacts (`compile_expression`, `compile_jacobian`, `compile_hessian`) are
        built once, at their first use, and *kept* across later `set`s (as `Problem._solver_cache` keeps them);
        the same history runs on the Lean machine `Py.State.pstep` (scalar fragment).  Compared: which Jacobian
        path was compiled (`__name__`, exact — a Parameter must never take the pre-computed constant path) and
        every value (1e-9 relative, non-finite / ill-conditioned points skipped and counted).
Oracle: each observation against a *freshly built* model in which every Parameter is `Constant(current value)`
        (all expression kinds incl. vector nodes), and histories of `set` / `solve(method)` on real Problems with
        parameters in the objective, a constraint right-hand side, a coefficient, an exponent and a Hessian entry:
        captured back-end inputs (stubbed solvers) and real solver results vs the fresh constant model.
        Update ROUTES on one VectorParameter (element `vp[i].set`, negative index, kept handle, iteration, bulk `vp.set` in
        every array form; MatrixParameter: bulk in every array form), interleaved in every order with all channels and with
        solve(method): judged on the harness's OWN BOOK of the values it passed to set() — NumPy formula, complex-step
        gradient, differenced Hessian, closed-form minimiser, fresh Constant model; get_values / to_numpy / p.value are
        channels, never the source of the expected values.
"""
from __future__ import annotations

import math
import warnings

import numpy as np

import core
import gen
from ser import Ids, Ser, Unsupported, rat, env_text, bits_to_float
from props import c13 as _c13

LEAN_MODULE = "Optyx.Props.C12"
EXTRA_MODULES = ["Optyx.Props.PinsC12", "Optyx.Props.BuildTie", "Optyx.Props.CompileEntryTie", "Optyx.Props.ParamTie", "Optyx.Props.ScaledTie"]   # transcription anchors (harness/source_pins.py)
THEOREMS = [
    "Optyx.Props.C12.denote_substParams",
    "Optyx.Props.C12.grad_substParams",
    "Optyx.Props.C12.param_not_constant",
    "Optyx.Props.C12.param_has_no_degree",
    "Optyx.Props.C12.jac_call_substParams",
    "Optyx.Props.C12.artefacts_independent_of_store",
    "Optyx.Props.C12.param_refinement_partial",
    "Optyx.Props.C12.hess_call_substParams",
    "Optyx.Props.C12.param_refinement",
    "Optyx.Props.BuildTie.compile_step",
    "Optyx.Props.BuildTie.compileVec_step",
    "Optyx.Props.CompileEntryTie.compileExpression_eq",
    "Optyx.Props.CompileEntryTie.dictFn_eq",
    "Optyx.Props.CompileEntryTie.param_run",
    "Optyx.Props.CompileEntryTie.compiledExpression_value",
    "Optyx.Props.ParamTie.paramSet_raises_iff",
    "Optyx.Props.ParamTie.paramSet_stores_converted",
    "Optyx.Props.ParamTie.scalar_set_stores",
    "Optyx.Props.ParamTie.reads_slot",
    "Optyx.Props.ParamTie.asParameterValue_spec",
    "Optyx.Props.ParamTie.read_after_set",
    "Optyx.Props.ParamTie.read_after_vecSet",
    "Optyx.Props.ParamTie.vecSet_other",
    "Optyx.Props.ParamTie.vectorParamSet_spec",
    "Optyx.Props.ParamTie.matrixParamSet_spec",
    "Optyx.Props.ScaledTie.scaledEntry_eq",
    "Optyx.Props.ScaledTie.scaledLoop_step",
    "Optyx.Props.ScaledTie.scaledPattern_frame",
    "Optyx.Props.PinsC12.anchors",
]
ASSUMPTIONS = [
    "regular points: where a Parameter is the *exponent* of a power, the base is non-zero (at base 0 the general power "
    "rule x**p * (p/x) gives 0*inf = nan, sanitised to 0, while the constant model's rule n*x**(n-1) gives the true value)",
    "scalar Parameters (VectorParameter elements are scalar Parameters; MatrixParameter has no symbolic form: finding F11)",
    "Hessian observations: proved at regular points of well-formed models (param_refinement); also covered by the fresh-constant-model oracle on the real code",
]

PV = [-2.0, -1.0, -0.5, 0.5, 1.0, 1.5, 2.0, 3.0, 0.0, 0.25]


def run_lean_unit(lines):
    return core.run_lean(lines)


# ----------------------------------------------------------------------------- model recipes: build(values|None)


def cell_recipes():
    """one recipe per place a parameter can sit; `mk(P, Q, x, y)` builds the expression from the leaves"""
    from optyx.core.functions import sin, exp, log, sqrt, tanh, cos

    return [
        ("additive", lambda P, Q, x, y: x * x + P),
        ("coefficient", lambda P, Q, x, y: P * x + Q * y),
        ("coefficient-right", lambda P, Q, x, y: x * P - y * Q),
        ("hessian-entry", lambda P, Q, x, y: P * x * x * y + Q * y * y),
        ("exponent", lambda P, Q, x, y: (x * x + 1.0) ** P + y),
        ("exponent-of-var", lambda P, Q, x, y: x ** P),
        ("base", lambda P, Q, x, y: P ** x + Q * 0.0),
        ("divisor", lambda P, Q, x, y: x / (P * P + 1.0) + y / Q),
        ("inside-unary", lambda P, Q, x, y: sin(P * x) + exp(Q * y * 0.25)),
        ("inside-log", lambda P, Q, x, y: log(x * x + P * P + 0.5)),
        ("product-of-params", lambda P, Q, x, y: P * Q * x + P / (Q * Q + 1.0)),
        ("only-params", lambda P, Q, x, y: P * Q + P),
        ("bare", lambda P, Q, x, y: P),
        ("neg", lambda P, Q, x, y: -(P * x) - (-Q)),
        ("scaled-pattern", lambda P, Q, x, y: (x ** 2 + y ** 2) + P),
        ("sqrt-tanh", lambda P, Q, x, y: sqrt(x * x + 1.0) * P + tanh(Q * y) * cos(P)),
        ("pow-chain", lambda P, Q, x, y: (P * x) ** 2 + (x + Q) ** 3),
        ("zero-one-values", lambda P, Q, x, y: P * x * y + Q * (x + y)),
    ]


class VecEnv:
    """fresh vector / matrix variables with fixed names (the constant model is rebuilt over the same names)"""

    def __init__(self):
        from optyx import VectorVariable, MatrixVariable, Variable

        self.x = VectorVariable("x", 3)
        self.y = VectorVariable("y", 3)
        self.X = MatrixVariable("X", 2, 2)
        self.a = Variable("a")


def vector_shapes():
    """vector reductions a Parameter can scale / shift / divide: (tag, E -> scalar expression)"""
    from optyx.core import vectors as V
    from optyx.core import matrices as M

    c3 = lambda: np.array([2.0, -1.0, 0.5])  # noqa: E731
    Q3 = lambda: np.array([[2.0, 0.5, 0.0], [0.5, 1.0, -1.0], [0.0, -1.0, 3.0]])  # noqa: E731
    A3 = lambda: np.array([[1.0, 2.0, -1.0], [0.5, 0.0, 3.0]])  # noqa: E731
    return [
        ("sum", lambda E: E.x.sum()),
        ("lincomb", lambda E: c3() @ E.x),
        ("lincomb-expr", lambda E: V.LinearCombination(c3(), E.x + 1.0)),
        ("dot-self", lambda E: E.x.dot(E.x)),
        ("dot-xy", lambda E: E.x.dot(E.y)),
        ("power-sum", lambda E: V.VectorPowerSum(E.x, 2)),
        ("power-sum3", lambda E: V.VectorPowerSum(E.x, 3)),
        ("unary-sum", lambda E: V.VectorUnarySum(E.x, "sin")),
        ("quadform", lambda E: M.QuadraticForm(E.x, Q3())),
        ("l2", lambda E: V.L2Norm(E.x)),
        ("l1", lambda E: V.L1Norm(E.x)),
        ("matvec-row", lambda E: (A3() @ E.x)[0]),
        ("expr-sum", lambda E: (E.x * E.y).sum()),
        ("matrix-sum", lambda E: E.X.sum()),
        ("frobenius", lambda E: M.FrobeniusNorm(E.X)),
    ]


def placements():
    """where the Parameter sits relative to the reduction R (at or near the root): (tag, (P, Q, R, E) -> expression)"""
    return [
        ("P*R", lambda P, Q, R, E: P * R),
        ("R*P", lambda P, Q, R, E: R * P),
        ("R+P", lambda P, Q, R, E: R + P),
        ("P+R", lambda P, Q, R, E: P + R),
        ("R-P", lambda P, Q, R, E: R - P),
        ("P-R", lambda P, Q, R, E: P - R),
        ("R/P", lambda P, Q, R, E: R / P),
        ("P*R-10", lambda P, Q, R, E: P * R - 10.0),
        ("(R*P)+1", lambda P, Q, R, E: (R * P) + 1.0),
        ("2*(P*R)+3", lambda P, Q, R, E: 2.0 * (P * R) + 3.0),
        ("-(P*R)", lambda P, Q, R, E: -(P * R)),
        ("P*R+Q*a", lambda P, Q, R, E: P * R + Q * E.a),
        ("(P*R)*Q", lambda P, Q, R, E: (P * R) * Q),
        ("P*(R+1)", lambda P, Q, R, E: P * (R + 1.0)),
        ("(R-Q)*P", lambda P, Q, R, E: (R - Q) * P),
        ("P*R+a*a", lambda P, Q, R, E: P * R + E.a * E.a),
    ]


class Case:
    """a model expression that can be rebuilt with Parameters or with Constants holding given values"""

    def __init__(self, tag, kind, seed=None, mk=None, depth=3, vector_nodes=False, init=(1.5, -0.5), pattern="random",
                 vparam=False):
        self.vparam = vparam                        # the two parameters are the elements of one VectorParameter
        self.tag, self.kind, self.seed, self.mk, self.depth, self.vector_nodes = tag, kind, seed, mk, depth, vector_nodes
        self.init = tuple(float(v) for v in init)   # parameter values when the model is built (0.0 is Parameter's default)
        self.pattern = pattern                      # shape of the history: see rand_history

    def apply_set(self, params, i, v, k):
        """`p.set(v)`; when the parameters are the elements of a VectorParameter, through `vp.set(array)` with the array
        given as list / float64 / float32 / int array in turn"""
        vp = getattr(self, "_vp", None)
        if vp is None:
            params[i].set(v)
            return
        vals = [fval(p.value) for p in params]
        vals[i] = fval(v)
        forms = [lambda a: list(a), lambda a: np.array(a, dtype=np.float64), lambda a: tuple(a),
                 lambda a: np.array(a, dtype=np.float32) if all(float(np.float32(t)) == t for t in a) else list(a),
                 lambda a: np.array(a, dtype=np.int64) if all(float(int(t)) == t for t in a) else np.array(a)]
        vp.set(forms[k % len(forms)](vals))

    def build(self, values=None):
        """-> (expr, params[list of Parameter] or None)"""
        from optyx import Variable, Parameter
        from optyx.core.expressions import Constant

        self._vp = None

        def leaves():
            if getattr(self, "vparam", False):
                from optyx import VectorParameter
                self._vp = VectorParameter("p", 2, values=list(self.init))
                return self._vp[0], self._vp[1]
            return Parameter("p", self.init[0]), Parameter("q", self.init[1])

        if self.kind == "deep":
            from optyx.core.functions import sin
            from optyx import VectorVariable
            x, y = Variable("a"), Variable("b")
            if values is None:
                P, Q = leaves()
                ps = [P, Q]
            else:
                P, Q, ps = Constant(values[0]), Constant(values[1]), None
            depth, far_end = self.mk
            u = VectorVariable("u", 2)
            obj = {"param": lambda: P * x, "vector": lambda: P * u.sum() + x, "plain": lambda: x * y}[far_end]()
            for i in range(depth):
                k = i % 4
                term = (P * x) if k == 0 else ((y - Q) ** 2 if k == 1 else (sin(x * P) * 0.125 if k == 2 else Q * y * x))
                obj = obj + term
            return obj, ps
        if self.kind == "vec":
            E = VecEnv()
            shape, place = self.mk
            if values is None:
                P, Q = leaves()
                return place(P, Q, shape(E), E), [P, Q]
            return place(Constant(values[0]), Constant(values[1]), shape(E), E), None
        if self.kind == "cell":
            x, y = Variable("a"), Variable("b")
            if values is None:
                P, Q = leaves()
                return self.mk(P, Q, x, y), [P, Q]
            return self.mk(Constant(values[0]), Constant(values[1]), x, y), None
        r = core.Rng(self.seed)
        U = gen.Universe(r)
        ps = list(U.params)
        for p_, v_ in zip(ps, self.init):
            p_.set(v_)
        if values is not None:
            U.params = [Constant(values[0]), Constant(values[1])]
        # the structure must not depend on whether a leaf is a Parameter or a Constant: pre-draw nothing else
        e = gen.rand_expr(r, U, self.depth, safe=True, vector_nodes=self.vector_nodes)
        # force at least one parameter into the tree
        e = e * (U.params[0] + 2.5) + U.params[1]
        return e, (ps if values is None else None)


def vars_of(e):
    return gen.expr_vars(e)


# ----------------------------------------------------------------------------- observations on the real code


class Artefacts:
    """compiled once, kept across parameter updates"""

    def __init__(self, e, vs):
        self.e, self.vs = e, vs
        self.fn = self.jac = self.hess = self.grad = self.dict_fn = self.sym = None
        self.xbuf = np.zeros(len(vs))     # one input array object, overwritten in place before every call

    def observe(self, kind, env):
        from optyx.core.compiler import compile_expression, compile_gradient
        from optyx.core.autodiff import compile_jacobian, compile_hessian

        self.xbuf[:] = [env[v.name] for v in self.vs]
        x = self.xbuf
        with warnings.catch_warnings(), np.errstate(all="ignore"):
            warnings.simplefilter("ignore")
            if kind == "eval":
                return None, [float(np.asarray(self.e.evaluate(env)))]
            if kind == "fn":
                if self.fn is None:
                    self.fn = compile_expression(self.e, self.vs)
                return None, [float(np.asarray(self.fn(x)))]
            if kind == "jac":
                if self.jac is None:
                    self.jac = compile_jacobian([self.e], self.vs)
                return self.jac.__name__, [float(t) for t in np.asarray(self.jac(x), dtype=float).ravel()]
            if kind == "dict":
                from optyx.core.compiler import compile_to_dict_function
                if self.dict_fn is None:
                    self.dict_fn = compile_to_dict_function(self.e, self.vs)
                return None, [float(np.asarray(self.dict_fn(env)))]
            if kind == "symgrad":
                from optyx.core.autodiff import gradient
                if self.sym is None:
                    self.sym = [gradient(self.e, v) for v in self.vs]
                return None, [float(np.asarray(g.evaluate(env))) for g in self.sym]
            if kind == "grad":
                if self.grad is None:
                    self.grad = compile_gradient(self.e, self.vs)
                return self.grad.__name__, [float(t) for t in np.asarray(self.grad(x), dtype=float).ravel()]
            if kind == "hess":
                if self.hess is None:
                    self.hess = compile_hessian(self.e, self.vs)
                return self.hess.__name__, [float(t) for t in np.asarray(self.hess(x), dtype=float).ravel()]
        raise ValueError(kind)


def close(a, b, rtol=1e-9, atol=1e-11):
    return math.isclose(a, b, rel_tol=rtol, abs_tol=atol)


def tame(vals):
    return all(math.isfinite(v) and abs(v) < 1e9 for v in vals)


def well_conditioned(make_obs, env, vals):
    """the observation does not move by more than 1e-7 relative under a 1e-12 relative perturbation of the point"""
    try:
        pert = {k: v * (1 + 1e-12) + 1e-14 for k, v in env.items()}
        v2 = make_obs(pert)
    except Exception:  # noqa: BLE001
        return False
    return len(v2) == len(vals) and tame(v2) and all(close(a, b, 1e-7, 1e-9) for a, b in zip(vals, v2))


def exponent_base_zero(e, env):
    """is there a power node whose exponent is a Parameter and whose base is 0 at this point? (excluded point)"""
    from optyx.core.expressions import BinaryOp
    from optyx.core.parameters import Parameter

    stack = [e]
    seen = 0
    while stack and seen < 5000:
        n = stack.pop()
        seen += 1
        if isinstance(n, BinaryOp):
            if n.op == "**" and isinstance(n.right, Parameter):
                try:
                    with np.errstate(all="ignore"):
                        if float(np.asarray(n.left.evaluate(env))) == 0.0:
                            return True
                except Exception:  # noqa: BLE001
                    return True
            stack += [n.left, n.right]
        else:
            for attr in ("operand",):
                if hasattr(n, attr):
                    stack.append(getattr(n, attr))
            for attr in ("vector", "left", "right", "expression"):
                sub = getattr(n, attr, None)
                if sub is not None and hasattr(sub, "_expressions"):
                    stack += list(sub._expressions)
    return False


# ----------------------------------------------------------------------------- expression-level histories


NOT01 = [v for v in PV if v not in (0.0, 1.0)]
# magnitudes and numeric types a user may pass to Parameter.set / VectorParameter.set
PV_EXTREME = [1e-12, -1e-9, 1e8, -1e8, 2, -3, np.float32(0.5), np.int64(-1), np.array(1.5), np.float64(-0.0), True,
              np.int8(-2), np.float16(0.25), np.uint8(3), np.uint64(5), np.bool_(True)]


def fval(v):
    return float(np.asarray(v))


def rand_history(rng, vs, n, pattern="random", with_grad=False):
    """`random`: free mix.  `derive-first`: a derivative is compiled and called while the parameters still hold their
    initial values (0.0 / 1.0 in many cases), then both are set to other values, then everything is observed again.
    `to01-then-derive`: parameters are first set to 0 / 1, a derivative is compiled, then they move away."""
    pt = lambda: gen.rand_point(rng, vs)  # noqa: E731
    ops = []
    if pattern == "derive-first":
        ops += [(rng.choice(["jac", "hess"]), pt()), (rng.choice(["jac", "hess", "fn"]), pt())]
        ops += [("set", 0, rng.choice(NOT01)), ("set", 1, rng.choice(NOT01))]
        ops += [("jac", pt()), ("hess", pt()), ("fn", pt()), ("eval", pt())]
    elif pattern == "to01-then-derive":
        ops += [("set", 0, rng.choice([0.0, 1.0])), ("set", 1, rng.choice([0.0, 1.0])), ("jac", pt()), ("hess", pt())]
        ops += [("set", 0, rng.choice(NOT01)), ("set", 1, rng.choice(NOT01)), ("jac", pt()), ("hess", pt()), ("fn", pt())]
    elif pattern == "extreme":
        ops += [("jac", pt()), ("set", 0, rng.choice(PV_EXTREME)), ("set", 1, rng.choice(PV_EXTREME)), ("jac", pt()), ("fn", pt()),
                ("hess", pt())]
    last_pt = None
    for _ in range(n):
        r = rng.random()
        if r < 0.35:
            ops.append(("set", rng.randint(0, 1), rng.choice(PV_EXTREME if pattern == "extreme" and r < 0.2 else PV)))
        else:
            kind = rng.choice(["eval", "fn", "jac", "jac", "hess", "fn"])
            # half of the time at the very same point as the previous observation (a set may lie in between)
            q = last_pt if last_pt is not None and rng.random() < 0.5 else pt()
            last_pt = q
            ops.append((kind, q))
    # make sure something is observed after the last set
    ops.append((rng.choice(["jac", "fn", "hess"]), pt()))
    if with_grad:
        # compile_gradient is a third derivative artefact: observe it wherever the Jacobian is observed
        out = []
        for o in ops:
            out.append(o)
            if o[0] == "jac":
                out.append(("grad", o[1]))
                out.append(("symgrad", o[1]))
            if o[0] == "fn":
                out.append(("dict", o[1]))
        ops = out
    return ops


def run_expression_case(case, rng, rep, lean_ok, n_ops):
    """returns (lean line, expected per-op list, meta) or None; appends oracle failures to rep"""
    e, params = case.build(None)
    vs = vars_of(e)
    ops = rand_history(rng, vs, n_ops, case.pattern, with_grad=not lean_ok)
    art = Artefacts(e, vs)
    ids = Ids()
    line = None
    if lean_ok:
        try:
            s = Ser(ids).expr(e)
            vtxt = "(" + " ".join(Ser(ids).var(v) for v in vs) + ")"
            store = "(" + " ".join(f"({ids.of(p)} {rat(p.value)})" for p in params) + ")"
        except Unsupported as ex:
            rep.skipped["unsupported:" + str(ex)] = rep.skipped.get("unsupported:" + str(ex), 0) + 1
            lean_ok = False
    optxt, expected = [], []
    sets_seen = 0
    for op in ops:
        if op[0] == "set":
            case.apply_set(params, op[1], op[2], sets_seen)
            sets_seen += 1
            optxt.append(f"(set {ids.of(params[op[1]])} {rat(fval(params[op[1]].value))})" if lean_ok else "")
            expected.append(None)
            continue
        kind, env = op
        rep.evaluations += 1
        rep.histogram[kind] = rep.histogram.get(kind, 0) + 1
        try:
            path, vals = art.observe(kind, env)
        except ZeroDivisionError:
            # excluded singular point: a Parameter used as a divisor is 0.  Closures of Parameter leaves return Python
            # floats, so `p.value / (p.value * p.value)` raises where NumPy scalars would give nan / inf
            rep.skipped["singular:parameter-divisor-is-zero (ZeroDivisionError)"] = \
                rep.skipped.get("singular:parameter-divisor-is-zero (ZeroDivisionError)", 0) + 1
            optxt.append(f"({kind} {env_text(env)})" if lean_ok else "")
            expected.append(("skip", None, None, env))
            continue
        except Exception as ex:  # noqa: BLE001
            rep.oracle_failures.append({"what": f"{kind} raised {type(ex).__name__}: {str(ex)[:120]}", "case": case.tag,
                                        "kind": case.kind, "seed": case.seed, "depth": case.depth,
                                        "vector_nodes": case.vector_nodes, "init": list(case.init), "vparam": case.vparam,
                                        "deep": list(case.mk) if case.kind == "deep" else None,
                                        "history": [list(o[:1]) + ([o[1], fval(o[2])] if o[0] == "set" else [o[1]])
                                                    for o in ops[: len(expected) + 1]]})
            return None
        optxt.append(f"({kind} {env_text(env)})" if lean_ok else "")
        expected.append((kind, path, vals, env))
        if path:
            rep.histogram["path:" + path] = rep.histogram.get("path:" + path, 0) + 1
        # ---- the oracle: a freshly built model with Constant(current value)
        cur = [float(p.value) for p in params]
        ce, _ = case.build(cur)
        cvs = vars_of(ce)
        if [v.name for v in cvs] != [v.name for v in vs]:
            # a variable can vanish from the constant model only by folding — it never does at construction time
            rep.skipped["constant-model-has-other-variables"] = rep.skipped.get("constant-model-has-other-variables", 0) + 1
            continue
        try:
            _, cvals = Artefacts(ce, cvs).observe(kind, env)
        except Exception:  # noqa: BLE001
            rep.skipped["constant-model-raised"] = rep.skipped.get("constant-model-raised", 0) + 1
            continue
        if not (tame(vals) and tame(cvals)):
            rep.skipped["non-finite"] = rep.skipped.get("non-finite", 0) + 1
            continue
        if sets_seen:
            rep.nontrivial.add((case.tag, case.seed, len(expected)))
        if len(vals) != len(cvals) or not all(close(a, b, 1e-7, 1e-9) for a, b in zip(vals, cvals)):
            if kind in ("jac", "hess", "grad", "symgrad") and exponent_base_zero(e, env):
                rep.skipped["parameter-exponent-at-base-0"] = rep.skipped.get("parameter-exponent-at-base-0", 0) + 1
                continue
            if not well_conditioned(lambda pe: Artefacts(ce, cvs).observe(kind, pe)[1], env, cvals):
                rep.skipped["ill-conditioned"] = rep.skipped.get("ill-conditioned", 0) + 1
                continue
            rep.oracle_failures.append({
                "what": f"{kind} after Parameter.set differs from a fresh model built with Constant(current value)",
                "case": case.tag, "kind": case.kind, "seed": case.seed, "depth": case.depth, "vector_nodes": case.vector_nodes,
                "init": list(case.init), "vparam": case.vparam, "deep": list(case.mk) if case.kind == "deep" else None,
                "history": [list(o[:1]) + ([o[1], fval(o[2])] if o[0] == "set" else [o[1]]) for o in ops[: len(expected)]],
                "params_now": cur, "got": vals[:9], "fresh_constant_model": cvals[:9]})
    if lean_ok:
        line = f"pobs {s} {vtxt} {store} (" + " ".join(optxt) + ")"
    return line, expected, (case, e)


def compare_with_model(rep, metas, outs):
    for (line, expected, (case, e)), out in zip(metas, outs):
        parts = out.split(" ; ")
        if len(parts) != len(expected):
            rep.corr_mismatches.append({"case": case.tag, "impl": f"{len(expected)} observations", "model": out[:200]})
            continue
        for exp, got in zip(expected, parts):
            if exp is None:
                if got != "-":
                    rep.corr_mismatches.append({"case": case.tag, "impl": "set", "model": got[:100]})
                continue
            kind, path, vals, env = exp
            if kind == "skip":
                continue
            mpath = None
            if kind == "jac":
                mpath, _, got = got.partition(":")
                if mpath != path:
                    rep.corr_mismatches.append({"case": case.tag, "seed": case.seed, "what": "jacobian path", "impl": path,
                                                "model": mpath, "line": line[:300]})
                    continue
            try:
                mv = [bits_to_float(t) for t in got.split(",")] if got else []
            except ValueError:
                rep.corr_mismatches.append({"case": case.tag, "impl": str(vals)[:100], "model": got[:100]})
                continue
            if not (tame(vals) and tame(mv)):
                rep.skipped["model-compare-non-finite"] = rep.skipped.get("model-compare-non-finite", 0) + 1
                continue
            if len(mv) != len(vals) or not all(close(a, b, 1e-8, 1e-10) for a, b in zip(vals, mv)):
                art = Artefacts(e, vars_of(e))
                if not well_conditioned(lambda pe: art.observe(kind, pe)[1], env, art.observe(kind, env)[1]):
                    rep.skipped["model-compare-ill-conditioned"] = rep.skipped.get("model-compare-ill-conditioned", 0) + 1
                    continue
                rep.corr_mismatches.append({"case": case.tag, "seed": case.seed, "what": kind + " value", "impl": vals[:6],
                                            "model": mv[:6], "line": line[:300]})


# ----------------------------------------------------------------------------- problem-level histories


def problem_recipes():
    """(tag, builder(leaf P, leaf Q, x, y) -> (objective, [constraints], sense)); parameters sit in the objective, a
    constraint right-hand side, a coefficient, an exponent, a Hessian entry"""
    return [
        ("rhs", lambda P, Q, x, y: ((x - 1.0) ** 2 + (y - 2.0) ** 2, [x + y <= P + 2.0, x - y >= Q - 3.0], "min")),
        ("objective-shift", lambda P, Q, x, y: ((x - P) ** 2 + (y - Q) ** 2, [x + y >= 0.5], "min")),
        ("coefficient", lambda P, Q, x, y: (x * x + y * y + P * x + Q * y, [], "min")),
        ("hessian-entry", lambda P, Q, x, y: ((P * P + 1.0) * x * x + (Q * Q + 0.5) * y * y - x - y, [x + 2.0 * y <= 6.0], "min")),
        ("exponent", lambda P, Q, x, y: ((x + 1.0) ** (P * P + 2.0) + y * y, [x + y >= Q * 0.0 + 0.5], "min")),
        ("maximize", lambda P, Q, x, y: (P * x - x * x + Q * y - y * y, [x + y <= 3.0], "max")),
        ("linear-looking", lambda P, Q, x, y: ((P * P + 1.0) * x + (Q * Q + 1.0) * y, [x + y >= 1.0, x - y <= 2.0], "min")),
        # a Parameter directly scaling / shifting a vector reduction, in the objective and in a constraint (v: 3-vector in
        # [-3, 3]); strictly convex, so a sign flip of the parameter moves the unique minimiser
        ("vec-rate", lambda P, Q, x, y, v: (v.dot(v) - P * v.sum() + (x - 1.0) ** 2 + y * y, [v.sum() <= 4.0], "min")),
        ("vec-lincomb", lambda P, Q, x, y, v: ((np.array([1.0, -2.0, 0.5]) @ v) * P + 1.0 + v.dot(v) + x * x + y * y, [], "min")),
        ("vec-constraint", lambda P, Q, x, y, v: (v.dot(v) + x * x + (y - 1.0) ** 2,
                                                  [P * v.sum() - 1.0 >= 0.0, (np.array([1.0, 1.0, -1.0]) @ v) * Q + 2.0 >= 0.0], "min")),
        ("vec-max", lambda P, Q, x, y, v: (Q * v.sum() - v.dot(v) - x * x - y * y + P, [v.sum() - Q <= 5.0], "max")),
    ]


STRICTLY_CONVEX = {"objective-shift", "coefficient", "hessian-entry", "maximize", "rhs", "vec-rate", "vec-lincomb",
                   "vec-constraint", "vec-max"}


def build_problem(mk, values, init=(1.5, -0.5)):
    from optyx import Variable, Parameter, Problem
    from optyx.core.expressions import Constant

    from optyx import VectorVariable

    x, y = Variable("a", lb=0.0, ub=4.0), Variable("b", lb=-1.0, ub=5.0)
    if values is None:
        P, Q = Parameter("p", init[0]), Parameter("q", init[1])
        params = [P, Q]
    else:
        P, Q = Constant(values[0]), Constant(values[1])
        params = None
    if mk.__code__.co_argcount == 5:
        obj, cons, sense = mk(P, Q, x, y, VectorVariable("v", 3, lb=-3.0, ub=3.0))
    else:
        obj, cons, sense = mk(P, Q, x, y)
    prob = Problem()
    (prob.maximize if sense == "max" else prob.minimize)(obj)
    if cons:
        prob.subject_to(cons)
    return prob, params, (x, y)


def solve_stubbed(prob, method, stubs):
    stubs.calls = []
    stubs.problem = prob
    stubs.viol_pending = False
    try:
        with warnings.catch_warnings():
            warnings.simplefilter("ignore")
            stubs.last_solution = prob.solve(method=method)
        return "ok", list(stubs.calls)
    except Exception as ex:  # noqa: BLE001
        return "raise:" + type(ex).__name__, []


def solve_real(prob, method):
    try:
        with warnings.catch_warnings():
            warnings.simplefilter("ignore")
            s = prob.solve(method=method)
        return s.status.name, dict(s.values or {}), s.objective_value
    except Exception as ex:  # noqa: BLE001
        return "raise:" + type(ex).__name__, {}, None


def run_problem_histories(rng, rep, n_hist, n_ops):
    stubs = _c13.Stubs()
    recipes = problem_recipes()
    for h in range(n_hist):
        tag, mk = recipes[h % len(recipes)]
        init = [(1.5, -0.5), (0.0, 1.0), (1.0, 0.0), (0.0, 0.0), (1.0, 1.0)][(h // len(recipes)) % 5]
        prob, params, _ = build_problem(mk, None, init)
        hist = [["init", init[0], init[1]]]
        did_set = False
        for k in range(n_ops):
            # the first operation is a solve (artefacts are compiled while the parameters hold their initial values),
            # the second and third move both parameters away from 0 / 1
            forced_set = k in (1, 2)
            if k != 0 and (forced_set or rng.random() < 0.45):
                i, v = (k - 1, rng.choice(NOT01)) if forced_set else (rng.randint(0, 1), rng.choice(PV))
                if forced_set or rng.random() < 0.5:
                    # prefer sign flips: the solution must move, a frozen derivative cannot follow
                    cur_v = float(params[i].value)
                    v = -abs(v) if cur_v > 0 else abs(v)
                params[i].set(v)
                hist.append(["set", i, v])
                did_set = True
                continue
            method = rng.choice(["auto", "SLSQP", "trust-constr", "L-BFGS-B", "linprog", "Nelder-Mead", "COBYLA", "Newton-CG", "BFGS"]
                                if k else ["SLSQP", "trust-constr", "auto"])
            hist.append(["solve", method])
            cur = [float(p.value) for p in params]
            rep.evaluations += 1
            rep.histogram["solve:" + method] = rep.histogram.get("solve:" + method, 0) + 1
            # captured back-end inputs, stubbed
            stubs.install()
            try:
                stubs.last_solution = None
                o1, c1 = solve_stubbed(prob, method, stubs)
                sol1 = _c13.solution_tuple(stubs.last_solution)
                fresh, _, _ = build_problem(mk, cur)
                stubs.last_solution = None
                o2, c2 = solve_stubbed(fresh, method, stubs)
                sol2 = _c13.solution_tuple(stubs.last_solution)
            finally:
                stubs.uninstall()
            # the constraints as the user can query them: violation / is_satisfied at a fixed point
            probe = {v.name: 0.5 + 0.375 * i for i, v in enumerate(sorted(prob.variables, key=lambda v: v.name))}
            try:
                cq1 = [(round(c.violation(probe), 12), c.is_satisfied(probe)) for c in prob.constraints]
                cq2 = [(round(c.violation(probe), 12), c.is_satisfied(probe)) for c in fresh.constraints]
            except Exception as ex:  # noqa: BLE001
                cq1, cq2 = ["raise:" + type(ex).__name__], []
            if cq1 != cq2:
                rep.oracle_failures.append({"what": "Constraint.violation / is_satisfied differ from the fresh constant model",
                                            "recipe": tag, "problem_history": hist[:], "params_now": cur, "got": str(cq1)[:200],
                                            "fresh_constant_model": str(cq2)[:200]})
                continue
            if did_set:
                rep.nontrivial.add(("problem", tag, h, len(hist)))
            bad = None
            if o1 != o2 and not (method == "linprog"):
                bad = f"outcome {o1} vs {o2}"
            elif method == "linprog":
                # a parametric model is never an LP; the constant model may be: the documented difference
                rep.histogram["linprog:param=%s const=%s" % (o1, o2)] = rep.histogram.get("linprog:param=%s const=%s" % (o1, o2), 0) + 1
            elif method == "auto" and [c["method"] for c in c1] != [c["method"] for c in c2]:
                # `auto` looks at the degree: a parametric objective has none, so the parametric model is sent to a more
                # conservative method than the constant model (and is never an LP); the *inputs* are then not comparable
                # call by call — the real-solver comparison below covers the result
                rep.histogram["auto:method-differs"] = rep.histogram.get("auto:method-differs", 0) + 1
            elif len(c1) != len(c2):
                bad = f"{len(c1)} vs {len(c2)} back-end calls"
            else:
                for a, b in zip(c1, c2):
                    if a["backend"] != b["backend"]:
                        # auto: parametric model goes to the NLP path, the constant model may be an LP
                        rep.histogram["auto:param-nlp/const-lp"] = rep.histogram.get("auto:param-nlp/const-lp", 0) + 1
                        break
                    d = _c13.diff_calls(a, b)
                    if d == "method" and method == "auto":
                        rep.histogram["auto:method-differs"] = rep.histogram.get("auto:method-differs", 0) + 1
                        break
                    if d is not None:
                        bad = d
                        break
            same_route = o1 == o2 == "ok" and [c["method"] for c in c1] == [c["method"] for c in c2] and \
                [c["backend"] for c in c1] == [c["backend"] for c in c2]
            if not bad and same_route and sol1 is not None and sol2 is not None:
                ok_sol = sol1[0] == sol2[0] and sol1[3] == sol2[3] and len(sol1[2]) == len(sol2[2]) and \
                    all(a[0] == b[0] and abs(a[1] - b[1]) <= 1e-9 for a, b in zip(sol1[2], sol2[2])) and \
                    (sol1[1] == sol2[1] or (sol1[1] is not None and sol2[1] is not None and
                                            (abs(sol1[1] - sol2[1]) <= 1e-9 * (1 + abs(sol2[1])) or sol1[1] != sol1[1])))
                if not ok_sol:
                    bad = f"Solution {sol1} vs {sol2}"[:400]
            if bad:
                rep.oracle_failures.append({"what": "solver input differs from the fresh constant model: " + bad, "recipe": tag,
                                            "problem_history": hist[:], "params_now": cur})
                continue
            # real solvers on the convex templates
            if method in ("SLSQP", "trust-constr", "auto") and tag != "exponent":
                s1 = solve_real(prob, method)
                fresh, _, _ = build_problem(mk, cur)
                s2 = solve_real(fresh, method)
                rep.histogram["real-solves"] = rep.histogram.get("real-solves", 0) + 1
                if s1[0] != s2[0] and not (method == "auto"):
                    rep.oracle_failures.append({"what": f"real solve status {s1[0]} vs {s2[0]} on the fresh constant model",
                                                "recipe": tag, "problem_history": hist[:], "params_now": cur})
                elif s1[0] == s2[0] == "OPTIMAL":
                    tol = 2e-3 if method != "SLSQP" else 1e-4
                    dv = max([abs(s1[1][k] - s2[1].get(k, float("nan"))) for k in s1[1]] or [0.0])
                    if tag not in STRICTLY_CONVEX:
                        dv = 0.0  # linear objective: the minimiser need not be unique, only the optimal value is compared
                    do = abs((s1[2] or 0.0) - (s2[2] or 0.0))
                    if not (dv <= tol * 10 and do <= tol * (1 + abs(s2[2] or 0.0))):
                        rep.oracle_failures.append({"what": "real solve result differs from the fresh constant model",
                                                    "recipe": tag, "method": method, "problem_history": hist[:], "params_now": cur,
                                                    "got": [s1[1], s1[2]], "fresh_constant_model": [s2[1], s2[2]]})


# ----------------------------------------------------------------------------- numeric types of parameter values


def dtype_probe(rep):
    """values of every NumPy scalar / array dtype passed to Parameter.set and VectorParameter.set, on three tiny models
    (negation, minus an integer constant, difference of two parameters): evaluate / compiled value / Jacobian vs the model
    with Constant(float(value)).  (Unsigned / bool values used to wrap around: finding F33, repaired — every mismatch is
    a failure.)"""
    from optyx import Variable, Parameter, VectorParameter
    from optyx.core.expressions import Constant
    from optyx.core.compiler import compile_expression
    from optyx.core.autodiff import compile_jacobian

    x = Variable("a")
    models = [("neg", lambda P, Q: x - (-P)), ("minus-int-constant", lambda P, Q: (P - 4) * x),
              ("difference", lambda P, Q: (P - Q) * x + Q)]
    dts = [np.uint8, np.uint16, np.uint32, np.uint64, np.int8, np.int16, np.int32, np.int64, np.float16, np.float32,
           np.float64, np.bool_]
    pt = np.array([1.25])
    n = 0
    for dt in dts:
        for via_vector in (False, True):
            for tag, mk in models:
                vals = [dt(3), dt(1) if dt is np.bool_ else dt(2)]
                if via_vector:
                    vp = VectorParameter("p", 2, values=[1.0, 1.0])
                    P, Q = vp[0], vp[1]
                    e = mk(P, Q)
                    f0 = compile_expression(e, [x]); j0 = compile_jacobian([e], [x])
                    vp.set(np.array(vals, dtype=dt))
                else:
                    P, Q = Parameter("p", 1.0), Parameter("q", 1.0)
                    e = mk(P, Q)
                    f0 = compile_expression(e, [x]); j0 = compile_jacobian([e], [x])
                    P.set(vals[0]); Q.set(vals[1])
                ce = mk(Constant(float(vals[0])), Constant(float(vals[1])))
                with warnings.catch_warnings(), np.errstate(all="ignore"):
                    warnings.simplefilter("ignore")
                    try:
                        got = [float(np.asarray(e.evaluate({"a": 1.25}))), float(np.asarray(f0(pt))), float(np.asarray(j0(pt)).ravel()[0])]
                    except Exception as ex:  # noqa: BLE001
                        got = ["raise:" + type(ex).__name__] * 3
                    want = [float(np.asarray(ce.evaluate({"a": 1.25}))), float(np.asarray(compile_expression(ce, [x])(pt))),
                            float(np.asarray(compile_jacobian([ce], [x])(pt)).ravel()[0])]
                n += 1
                rep.evaluations += 1
                if got != want:
                    rep.oracle_failures.append({
                        "what": "value of a model whose Parameter was set to a NumPy value differs from Constant(float(value))",
                        "dtype": np.dtype(dt).name, "via_vector_parameter": via_vector, "model": tag, "got": got,
                        "fresh_constant_model": want, "dtype_probe": True})
    rep.histogram["dtype_probe_cases"] = n


# ----------------------------------------------------------------------------- update ROUTES on one VectorParameter / MatrixParameter
#
# The same VectorParameter can be updated through several API routes: one element (`vp[i].set(v)`, `vp[-k].set(v)`, a handle
# kept since the model was built, `for p in vp: p.set(...)`), the whole vector (`vp.set(list / tuple / float64 / float32 /
# int / strided / reversed array)`), and the routes can be interleaved in any order with evaluate / compiled value / dict
# wrapper / gradient / Jacobian / symbolic gradient / Hessian / solve.  The harness keeps ITS OWN BOOK of what it passed to the
# set() calls (never p.value / get_values()): every channel is judged against plain NumPy arithmetic on the book (value;
# complex-step derivative; central differences of the complex-step gradient) and against a freshly built model with
# Constant(book value); `get_values()` / `to_numpy()` / `p.value` are channels too.  Arrays handed to optyx are scribbled
# over afterwards and arrays handed back are mutated (neither may reach the model).


def _sum(terms):
    out = terms[0]
    for t in terms[1:]:
        out = out + t
    return out


def route_recipes():
    """(tag, mk(C, W, X, xv) -> optyx expression, f(c, w, x) -> the same formula in NumPy (complex-safe)); C: the leaves of
    the vector parameter (Parameters or Constants), W: a scalar parameter leaf, X = list(xv), xv: VectorVariable"""
    from optyx.core.functions import sin, exp
    from optyx.core import vectors as V

    def ks(n):
        return np.array([1.0 + 0.5 * i for i in range(n)])

    R = range
    return [
        ("shift-squares", lambda C, W, X, xv: _sum([(X[i] - C[i]) ** 2 for i in R(len(C))]) + W * _sum(X),
         lambda c, w, x: np.sum((x - c) ** 2) + w * np.sum(x)),
        ("coefficient", lambda C, W, X, xv: _sum([C[i] * X[i] for i in R(len(C))]) + W * xv.dot(xv),
         lambda c, w, x: np.sum(c * x) + w * np.sum(x * x)),
        ("coefficient-right", lambda C, W, X, xv: _sum([X[i] * X[i] * C[i] for i in R(len(C))]) - X[0] * W,
         lambda c, w, x: np.sum(x * x * c) - x[0] * w),
        ("hessian-entry", lambda C, W, X, xv: _sum([C[i] * X[i] * X[i] * X[(i + 1) % len(C)] for i in R(len(C))]) + W * X[0] * X[-1],
         lambda c, w, x: np.sum(c * x * x * np.roll(x, -1)) + w * x[0] * x[-1]),
        ("inside-unary", lambda C, W, X, xv: _sum([sin(C[i] * X[i]) for i in R(len(C))]) + exp(W * X[0] * 0.25),
         lambda c, w, x: np.sum(np.sin(c * x)) + np.exp(w * x[0] * 0.25)),
        ("divisor", lambda C, W, X, xv: _sum([X[i] / (C[i] * C[i] + 1.0) for i in R(len(C))]) + W,
         lambda c, w, x: np.sum(x / (c * c + 1.0)) + w),
        ("exponent", lambda C, W, X, xv: _sum([(X[i] * X[i] + 1.0) ** C[i] for i in R(len(C))]) + W * X[0],
         lambda c, w, x: np.sum((x * x + 1.0) ** c) + w * x[0]),
        ("additive-rhs", lambda C, W, X, xv: xv.sum() - _sum(list(C)) - W,
         lambda c, w, x: np.sum(x) - np.sum(c) - w),
        ("vector-expression-dot", lambda C, W, X, xv: V.DotProduct(xv, V.VectorExpression(list(C))) * W + xv.dot(xv),
         lambda c, w, x: np.sum(x * c) * w + np.sum(x * x)),
        ("lincomb-of-params", lambda C, W, X, xv: V.LinearCombination(ks(len(C)), V.VectorExpression(list(C))) * xv.sum() + W * X[0] * X[0],
         lambda c, w, x: np.sum(ks(len(c)) * c) * np.sum(x) + w * x[0] * x[0]),
        ("param-products", lambda C, W, X, xv: _sum([C[i] * C[(i + 1) % len(C)] * X[i] * X[i] for i in R(len(C))]) + W * C[0],
         lambda c, w, x: np.sum(c * np.roll(c, -1) * x * x) + w * c[0]),
        ("first-and-last-only", lambda C, W, X, xv: C[0] * X[0] ** 2 + C[-1] * X[-1] + W * xv.sum(),
         lambda c, w, x: c[0] * x[0] ** 2 + c[-1] * x[-1] + w * np.sum(x)),
    ]


# numeric forms of one value / of a whole vector (every value the generators draw is a dyadic with denominator <= 8:
# exact in float32 / float16)
def _num_form(k, v):
    v = float(v)
    integral = float(int(v)) == v
    forms = [lambda: v, lambda: int(v) if integral else v, lambda: np.float64(v), lambda: np.float32(v), lambda: np.array(v),
             lambda: np.int64(int(v)) if integral else np.float64(v), lambda: np.array([v])[0]]
    return forms[k % len(forms)]()


N_VEC_FORMS = 8


def _vec_form(k, vals):
    """-> (object handed to set(), base array to scribble over afterwards or None)"""
    vals = [float(t) for t in vals]
    k = k % N_VEC_FORMS
    if k == 0:
        return list(vals), None
    if k == 1:
        return tuple(vals), None
    if k == 2:
        a = np.array(vals, dtype=np.float64)
        return a, a
    if k == 3:
        a = np.array(vals, dtype=np.float32)
        return a, a
    if k == 4:
        if all(float(int(t)) == t for t in vals):
            a = np.array([int(t) for t in vals], dtype=np.int64)
            return a, a
        return [np.float64(t) for t in vals], None
    if k == 5:      # non-contiguous: every second entry of a longer array
        big = np.full(2 * len(vals), -44.0)
        big[::2] = vals
        return big[::2], big
    if k == 6:      # negative stride
        base = np.array(vals[::-1], dtype=np.float64)
        return base[::-1], base
    big = np.full((len(vals), 3), 66.0, order="F")   # a column of a Fortran-ordered matrix
    big[:, 1] = vals
    return big[:, 1], big


class RouteModel:
    """one model over a VectorParameter `c` (n elements), a scalar Parameter `w` and a VectorVariable `x` (n elements);
    buildable with Parameters or with Constants holding the book's values"""

    def __init__(self, spec):
        self.spec = spec
        self.n = int(spec["n"])
        rec = {t: (mk, f) for t, mk, f in route_recipes()}
        self.mk, self.f = rec[spec["recipe"]]

    def init_book(self):
        n, k = self.n, self.spec.get("init_form", 0)
        init = self.spec["init"]
        if k == 8:
            return {"c": [0.0] * n, "w": float(self.spec["w0"])}
        if k == 9:
            return {"c": [float(init[0])] * n, "w": float(self.spec["w0"])}
        return {"c": [float(t) for t in init], "w": float(self.spec["w0"])}

    def build(self, consts=None):
        """consts None -> (expr, vs, vp, w, held handles);  consts = book -> (expr, vs) with Constant leaves"""
        from optyx import VectorVariable, VectorParameter, Parameter
        from optyx.core.expressions import Constant

        n = self.n
        xv = VectorVariable("x", n)
        X = list(xv)
        if consts is not None:
            C = [Constant(float(t)) for t in consts["c"]]
            return self.mk(C, Constant(float(consts["w"])), X, xv), X
        k = self.spec.get("init_form", 0)
        init = self.spec["init"]
        if k == 8:
            vp = VectorParameter("c", n)                       # default: zeros
        elif k == 9:
            vp = VectorParameter("c", n, values=float(init[0]))  # one scalar for all
        else:
            obj, base = _vec_form(k, init)
            vp = VectorParameter("c", n, values=obj)
            if base is not None:
                base[...] = 91.0      # the caller's array is the caller's: scribbling over it must not reach the model
        w = Parameter("w", float(self.spec["w0"]))
        held = [vp[i] for i in range(n)]
        return self.mk(list(held), w, X, xv), X, vp, w, held


def route_apply(op, vp, w, held, book):
    """one update through the named API route; `book` (the harness's own copy of what it passed) is updated.
    Returns False when a deliberately ill-shaped bulk set was *accepted* (the rest of the history is then meaningless)."""
    n = len(book["c"])
    kind = op[0]
    if kind == "elem":
        _, i, v, how, form = op
        target = {"index": lambda: vp[i], "negative": lambda: vp[i - n], "held": lambda: held[i],
                  "iter": lambda: list(vp)[i]}[how]()
        target.set(_num_form(form, v))
        book["c"][i] = float(v)
    elif kind == "iter":            # for p, v in zip(vp, values): p.set(v)   (None = element left alone)
        for p, v in zip(vp, op[1]):
            if v is not None:
                p.set(_num_form(op[2], v))
        book["c"] = [float(v) if v is not None else b for v, b in zip(op[1], book["c"])]
    elif kind == "bulk":
        obj, base = _vec_form(op[2], op[1])
        vp.set(obj)
        book["c"] = [float(t) for t in op[1]]
        if base is not None:
            base[...] = 77.0
    elif kind == "bad-bulk":        # wrong length: must be rejected and change nothing
        try:
            vp.set([float(t) for t in op[1]])
        except Exception:  # noqa: BLE001
            return True
        return False
    elif kind == "w":
        w.set(_num_form(op[2], op[1]))
        book["w"] = float(op[1])
    elif kind == "read":            # read-only helpers; what they hand back is the caller's to mutate
        g = vp.get_values()
        try:
            g[...] = -55.0
        except (ValueError, TypeError):
            pass
        t = vp.to_numpy()
        try:
            t[...] = -56.0
        except (ValueError, TypeError):
            pass
        repr(vp), len(vp), [repr(p) for p in vp]
    else:
        raise ValueError(kind)
    return True


def _np_reference(f, c, w, x, want_hess):
    """value, complex-step gradient, central differences of the complex-step gradient — all on the NumPy formula"""
    c, x = np.asarray(c, dtype=float), np.asarray(x, dtype=float)
    n = len(x)
    with np.errstate(all="ignore"):
        val = float(np.real(f(c, w, x.astype(complex))))

        def grad(pt):
            g = np.zeros(n)
            for i in range(n):
                z = pt.astype(complex)
                z[i] += 1e-30j
                g[i] = np.imag(f(c, w, z)) / 1e-30
            return g

        g = grad(x)
        H = None
        if want_hess:
            H = np.zeros((n, n))
            for j in range(n):
                h = 1e-5 * (1.0 + abs(x[j]))
                e = np.zeros(n)
                e[j] = h
                H[:, j] = (grad(x + e) - grad(x - e)) / (2 * h)
            H = 0.5 * (H + H.T)
    return val, g, H


ROUTE_VALUE_KINDS = ("eval", "fn", "dict")
ROUTE_GRAD_KINDS = ("grad", "jac", "symgrad")


def run_route_history(spec, rep, stop_at_first=True):
    """executes one explicit history (JSON-able spec: recipe, n, init, init_form, w0, ops); appends failures to rep"""
    m = RouteModel(spec)
    e, vs, vp, w, held = m.build(None)
    book = m.init_book()
    art = Artefacts(e, vs)
    kept = []                       # (array a public call returned, copy taken at that moment)
    n = m.n
    n_sets = 0
    n_fail0 = len(rep.oracle_failures)

    def fail(what, k, **kw):
        d = {"what": what, "route_history": dict(spec, ops=spec["ops"][: k + 1]), "failed_at_op": k,
             "values_passed_to_set": {"c": list(book["c"]), "w": book["w"]}}
        try:
            d["get_values_reports"] = [fval(t) for t in vp.get_values()]
        except Exception as ex:  # noqa: BLE001
            d["get_values_reports"] = "raise:" + type(ex).__name__
        d.update(kw)
        rep.oracle_failures.append(d)

    for k, op in enumerate(spec["ops"]):
        if stop_at_first and len(rep.oracle_failures) > n_fail0:
            return
        if op[0] != "obs":
            try:
                if not route_apply(op, vp, w, held, book):
                    rep.skipped["route:ill-shaped bulk set accepted"] = rep.skipped.get("route:ill-shaped bulk set accepted", 0) + 1
                    return
            except Exception as ex:  # noqa: BLE001
                fail(f"update {op[0]} raised {type(ex).__name__}: {str(ex)[:120]}", k)
                return
            n_sets += op[0] in ("elem", "iter", "bulk", "w")
            continue
        _, pt, kinds = op
        env = {v.name: float(t) for v, t in zip(vs, pt)}
        want_hess = "hess" in kinds or "late" in kinds and n <= 5
        val, g, H = _np_reference(m.f, book["c"], book["w"], pt, want_hess)
        if not (tame([val]) and tame(list(g)) and (H is None or tame(list(H.ravel())))):
            rep.skipped["route:non-finite"] = rep.skipped.get("route:non-finite", 0) + 1
            continue
        ce, cvs = m.build(book)
        cart = Artefacts(ce, cvs)
        for kind in kinds:
            if stop_at_first and len(rep.oracle_failures) > n_fail0:
                return
            rep.evaluations += 1
            rep.histogram["route:" + kind] = rep.histogram.get("route:" + kind, 0) + 1
            if n_sets:
                rep.nontrivial.add(("route", spec["recipe"], spec.get("id"), k, kind))
            if kind == "values":
                # the reporting channels: get_values / to_numpy / p.value / iteration, against the book
                try:
                    got = {"get_values": [fval(t) for t in vp.get_values()], "to_numpy": [fval(t) for t in vp.to_numpy()],
                           "elements": [fval(vp[i].value) for i in range(n)], "iteration": [fval(p.value) for p in vp],
                           "held-handles": [fval(p.value) for p in held], "w": [fval(w.value)],
                           "element.evaluate": [fval(p.evaluate({})) for p in held]}
                except Exception as ex:  # noqa: BLE001
                    fail(f"reading the current parameter values raised {type(ex).__name__}", k, channel=kind)
                    continue
                for name, gv in got.items():
                    ref = [book["w"]] if name == "w" else book["c"]
                    if gv != ref:
                        fail(f"VectorParameter reports other values ({name}) than the ones passed to set()", k, channel=name,
                             got=gv, expected_from_book=list(ref))
                        break
                g_out = vp.get_values()
                kept.append((g_out, np.array(g_out, copy=True)))
                continue
            subs = [kind] if kind != "late" else (["fn", "grad"] + (["hess"] if n <= 5 else []))
            a = art if kind != "late" else Artefacts(e, vs)     # `late`: compiled only now, after the updates
            for sk in subs:
                try:
                    _, got = a.observe(sk, env)
                except Exception as ex:  # noqa: BLE001
                    fail(f"{sk} raised {type(ex).__name__}: {str(ex)[:120]}", k, channel=kind + ":" + sk, point=list(pt))
                    break
                if sk in ROUTE_VALUE_KINDS:
                    ref, rt, at = [val], 1e-9, 1e-9
                elif sk in ROUTE_GRAD_KINDS:
                    ref, rt, at = [float(t) for t in g], 1e-8, 1e-9
                else:
                    ref, rt, at = [float(t) for t in H.ravel()], 1e-5, 1e-6
                try:
                    _, fresh = cart.observe(sk, env)
                except Exception:  # noqa: BLE001
                    rep.skipped["route:constant-model-raised"] = rep.skipped.get("route:constant-model-raised", 0) + 1
                    continue
                if not tame(got) or not tame(fresh):
                    rep.skipped["route:non-finite"] = rep.skipped.get("route:non-finite", 0) + 1
                    continue
                agree = lambda u, v_: len(u) == len(v_) and all(close(p_, q_, rt, at) for p_, q_ in zip(u, v_))  # noqa: E731
                if not agree(fresh, ref):
                    # the two independent references disagree with each other: not a question of parameter updates
                    rep.skipped["route:references-disagree"] = rep.skipped.get("route:references-disagree", 0) + 1
                    continue
                if not agree(got, ref) or not (len(got) == len(fresh) and all(close(p_, q_, 1e-7, 1e-9) for p_, q_ in zip(got, fresh))):
                    fail(f"{sk}{' (compiled after the updates)' if kind == 'late' else ''} is not the value of the model at the "
                         "parameter values passed to set(): differs from NumPy on the harness's book and from a fresh Constant model",
                         k, channel=kind + ":" + sk, point=list(pt), got=got[:9], numpy_on_book=ref[:9], fresh_constant_model=fresh[:9])
                    break
        # arrays handed out earlier stay what they were
        for arr, snap in kept:
            if not np.array_equal(np.asarray(arr, dtype=float), snap):
                fail("an array returned by an earlier get_values() changed after later updates", k,
                     got=[fval(t) for t in np.asarray(arr).ravel()], was=[fval(t) for t in snap.ravel()])
                kept.clear()
                break


DYADS = [t / 4.0 for t in range(-12, 13)]


def _new_val(rng, old):
    """a value at least 0.5 away from the element's current one (a stale element must be visible); often 0 / 1 / sign flip"""
    r = rng.random()
    cand = None
    if r < 0.12:
        cand = 0.0
    elif r < 0.24:
        cand = 1.0
    elif r < 0.36:
        cand = -old
    if cand is None or abs(cand - old) < 0.5:
        cand = rng.choice([t for t in DYADS if abs(t - old) >= 0.5])
    return float(cand)


ROUTE_PATTERNS = ["elem-bulk", "bulk-elem-bulk", "iter-bulk", "each-elem-then-bulk", "elem-bulk-elem", "late-compile",
                  "bulk-only", "elem-only", "w-between", "random", "random"]


def gen_route_spec(rng, recipe, n, pattern, ident=None):
    """an explicit history along the ROUTE dimension"""
    init = [rng.choice(DYADS) for _ in range(n)]
    if rng.random() < 0.3:
        init = [rng.choice([0.0, 1.0]) for _ in range(n)]
    init_form = rng.choice([0, 2, 3, 5, 6, 7, 8, 9, 0, 2])
    spec = {"recipe": recipe, "n": n, "init": init, "init_form": init_form, "w0": rng.choice(DYADS), "pattern": pattern,
            "id": ident, "ops": []}
    book = RouteModel(spec).init_book()
    cur, ops = list(book["c"]), spec["ops"]
    wcur = [book["w"]]
    all_kinds = ["eval", "fn", "dict", "grad", "jac", "symgrad", "values", "late"] + (["hess"] if n <= 5 else [])

    def obs(full=False):
        kinds = list(all_kinds) if full else sorted(set(["values", rng.choice(ROUTE_VALUE_KINDS), rng.choice(ROUTE_GRAD_KINDS),
                                                         rng.choice(all_kinds)]))
        ops.append(["obs", [rng.randint(-16, 16) / 8 + 1 / 16 for _ in range(n)], kinds])

    def elem(i=None):
        i = rng.randint(0, n - 1) if i is None else i
        v = _new_val(rng, cur[i])
        cur[i] = v
        ops.append(["elem", i, v, rng.choice(["index", "negative", "held", "iter"]), rng.randint(0, 6)])

    def iterate(subset=False):
        vals = [(_new_val(rng, cur[i]) if (not subset or rng.random() < 0.5) else None) for i in range(n)]
        for i, v in enumerate(vals):
            if v is not None:
                cur[i] = v
        ops.append(["iter", vals, rng.randint(0, 6)])

    def bulk():
        vals = [_new_val(rng, cur[i]) for i in range(n)]
        if rng.random() < 0.25:
            vals = [float(round(v)) if abs(round(v) - cur[i]) >= 0.5 else v for i, v in enumerate(vals)]
        cur[:] = vals
        ops.append(["bulk", vals, rng.randint(0, N_VEC_FORMS - 1)])

    def wset():
        wcur[0] = _new_val(rng, wcur[0])
        ops.append(["w", wcur[0], rng.randint(0, 6)])

    def noise():
        r = rng.random()
        if r < 0.2:
            ops.append(["read"])
        elif r < 0.3:
            ops.append(["bad-bulk", [1.0] * (n + 1 if rng.random() < 0.5 or n == 1 else n - 1)])

    first = pattern != "late-compile"
    if first:
        obs(full=rng.random() < 0.5)      # artefacts compiled while the parameters hold their initial values
    if pattern == "elem-bulk":
        for _ in range(rng.randint(1, min(n, 3))):
            elem()
        noise(); obs(); bulk(); noise(); obs(full=True)
    elif pattern == "bulk-elem-bulk":
        bulk(); obs(); elem(); obs(); noise(); bulk(); obs(full=True)
    elif pattern == "iter-bulk":
        iterate(subset=rng.random() < 0.5); obs(); bulk(); obs(full=True); bulk(); obs()
    elif pattern == "each-elem-then-bulk":
        order = list(range(n)); rng.shuffle(order)
        for i in order[:8]:
            elem(i)
        obs(); bulk(); obs(full=True); wset(); bulk(); obs()
    elif pattern == "elem-bulk-elem":
        elem(); bulk(); obs(); elem(); obs(full=True); bulk(); elem(); obs()
    elif pattern == "late-compile":
        elem(); noise(); bulk(); obs(full=True); elem(); bulk(); obs()
    elif pattern == "bulk-only":
        bulk(); obs(); wset(); bulk(); obs(full=True)
    elif pattern == "elem-only":
        elem(); obs(); iterate(subset=True); obs(full=True); elem(); obs()
    elif pattern == "w-between":
        wset(); obs(); elem(); wset(); obs(); bulk(); wset(); obs(full=True)
    else:
        for _ in range(rng.randint(5, 11)):
            r = rng.random()
            if r < 0.25:
                elem()
            elif r < 0.45:
                bulk()
            elif r < 0.55:
                iterate(subset=True)
            elif r < 0.65:
                wset()
            elif r < 0.75:
                noise()
            else:
                obs()
        obs(full=True)
    return spec


ROUTE_SIZES = [1, 2, 3, 3, 4, 5, 2, 3, 11, 33]


def run_route_histories(rng, rep, n_hist, stop_at_first=False):
    recipes = route_recipes()
    for h in range(n_hist):
        tag = recipes[h % len(recipes)][0]
        n = ROUTE_SIZES[(h // len(recipes) + h) % len(ROUTE_SIZES)]
        pattern = ROUTE_PATTERNS[(h // 3 + h) % len(ROUTE_PATTERNS)] if h >= len(ROUTE_PATTERNS) else ROUTE_PATTERNS[h]
        spec = gen_route_spec(rng, tag, n, pattern, ident=h)
        rep.histogram["route-pattern:" + pattern] = rep.histogram.get("route-pattern:" + pattern, 0) + 1
        run_route_history(spec, rep)
        if rep.oracle_failures and (stop_at_first or len(rep.oracle_failures) >= 8):
            return          # every record is a concrete failing history; a handful is evidence enough


# ---- the same routes under solve(method): separable strictly convex models whose minimiser is known in closed form


def route_problem_recipes():
    """(tag, mk(C, W, X, xv) -> (objective, constraints, sense), closed form x*(c, w), objective in NumPy, methods);
    x in [-6, 6]^n, parameter values in [-3, 3]: the minimiser is separable, so clipping to the box is exact"""
    from optyx.core import vectors as V

    R = range
    clip = lambda t: np.clip(t, -6.0, 6.0)  # noqa: E731
    nlp = ["SLSQP", "trust-constr", "auto", "L-BFGS-B"]
    return [
        ("shift", lambda C, W, X, xv: (_sum([(X[i] - C[i]) ** 2 for i in R(len(C))]) + W * _sum(X), [], "min"),
         lambda c, w: clip(c - w / 2.0), lambda c, w, x: np.sum((x - c) ** 2) + w * np.sum(x), nlp),
        ("coefficient", lambda C, W, X, xv: (xv.dot(xv) + _sum([C[i] * X[i] for i in R(len(C))]) + W, [], "min"),
         lambda c, w: clip(-c / 2.0), lambda c, w, x: np.sum(x * x) + np.sum(c * x) + w, nlp),
        ("rhs", lambda C, W, X, xv: (_sum([(X[i] - 2.0) ** 2 for i in R(len(C))]), [X[i] <= C[i] for i in R(len(C))], "min"),
         lambda c, w: np.minimum(2.0, c), lambda c, w, x: np.sum((x - 2.0) ** 2), ["SLSQP", "trust-constr", "auto"]),
        ("rhs-lower", lambda C, W, X, xv: (xv.dot(xv), [X[i] - C[i] >= W * 0.0 for i in R(len(C))], "min"),
         lambda c, w: np.maximum(0.0, c), lambda c, w, x: np.sum(x * x), ["SLSQP", "trust-constr", "auto"]),
        ("maximize", lambda C, W, X, xv: (_sum([C[i] * X[i] - X[i] * X[i] for i in R(len(C))]) - W * xv.sum(), [], "max"),
         lambda c, w: clip((c - w) / 2.0), lambda c, w, x: np.sum(c * x - x * x) - w * np.sum(x), nlp),
        ("vector-expression", lambda C, W, X, xv: (xv.dot(xv) - V.DotProduct(xv, V.VectorExpression(list(C))) + W * X[0], [], "min"),
         lambda c, w: clip((c - w * np.eye(len(c))[0]) / 2.0), lambda c, w, x: np.sum(x * x) - np.sum(x * c) + w * x[0], nlp),
        ("curvature", lambda C, W, X, xv: (_sum([(C[i] * C[i] + 1.0) * X[i] * X[i] - X[i] * (W + 2.0) for i in R(len(C))]), [], "min"),
         lambda c, w: clip((w + 2.0) / (2.0 * (c * c + 1.0))), lambda c, w, x: np.sum((c * c + 1.0) * x * x - x * (w + 2.0)), nlp),
    ]


def build_route_problem(spec, consts=None):
    from optyx import VectorVariable, VectorParameter, Parameter, Problem
    from optyx.core.expressions import Constant

    n = int(spec["n"])
    rec = {t: (mk, xs, f, ms) for t, mk, xs, f, ms in route_problem_recipes()}
    mk = rec[spec["recipe"]][0]
    xv = VectorVariable("x", n, lb=-6.0, ub=6.0)
    X = list(xv)
    if consts is None:
        vp = VectorParameter("c", n, values=[float(t) for t in spec["init"]])
        w = Parameter("w", float(spec["w0"]))
        held = [vp[i] for i in range(n)]
        obj, cons, sense = mk(list(held), w, X, xv)
    else:
        vp = w = held = None
        obj, cons, sense = mk([Constant(float(t)) for t in consts["c"]], Constant(float(consts["w"])), X, xv)
    prob = Problem()
    (prob.maximize if sense == "max" else prob.minimize)(obj)
    if cons:
        prob.subject_to(cons)
    return prob, vp, w, held


def _sol_vector(s, n):
    return np.array([float(s[1].get(f"x[{i}]", float("nan"))) for i in range(n)])


def run_route_problem(spec, rep):
    """set-route / solve(method) history on one Problem; every solve against the closed-form minimiser at the book's values
    (and, before any alarm, a fresh Constant model solved by the same method must itself reach the closed form)"""
    n = int(spec["n"])
    rec = {t: (mk, xs, f, ms) for t, mk, xs, f, ms in route_problem_recipes()}
    _, xstar, f_np, _ = rec[spec["recipe"]]
    prob, vp, w, held = build_route_problem(spec)
    book = {"c": [float(t) for t in spec["init"]], "w": float(spec["w0"])}
    n_sets = 0
    for k, op in enumerate(spec["ops"]):
        if op[0] != "solve":
            try:
                if not route_apply(op, vp, w, held, book):
                    return
            except Exception as ex:  # noqa: BLE001
                rep.oracle_failures.append({"what": f"update {op[0]} raised {type(ex).__name__}", "route_problem": dict(spec, ops=spec["ops"][: k + 1]),
                                            "values_passed_to_set": dict(book)})
                return
            n_sets += 1
            continue
        method = op[1]
        rep.evaluations += 1
        rep.histogram["route-solve:" + method] = rep.histogram.get("route-solve:" + method, 0) + 1
        c, wv = np.array(book["c"]), book["w"]
        want = np.asarray(xstar(c, wv), dtype=float)
        tol = 2e-2 if method in ("trust-constr", "auto") else 2e-3
        s1 = solve_real(prob, method)
        if n_sets:
            rep.nontrivial.add(("route-problem", spec["recipe"], spec.get("id"), k))
        ok = s1[0] == "OPTIMAL"
        why = None
        if not ok:
            why = f"status {s1[0]}"
        else:
            got = _sol_vector(s1, n)
            if not (np.all(np.isfinite(got)) and float(np.max(np.abs(got - want))) <= tol):
                why = "minimiser differs from the closed form at the values passed to set()"
            else:
                # the reported objective value is the user's formula at the reported point, at the CURRENT values
                fo = float(f_np(c, wv, got))
                if s1[2] is None or abs(float(s1[2]) - fo) > 1e-6 * (1.0 + abs(fo)):
                    why = "objective_value is not the user's formula at the reported point and the values passed to set()"
        if why is None:
            continue
        # confirm with a fresh Constant model before raising an alarm (a solver that struggles is not a staleness defect)
        fresh = build_route_problem(spec, consts=book)[0]
        s2 = solve_real(fresh, method)
        fresh_ok = s2[0] == "OPTIMAL" and float(np.max(np.abs(_sol_vector(s2, n) - want))) <= tol and \
            s2[2] is not None and abs(float(s2[2]) - float(f_np(c, wv, _sol_vector(s2, n)))) <= 1e-6 * (1.0 + abs(float(s2[2])))
        if not fresh_ok:
            rep.skipped["route-problem:fresh-model-misses-closed-form-too"] = \
                rep.skipped.get("route-problem:fresh-model-misses-closed-form-too", 0) + 1
            continue
        rep.oracle_failures.append({
            "what": f"solve({method}) after updates through element / bulk routes: {why}; a fresh Constant model solved by the "
                    "same method reaches the closed form",
            "route_problem": dict(spec, ops=spec["ops"][: k + 1]), "values_passed_to_set": {"c": list(book["c"]), "w": book["w"]},
            "got": [s1[0], [fval(t) for t in _sol_vector(s1, n)] if s1[1] else None, s1[2]],
            "closed_form_minimiser": [float(t) for t in want],
            "fresh_constant_model": [s2[0], [fval(t) for t in _sol_vector(s2, n)], s2[2]]})
        return


def gen_route_problem_spec(rng, recipe, n, methods, ident=None, n_rounds=3):
    init = [rng.choice(DYADS) for _ in range(n)]
    spec = {"recipe": recipe, "n": n, "init": init, "w0": rng.choice([t for t in DYADS if abs(t) <= 2.0]), "id": ident, "ops": []}
    cur, wcur, ops = list(init), [spec["w0"]], spec["ops"]

    def elem():
        i = rng.randint(0, n - 1)
        cur[i] = _new_val(rng, cur[i])
        ops.append(["elem", i, cur[i], rng.choice(["index", "negative", "held", "iter"]), rng.randint(0, 6)])

    def bulk():
        cur[:] = [_new_val(rng, t) for t in cur]
        ops.append(["bulk", list(cur), rng.randint(0, N_VEC_FORMS - 1)])

    def solve():
        ops.append(["solve", rng.choice(methods)])

    solve()                                   # caches are filled while the parameters hold their initial values
    for r in range(n_rounds):
        shape = rng.choice(["elem-bulk", "bulk-elem", "iter-bulk", "elem-elem-bulk-elem"])
        if shape == "elem-bulk":
            elem(); solve(); bulk(); solve()
        elif shape == "bulk-elem":
            bulk(); solve(); elem(); solve()
        elif shape == "iter-bulk":
            vals = [_new_val(rng, t) if rng.random() < 0.6 else None for t in cur]
            cur[:] = [v if v is not None else t for v, t in zip(vals, cur)]
            ops.append(["iter", vals, rng.randint(0, 6)])
            if rng.random() < 0.5:
                solve()
            bulk(); solve()
        else:
            elem(); elem(); bulk(); elem(); solve()
        if rng.random() < 0.3:
            wcur[0] = _new_val(rng, wcur[0])
            wcur[0] = max(-2.0, min(2.0, wcur[0]))
            ops.append(["w", wcur[0], rng.randint(0, 6)])
    solve()
    return spec


def run_route_problems(rng, rep, n_hist, stop_at_first=False):
    recipes = route_problem_recipes()
    for h in range(n_hist):
        tag, _, _, _, methods = recipes[h % len(recipes)]
        n = [3, 2, 1, 4][(h // len(recipes)) % 4]
        run_route_problem(gen_route_problem_spec(rng, tag, n, methods, ident=h, n_rounds=2), rep)
        if rep.oracle_failures and (stop_at_first or len(rep.oracle_failures) >= 12):
            return


# ---- MatrixParameter: bulk updates in every array form; reporting channels and products against the book


N_MAT_FORMS = 7


def _mat_form(k, A):
    A = np.array(A, dtype=float)
    k = k % N_MAT_FORMS
    if k == 0:
        return A.tolist(), None
    if k == 1:
        a = np.array(A, dtype=np.float64)
        return a, a
    if k == 2:
        a = np.asfortranarray(A)
        return a, a
    if k == 3:
        base = np.array(A.T, order="C")
        return base.T, base                       # a transposed view
    if k == 4:
        a = np.array(A, dtype=np.float32)
        return a, a
    if k == 5:
        if np.all(A == np.round(A)):
            a = np.array(A, dtype=np.int64)
            return a, a
        return [tuple(r) for r in A.tolist()], None
    big = np.full((2 * A.shape[0], 2 * A.shape[1]), -33.0)
    big[::2, ::2] = A
    return big[::2, ::2], big                     # a strided block of a larger matrix


def run_matrix_history(spec, rep):
    from optyx import MatrixParameter

    r, c = spec["shape"]
    sym = bool(spec["symmetric"])
    obj, base = _mat_form(spec.get("init_form", 0), spec["init"])
    M = MatrixParameter("M", obj, symmetric=sym)
    if base is not None:
        base[...] = 91.0
    book = np.array(spec["init"], dtype=float)
    kept = []
    n_sets = 0

    def fail(what, k, **kw):
        d = {"what": what, "matrix_history": dict(spec, ops=spec["ops"][: k + 1]), "values_passed_to_set": book.tolist()}
        d.update(kw)
        rep.oracle_failures.append(d)

    for k, op in enumerate(spec["ops"]):
        if op[0] == "set":
            obj, base = _mat_form(op[2], op[1])
            try:
                M.set(obj)
            except Exception as ex:  # noqa: BLE001
                fail(f"MatrixParameter.set raised {type(ex).__name__}", k)
                return
            book = np.array(op[1], dtype=float)
            if base is not None:
                base[...] = 77.0
            n_sets += 1
            continue
        if op[0] == "bad-set":          # wrong shape / asymmetric for a symmetric parameter: rejected, nothing changes
            try:
                M.set(np.array(op[1], dtype=float))
            except Exception:  # noqa: BLE001
                continue
            rep.skipped["matrix:ill-formed set accepted"] = rep.skipped.get("matrix:ill-formed set accepted", 0) + 1
            return
        if op[0] == "scribble":         # copies handed out are the caller's
            for arr in (M.to_numpy(), M.row(0), M.col(c - 1)):
                try:
                    arr[...] = -58.0
                except (ValueError, TypeError):
                    pass
            continue
        v, u, B = np.array(op[1], dtype=float), np.array(op[2], dtype=float), np.array(op[3], dtype=float)
        rep.evaluations += 1
        rep.histogram["route:matrix-obs"] = rep.histogram.get("route:matrix-obs", 0) + 1
        if n_sets:
            rep.nontrivial.add(("matrix", spec.get("id"), k))
        try:
            chans = {
                "values": (np.asarray(M.values, dtype=float), book), "to_numpy": (np.asarray(M.to_numpy(), dtype=float), book),
                "elements": (np.array([[M[i, j] for j in range(c)] for i in range(r)], dtype=float), book),
                "rows": (np.array([M.row(i) for i in range(r)], dtype=float), book),
                "cols": (np.array([M.col(j) for j in range(c)], dtype=float).T, book),
                "M @ v": (np.asarray(M @ v, dtype=float), book @ v), "list @ M": (np.asarray(u.tolist() @ M, dtype=float), u @ book),   # (ndarray @ M never reaches __rmatmul__: NumPy's own matmul takes over — class of F21, no parameter-update matter)
                "M @ list": (np.asarray(M @ v.tolist(), dtype=float), book @ v),
                "M @ B": (np.asarray(M @ B, dtype=float), book @ B),
                "shape": (np.array(M.shape, dtype=float), np.array(book.shape, dtype=float)),
            }
        except Exception as ex:  # noqa: BLE001
            fail(f"reading a MatrixParameter raised {type(ex).__name__}: {str(ex)[:100]}", k)
            return
        for name, (got, want) in chans.items():
            if got.shape != want.shape or not np.allclose(got, want, rtol=1e-12, atol=1e-12):
                fail(f"MatrixParameter channel `{name}` is not computed from the matrix last passed to set()", k, channel=name,
                     got=got.tolist(), numpy_on_book=want.tolist())
                return
        for arr, snap in kept:
            if not np.array_equal(arr, snap):
                fail("a copy returned by an earlier to_numpy() / row() / col() changed after later updates", k,
                     got=np.asarray(arr).tolist(), was=snap.tolist())
                return
        for arr in (M.to_numpy(), M.row(r - 1), M.col(0)):
            kept.append((arr, np.array(arr, copy=True)))


def gen_matrix_spec(rng, ident=None):
    sym = rng.random() < 0.4
    r = rng.choice([1, 2, 3, 4])
    c = r if sym else rng.choice([1, 2, 3, 5])

    def mat():
        A = np.array([[rng.choice(DYADS) for _ in range(c)] for _ in range(r)])
        if rng.random() < 0.25:
            A = np.round(A)
        return ((A + A.T) / 2.0 if sym else A).tolist()

    spec = {"shape": [r, c], "symmetric": sym, "init": mat(), "init_form": rng.randint(0, N_MAT_FORMS - 1), "id": ident, "ops": []}
    ops = spec["ops"]

    def obs():
        ops.append(["obs", [rng.choice(DYADS) for _ in range(c)], [rng.choice(DYADS) for _ in range(r)],
                    [[rng.choice(DYADS) for _ in range(2)] for _ in range(c)]])

    obs()
    for _ in range(rng.randint(2, 5)):
        x = rng.random()
        if x < 0.15:
            ops.append(["bad-set", [[1.0] * (c + 1) for _ in range(r)]])
        elif x < 0.3 and sym and r > 1:
            bad = np.array(mat()); bad[0, r - 1] += 1.0
            ops.append(["bad-set", bad.tolist()])
        elif x < 0.45:
            ops.append(["scribble"])
        ops.append(["set", mat(), rng.randint(0, N_MAT_FORMS - 1)])
        obs()
    return spec


def run_matrix_histories(rng, rep, n_hist, stop_at_first=False):
    for h in range(n_hist):
        run_matrix_history(gen_matrix_spec(rng, ident=h), rep)
        if rep.oracle_failures and (stop_at_first or len(rep.oracle_failures) >= 12):
            return


# ----------------------------------------------------------------------------- model facts


def degree_facts(rng, rep, n):
    """'Parameter has no degree': every expression containing a Parameter has degree None (never LP data)"""
    from optyx.analysis import compute_degree, is_linear
    from optyx.core.expressions import Constant

    bad = 0
    for i in range(n):
        c = Case("deg", "rand", seed=rng.randint(0, 10**9), depth=rng.randint(0, 3), vector_nodes=True)
        e, _ = c.build(None)
        if compute_degree(e) is not None or is_linear(e) or isinstance(e, Constant):
            bad += 1
            rep.corr_mismatches.append({"fact": "expression with a Parameter has a polynomial degree", "seed": c.seed,
                                        "impl": compute_degree(e), "model": None})
    rep.histogram["fact:param_degree_none_checked"] = n
    return bad


# ----------------------------------------------------------------------------- entry points


def run(ctx) -> core.Report:
    rng = ctx["rng"]
    thorough = ctx["tier"] == "thorough" or ctx["escalate"]
    rep = core.Report(rule="one recipe per place a Parameter can sit (additive, coefficient, exponent, base, divisor, inside "
                           "unary, Hessian entry, bare, ...) + seeded random regular-by-construction trees (scalar fragment also "
                           "on the Lean machine; vector nodes against the constant-model oracle), each with a random history of "
                           "set / evaluate / compiled / Jacobian / Hessian calls; 7 Problem recipes with set / solve histories; "
                           "update-route histories (element / iterated / bulk sets of one VectorParameter, MatrixParameter array "
                           "forms) x all channels x solve(method), judged on the harness's own book of the values passed to set(); "
                           "non-trivial = observations made after at least one set")
    _c13.clear_lru()
    cases = []
    inits = [(1.5, -0.5), (0.0, 1.0), (1.0, 0.0), (0.0, 0.0), (1.0, 1.0)]
    for rounds in range(3 if thorough else 1):
        for tag, mk in cell_recipes():
            for init in inits:
                cases.append(Case(tag, "cell", mk=mk, init=init, pattern="derive-first"))
            cases.append(Case(tag, "cell", mk=mk, pattern="to01-then-derive"))
            cases.append(Case(tag, "cell", mk=mk, init=rng.choice(inits), pattern="random"))

    # parameters that are elements of a VectorParameter (set through vp.set(list / float64 / float32 / int array)),
    # extreme magnitudes and numeric types of the values, chains deeper than the recursion threshold
    import optyx.core.compiler as _C
    thr = _C._RECURSION_THRESHOLD
    for j, (tag, mk) in enumerate(cell_recipes()):
        cases.append(Case(tag, "cell", mk=mk, init=inits[j % len(inits)], pattern="derive-first", vparam=True))
        cases.append(Case(tag, "cell", mk=mk, pattern="extreme", vparam=(j % 2 == 0)))
    for depth in ([thr + 5] if not thorough else [thr - 1, thr, thr + 1, thr + 5, 2 * thr + 100]):
        for far_end in ("param", "vector", "plain"):
            cases.append(Case(f"deep:{depth}:{far_end}", "deep", mk=(depth, far_end), init=inits[len(cases) % len(inits)],
                              pattern="derive-first", vparam=(far_end == "vector")))

    # Parameter × vector-node shapes at / near the root (the `jacobian_row` shortcuts of the vector classes and of BinaryOp)
    k = 0
    for stag, shape in vector_shapes():
        for ptag, place in placements():
            k += 1
            reps = [("derive-first", inits[k % len(inits)])]
            if thorough:
                reps += [("to01-then-derive", (1.5, -0.5)), ("random", inits[(k + 2) % len(inits)])]
            for pat, init in reps:
                cases.append(Case(f"vec:{stag}:{ptag}", "vec", mk=(shape, place), init=init, pattern=pat, vparam=(k % 4 == 0)))

    def rinit():
        return (rng.choice(PV), rng.choice(PV)) if rng.random() < 0.5 else rng.choice(inits)

    def rpat():
        return rng.choice(["random", "derive-first", "to01-then-derive"])

    for i in range(1200 if thorough else 220):
        cases.append(Case("rand-scalar", "rand", seed=rng.randint(0, 10**9), depth=rng.randint(1, 4), vector_nodes=False,
                          init=rinit(), pattern=rpat()))
    for i in range(600 if thorough else 110):
        cases.append(Case("rand-vector", "rand", seed=rng.randint(0, 10**9), depth=rng.randint(1, 3), vector_nodes=True,
                          init=rinit(), pattern=rpat()))
    n_ops = 40 if thorough else 12
    metas = []
    try:
        for c in cases:
            r = run_expression_case(c, rng, rep, lean_ok=(c.tag != "rand-vector" and c.kind not in ("vec", "deep")),
                                    n_ops=rng.randint(4, n_ops) if c.kind not in ("vec", "deep") else 2)
            if r is not None and r[0] is not None:
                metas.append(r)
        degree_facts(rng, rep, 400 if thorough else 120)
        dtype_probe(rep)
        run_problem_histories(rng, rep, 220 if thorough else 55, n_ops)
        # the ROUTE dimension: element-wise / iterated / bulk updates of one VectorParameter (MatrixParameter: bulk in every
        # array form) interleaved with every observation channel and with solve(method); judged on the harness's own book
        run_route_histories(rng, rep, 396 if thorough else 132)
        run_matrix_histories(rng, rep, 200 if thorough else 40)
        run_route_problems(rng, rep, 84 if thorough else 21)
    finally:
        _c13.clear_lru()
    outs = run_lean_unit([m[0] for m in metas])
    compare_with_model(rep, metas, outs)
    for m in metas[:3]:
        rep.samples.append({"case": m[2][0].tag, "line": m[0][:300]})
    return rep


def search(ctx, rep):
    rng = core.Rng(ctx["seed"] + 32452843)
    tmp = core.Report()
    # first: the cases on which model and implementation disagreed — rebuilt and driven through every history pattern, every
    # pair of initial values incl. 0 / 1, many points, against the fresh-constant-model oracle
    recipes = dict(cell_recipes())
    inits = [(1.5, -0.5), (0.0, 1.0), (1.0, 0.0), (0.0, 0.0), (1.0, 1.0), (-2.0, 3.0)]
    seen = set()
    for mm in rep.corr_mismatches[:60]:
        tag, seed = mm.get("case"), mm.get("seed")
        if tag is None or (tag, seed) in seen:
            continue
        seen.add((tag, seed))
        for init in inits:
            for pat in ("derive-first", "to01-then-derive", "random", "extreme"):
                for vparam in (False, True):
                    if tag in recipes:
                        c = Case(tag, "cell", mk=recipes[tag], init=init, pattern=pat, vparam=vparam)
                    elif seed is not None:
                        c = Case(tag, "rand", seed=seed, depth=3, vector_nodes=(tag == "rand-vector"), init=init, pattern=pat)
                    else:
                        continue
                    for _ in range(3):
                        run_expression_case(c, rng, tmp, lean_ok=False, n_ops=rng.randint(4, 14))
                        if tmp.oracle_failures:
                            return tmp.oracle_failures[0]
    # then the update-ROUTE families (element / iterated / bulk sets of one VectorParameter, MatrixParameter forms, solves)
    run_route_histories(rng, tmp, 600, stop_at_first=True)
    if not tmp.oracle_failures:
        run_matrix_histories(rng, tmp, 200, stop_at_first=True)
    if not tmp.oracle_failures:
        run_route_problems(rng, tmp, 42, stop_at_first=True)
    if tmp.oracle_failures:
        return tmp.oracle_failures[0]
    # then the Parameter × vector-shape family around every placement
    for stag, shape in vector_shapes():
        for ptag, place in placements():
            c = Case(f"vec:{stag}:{ptag}", "vec", mk=(shape, place), init=rng.choice(inits), pattern="derive-first")
            run_expression_case(c, rng, tmp, lean_ok=False, n_ops=3)
            if tmp.oracle_failures:
                return tmp.oracle_failures[0]
    for i in range(3000):
        c = Case("rand", "rand", seed=rng.randint(0, 10**9), depth=rng.randint(1, 4), vector_nodes=(i % 2 == 0),
                 init=(rng.choice(PV), rng.choice(PV)), pattern=rng.choice(["random", "derive-first", "to01-then-derive"]))
        run_expression_case(c, rng, tmp, lean_ok=False, n_ops=rng.randint(4, 16))
        if tmp.oracle_failures:
            return tmp.oracle_failures[0]
    run_problem_histories(rng, tmp, 100, 14)
    return tmp.oracle_failures[0] if tmp.oracle_failures else None


def replay(payload) -> bool:
    f = payload["failure"]
    rep = core.Report()
    if f.get("dtype_probe"):
        dtype_probe(rep)
        print(rep.oracle_failures[:3])
        return not rep.oracle_failures
    for key, runner in (("route_history", run_route_history), ("route_problem", run_route_problem),
                        ("matrix_history", run_matrix_history)):
        if key in f:
            runner(f[key], rep)
            for r in rep.oracle_failures[:3]:
                print({k: v for k, v in r.items() if k != key})
            return not rep.oracle_failures
    if "problem_history" in f:
        tag = f["recipe"]
        mk = dict(problem_recipes())[tag]
        hist0 = f["problem_history"]
        init = tuple(hist0[0][1:3]) if hist0 and hist0[0][0] == "init" else (1.5, -0.5)
        prob, params, _ = build_problem(mk, None, init)
        ok = True
        for op in hist0:
            if op[0] == "init":
                continue
            if op[0] == "set":
                params[op[1]].set(op[2])
            else:
                cur = [float(p.value) for p in params]
                s1 = solve_real(prob, op[1])
                s2 = solve_real(build_problem(mk, cur)[0], op[1])
                print(op, s1, s2)
                if s1[0] != s2[0]:
                    ok = False
                elif s1[0] == "OPTIMAL" and max([abs(s1[1][k] - s2[1][k]) for k in s1[1]] or [0.0]) > 1e-2:
                    ok = False
        return ok
    init = tuple(f.get("init", (1.5, -0.5)))
    if f.get("kind") == "deep":
        case = Case(f["case"], "deep", mk=tuple(f["deep"]), init=init, vparam=bool(f.get("vparam")))
    elif f.get("kind") == "vec":
        _, stag, ptag = f["case"].split(":", 2)
        case = Case(f["case"], "vec", mk=(dict(vector_shapes())[stag], dict(placements())[ptag]), init=init,
                    vparam=bool(f.get("vparam")))
    elif f.get("kind") == "cell":
        case = Case(f["case"], "cell", mk=dict(cell_recipes())[f["case"]], init=init, vparam=bool(f.get("vparam")))
    else:
        case = Case(f["case"], "rand", seed=f["seed"], depth=f.get("depth", 3), vector_nodes=f.get("vector_nodes", False),
                    init=init)
    e, params = case.build(None)
    vs = vars_of(e)
    art = Artefacts(e, vs)
    ok = True
    for op in f.get("history", []):
        if op[0] == "set":
            case.apply_set(params, op[1], op[2], 0)
            continue
        kind, env = op[0], op[1]
        try:
            _, vals = art.observe(kind, env)
        except ZeroDivisionError:
            print(kind, "ZeroDivisionError: excluded singular point (a Parameter divisor is 0)")
            continue
        except Exception as ex:  # noqa: BLE001
            print(kind, "raised", type(ex).__name__, ex)
            ok = False
            continue
        ce, _ = case.build([float(p.value) for p in params])
        _, cvals = Artefacts(ce, vars_of(ce)).observe(kind, env)
        same = len(vals) == len(cvals) and all(close(a, b, 1e-7, 1e-9) or not (math.isfinite(a) and math.isfinite(b))
                                               for a, b in zip(vals, cvals))
        print(kind, vals[:6], cvals[:6], "ok" if same else "DIFFERENT")
        ok = ok and same
    return ok
