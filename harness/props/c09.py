"""C09 — nonlinear solves are a transparent wrapper over SciPy.

Tie:    the `minimize` seam (`optyx.solvers.scipy_solver.minimize`) is spied: the method actually
        chosen, which optional arguments are passed (jac / hess / bounds / constraints), the
        starting point `x0` (exact rationals) and the dispatch of `Problem.solve` are compared with
        the Lean model (`autosel`, `route`, `gate`, `x0` of Optyx.Py.ScipyArgs — the definitions the
        C09 theorems are about); the captured callables (fun, jac, hess, each constraint's fun/jac)
        are probed at random points against *hand-written* NumPy closures from the generator.
        Third family (`check_glue`): random problems over every node kind; the real
        `_build_solver_cache(problem, V)` for the problem's own order, permutations and supersets V is
        compared entry by entry (objective, gradient, closure kind, each constraint's type / fun / jac at
        points) with the Lean model `Py.Glue.buildSolverCache` — the definition `scipy_inputs_faithful`
        is about, itself driven by the glue tables regenerated from the source — and with the harness's
        own interpreter / dual numbers.
        Fourth family (`check_open_side`): the SPELLING of an open side of a variable's bounds — None, or an
        explicit infinity (np.inf, float('inf'), math.inf, np.float64, np.float32; negated for the lower side) — at
        construction (`Variable(.., lb=, ub=)`) or assigned (`v.lb = ..`), in all four open / finite combinations,
        mixed inside one problem, and re-spelled / removed / restored between solves of the same Problem; default
        start only.  The start handed to SciPy must be finite and inside the declared box (and is compared with
        `Py.initialPoint` of the bounds with every infinite side open), the bounds handed over must be the declared
        ones, and the differential below must hold.
        Fifth family (`param_position_family`): a Parameter as exponent / base / coefficient / divisor / addend inside a
        power, with a structurally special VALUE (0, 1, 2, −1) when the derivatives are first built (first solve, first
        gradient() / compile_gradient of the expression object) or reached later; p.set(other) between stages, re-solve of
        the same Problem or a brand-new Problem around the SAME expression object; every stage judged at the current value
        (reference optimum by bisection; fun / jac / hess handed to SciPy vs hand-written ones and central differences).
Oracle: the property's differential — generated strictly convex problems (QP and smooth
        non-quadratic; equalities / inequalities / bounds, active or not) with a manufactured
        optimum x*, solved through optyx and by raw SciPy with the hand-written callables from the
        same start: raw converges ⇒ optyx OPTIMAL, feasible, and f(x_optyx) − f(x*) ≤ tol.
"""
from __future__ import annotations

import warnings

import numpy as np

import core
from ser import rat, q

LEAN_MODULE = "Optyx.Props.C09b"
EXTRA_MODULES = ["Optyx.Props.PinsC09", "Optyx.Props.BuildTie", "Optyx.Props.ClosurePathTie", "Optyx.Props.SymbolicJacTie", "Optyx.Props.CompileEntryTie", "Optyx.Props.ScaledTie"]   # transcription anchors (harness/source_pins.py)
THEOREMS = [
    "Optyx.Props.C09b.scipy_inputs_faithful",
    "Optyx.Props.C09b.compiled_pair_faithful",
    "Optyx.Props.C09b.scipy_hessian_faithful",
    "Optyx.Props.C09b.con_sign_meaning",
    "Optyx.Props.C09b.reported_objective",
    "Optyx.Props.Dispatch.autoSelect_eq_generated",
    "Optyx.Props.Dispatch.route_eq_generated",
    "Optyx.Props.Glue.glue_sources",
    "Optyx.Props.Glue.glue_call_site",
    "Optyx.Props.Glue.conRow_table",
    "Optyx.Props.Glue.scipyConstraint_agrees",
    "Optyx.Props.C09.initialPoint_in_bounds",
    "Optyx.Props.C09.autoSelect_lbfgsb_iff",
    "Optyx.Props.C09.autoSelect_trust_iff",
    "Optyx.Props.C09.route_lp_iff",
    "Optyx.Props.C09.gate_table",
    "Optyx.Props.C09.maximize_sign",
    "Optyx.Props.BuildTie.compile_step",
    "Optyx.Props.BuildTie.compileVec_step",
    "Optyx.Props.ClosurePathTie.powerGradient_path",
    "Optyx.Props.ClosurePathTie.unaryGradient_path",
    "Optyx.Props.ClosurePathTie.compileGradient_path",
    "Optyx.Props.ClosurePathTie.compileHessian_path",
    "Optyx.Props.ClosurePathTie.compileJacobian_path",
    "Optyx.Props.SymbolicJacTie.computeJacobian_eq",
    "Optyx.Props.SymbolicJacTie.computeHessian_eq",
    "Optyx.Props.CompileEntryTie.compileExpression_eq",
    "Optyx.Props.CompileEntryTie.param_run",
    "Optyx.Props.ScaledTie.scaledEntry_eq",
    "Optyx.Props.ScaledTie.scaledLoop_step",
    "Optyx.Props.ScaledTie.scaledPattern_frame",
    "Optyx.Props.PinsC09.anchors",
]
ASSUMPTIONS = [
    "convergence behaviour of scipy.optimize.minimize is trusted / tested, not proved: partial in that sense",
    "the compiled callables compute the expression / its derivatives in the declared order: properties C01, C03, C17; constraint dictionaries: C10",
]
LEVEL = "proof"


# ------------------------------------------------------------------ problem family with manufactured optimum


def gen_problem(rng):
    """strictly convex f, linear constraints, bounds; KKT holds at xstar by construction"""
    n = rng.randint(2, 4)
    xstar = np.array([rng.randint(-8, 8) / 4 for _ in range(n)])
    full_q = rng.random() < 0.4
    if full_q:
        L = np.array([[rng.randint(-2, 2) / 2 for _ in range(n)] for _ in range(n)])
        Q = L.T @ L + np.eye(n) * rng.choice([1.0, 2.0])
    else:
        Q = np.diag([rng.choice([0.5, 1.0, 2.0, 3.0]) for _ in range(n)])
    nonquad = rng.random() < 0.5
    w = np.array([rng.choice([0.0, 0.5, 1.0]) for _ in range(n)]) if nonquad else np.zeros(n)
    # constraints
    cons = []  # (a, sense, rhs, active?)
    grad_needed = np.zeros(n)  # ∇f(x*) must equal this
    k = rng.choice([0, 0, 1, 2, 2, 3])
    for _ in range(k):
        a = np.array([float(rng.randint(-2, 2)) for _ in range(n)])
        if not a.any():
            a[rng.randrange(n)] = 1.0
        sense = rng.choice(["<=", ">=", "=="])
        val = float(a @ xstar)
        active = sense == "==" or rng.random() < 0.5
        if sense == "==":
            rhs = val
            grad_needed -= a * rng.choice([-1.5, -0.5, 0.5, 1.0])
        elif sense == "<=":
            rhs = val if active else val + rng.choice([0.5, 1.0, 2.0])
            if active:
                grad_needed -= a * rng.choice([0.5, 1.0, 2.0])  # ∇f = −μ a, μ > 0
        else:
            rhs = val if active else val - rng.choice([0.5, 1.0, 2.0])
            if active:
                grad_needed += a * rng.choice([0.5, 1.0, 2.0])
        cons.append((a, sense, float(rhs)))
    # keep equality rows independent enough for the solvers
    eq = [c[0] for c in cons if c[1] == "=="]
    if len(eq) >= 2 and np.linalg.matrix_rank(np.array(eq)) < len(eq):
        return gen_problem(rng)
    bounds = []
    for i in range(n):
        r = rng.random()
        if r < 0.45:
            bounds.append((None, None))
        elif r < 0.75:
            bounds.append((float(xstar[i] - rng.choice([1.0, 2.0])), float(xstar[i] + rng.choice([1.0, 3.0]))))
        elif r < 0.88:  # active lower bound: needs ∂f/∂x_i > 0 there
            bounds.append((float(xstar[i]), float(xstar[i] + 2.0)))
            grad_needed[i] += rng.choice([0.5, 1.0])
        else:  # active upper bound
            bounds.append((float(xstar[i] - 2.0), float(xstar[i])))
            grad_needed[i] -= rng.choice([0.5, 1.0])
    # f(x) = ½ (x−a)ᵀQ(x−a) + Σ w_i (exp(x_i − x*_i) − (x_i − x*_i));  ∇f(x*) = Q(x*−a)
    a_vec = xstar - np.linalg.solve(Q, grad_needed)
    is_max = rng.random() < 0.4
    return {"n": n, "Q": Q, "a": a_vec, "w": w, "xstar": xstar, "cons": cons, "bounds": bounds,
            "is_max": is_max, "full_q": full_q}


def hand_f(p):
    Q, a, w, xs = p["Q"], p["a"], p["w"], p["xstar"]

    def f(x):
        d = x - a
        with np.errstate(all="ignore"):   # derivative-free methods probe far away: exp may overflow to inf
            return float(0.5 * d @ Q @ d + np.sum(w * (np.exp(x - xs) - (x - xs))))

    def g(x):
        return Q @ (x - a) + w * (np.exp(x - xs) - 1.0)

    def h(x):
        return Q + np.diag(w * np.exp(x - xs))

    return f, g, h


def build_optyx(rng, p):
    from optyx import Problem, VectorVariable
    from optyx.core.functions import exp
    from optyx.core.matrices import QuadraticForm

    n = p["n"]
    x = VectorVariable("x", n)
    for v, (lb, ub) in zip(x, spelled_bounds(p)):
        v.lb, v.ub = lb, ub
    Q, a, w, xs = p["Q"], p["a"], p["w"], p["xstar"]
    if p["full_q"]:
        # ½ xᵀQx − (Qa)ᵀx + ½ aᵀQa
        quad = 0.5 * QuadraticForm(x, Q) if rng.random() < 0.5 else 0.5 * x.dot(Q @ x)
        f = quad - np.asarray(Q @ a) @ x + float(0.5 * a @ Q @ a)
    else:
        f = None
        for i in range(n):
            t = (0.5 * float(Q[i, i])) * (x[i] - float(a[i])) ** 2
            f = t if f is None else f + t
    for i in range(n):
        if w[i] != 0:
            f = f + float(w[i]) * (exp(x[i] - float(xs[i])) - (x[i] - float(xs[i])))
    P = Problem()
    if p["is_max"]:
        P.maximize(-f)
    else:
        P.minimize(f)
    for a_row, sense, rhs in p["cons"]:
        lhs = np.asarray(a_row) @ x if rng.random() < 0.5 else sum(
            (float(c) * x[i] for i, c in enumerate(a_row) if c != 0), 0.0 * x[0])
        P.subject_to(lhs <= rhs if sense == "<=" else lhs >= rhs if sense == ">=" else lhs.eq(rhs))
    return P, x


def initial_point(bounds):
    """independent re-statement of the documented start rule"""
    x0 = []
    for lb, ub in bounds:
        if lb is not None and ub is not None:
            x0.append(min(lb + max(1e-4, 0.01 * (ub - lb)), (lb + ub) / 2))
        elif lb is not None:
            x0.append(lb + 1e-4)
        elif ub is not None:
            x0.append(ub - 1.0)
        else:
            x0.append(0.0)
    return np.array(x0)


def raw_solve(p, method, x0):
    from scipy.optimize import minimize

    f, g, h = hand_f(p)
    cons = []
    for a_row, sense, rhs in p["cons"]:
        a_row = np.asarray(a_row)
        if sense == "<=":
            cons.append({"type": "ineq", "fun": lambda x, a=a_row, r=rhs: float(r - a @ x), "jac": lambda x, a=a_row: -a})
        elif sense == ">=":
            cons.append({"type": "ineq", "fun": lambda x, a=a_row, r=rhs: float(a @ x - r), "jac": lambda x, a=a_row: a})
        else:
            cons.append({"type": "eq", "fun": lambda x, a=a_row, r=rhs: float(a @ x - r), "jac": lambda x, a=a_row: a})
    bnds = [(lb if lb is not None else -np.inf, ub if ub is not None else np.inf) for lb, ub in p["bounds"]]
    kw = dict(fun=f, x0=x0, method=method)
    if method not in ("Nelder-Mead", "Powell", "COBYLA"):
        kw["jac"] = g
    if method in ("L-BFGS-B", "TNC", "SLSQP", "Powell", "trust-constr", "Nelder-Mead"):
        kw["bounds"] = bnds
    if cons:
        kw["constraints"] = cons
    if method in ("trust-constr", "Newton-CG", "dogleg", "trust-ncg", "trust-exact"):
        kw["hess"] = h
    with warnings.catch_warnings():
        warnings.simplefilter("ignore")
        return minimize(**kw)


class MinimizeSpy:
    def __enter__(self):
        import optyx.solvers.scipy_solver as S

        self.S = S
        self.real = S.minimize
        self.calls = []

        def spy(*a, **kw):
            self.calls.append(kw)
            return self.real(*a, **kw)

        S.minimize = spy
        return self

    def __exit__(self, *a):
        self.S.minimize = self.real


def feasible(p, x, tol=1e-5):
    for a_row, sense, rhs in p["cons"]:
        v = float(np.asarray(a_row) @ x)
        if sense == "<=" and v > rhs + tol * (1 + abs(rhs)): return False
        if sense == ">=" and v < rhs - tol * (1 + abs(rhs)): return False
        if sense == "==" and abs(v - rhs) > tol * (1 + abs(rhs)): return False
    for xi, (lb, ub) in zip(x, p["bounds"]):
        if lb is not None and xi < lb - tol: return False
        if ub is not None and xi > ub + tol: return False
    return True


def degree_text(d):
    return "none" if d is None else str(int(d))


def check_problem(rng, p, rep, lines, metas, methods):
    from optyx.analysis import compute_degree

    P, xv = build_optyx(rng, p)
    f, g, h = hand_f(p)
    fstar = f(p["xstar"])
    x0_expected = initial_point(p["bounds"])
    has_cons = bool(p["cons"])
    has_eq = any(sn == "==" for _, sn, _ in p["cons"])
    # every `method=` string: the four default ones always, plus a rotating pair of the others that fit the problem
    extra = ["BFGS", "CG", "Newton-CG", "TNC", "Nelder-Mead", "Powell"] if not has_cons else ([] if has_eq else ["COBYLA"])
    methods = list(methods) + (rng.sample(extra, min(2, len(extra))) if len(methods) > 1 else [])
    for method in methods:
        if method == "L-BFGS-B" and has_cons:
            continue
        # the start: the documented default, or a user-supplied x0 (a random point, the optimum itself, a bound corner)
        x0_kind = rng.choice(["default", "default", "random", "optimum", "corner"])
        if x0_kind == "default":
            x0_user = None
        elif x0_kind == "random":
            x0_user = p["xstar"] + np.array([rng.randint(-8, 8) / 8 for _ in range(p["n"])])
        elif x0_kind == "optimum":
            x0_user = np.array(p["xstar"], dtype=float)
        else:
            x0_user = np.array([lb if lb is not None else (ub if ub is not None else 0.0) for lb, ub in p["bounds"]], dtype=float)
        rep.histogram["x0:" + x0_kind] = rep.histogram.get("x0:" + x0_kind, 0) + 1
        with MinimizeSpy() as spy:
            with warnings.catch_warnings():
                warnings.simplefilter("ignore")
                try:
                    s = P.solve(method=method) if x0_user is None else P.solve(method=method, x0=x0_user.copy())
                except Exception as ex:  # noqa: BLE001
                    rep.oracle_failures.append({"what": f"solve(method={method}) raised {type(ex).__name__}: {ex}"[:300],
                                                "problem": dump(p), "method": method})
                    continue
        rep.evaluations += 1
        if not spy.calls:
            rep.corr_mismatches.append({"what": "minimize was never called", "problem": dump(p), "method": method})
            continue
        kw = spy.calls[0]
        used = kw["method"]
        rep.histogram["method:" + used] = rep.histogram.get("method:" + used, 0) + 1
        # ---- Lean: route / autosel / gate / x0
        od = compute_degree(P.objective)
        cds = [compute_degree(c.expr) for c in P.constraints]
        lin = P._is_linear_problem()
        lines.append(f"route {q(method)} {'true' if lin else 'false'} {degree_text(od)} (" +
                     " ".join(degree_text(d) for d in cds) + ")")
        metas.append(("route", "nlp:" + used, p, method))
        lines.append(f"gate {q(used)} true {p['n']} {len(p['cons'])}")
        metas.append(("gate", " ".join(str(b).lower() for b in (kw.get("jac") is not None, kw.get("hess") is not None,
                                                                 kw.get("bounds") is not None,
                                                                 bool(kw.get("constraints")))), p, method))
        if x0_user is None:
            lines.append("x0 (" + " ".join("(" + ("none" if lb is None else rat(lb)) + " " + ("none" if ub is None else rat(ub)) + ")"
                                           for lb, ub in p["bounds"]) + ")")
            metas.append(("x0", kw["x0"], p, method))
        elif not np.array_equal(np.asarray(kw["x0"], dtype=float), x0_user):
            rep.oracle_failures.append({"what": "the user's x0 is not the start handed to SciPy", "problem": dump(p),
                                        "method": method, "x0": x0_user.tolist(), "got": np.asarray(kw["x0"]).tolist()})
        # ---- captured callables vs hand-written closures at random points
        sgn = -1.0 if p["is_max"] else 1.0   # optyx maximises −f, i.e. hands SciPy −(−f) = f
        for _ in range(3):
            pt = p["xstar"] + np.array([rng.randint(-6, 6) / 8 for _ in range(p["n"])])
            ok = abs(kw["fun"](pt) - f(pt)) <= 1e-9 * (1 + abs(f(pt)))
            if kw.get("jac") is not None:
                ok = ok and np.allclose(kw["jac"](pt), g(pt), rtol=1e-9, atol=1e-9)
            if kw.get("hess") is not None:
                ok = ok and np.allclose(kw["hess"](pt), h(pt), rtol=1e-9, atol=1e-9)
            for cd, (a_row, sense, rhs) in zip(kw.get("constraints") or [], p["cons"]):
                a_row = np.asarray(a_row)
                want = (rhs - a_row @ pt) if sense == "<=" else (a_row @ pt - rhs)
                wantj = -a_row if sense == "<=" else a_row
                ok = ok and cd["type"] == ("eq" if sense == "==" else "ineq")
                ok = ok and abs(cd["fun"](pt) - want) <= 1e-9 * (1 + abs(want))
                ok = ok and np.allclose(cd["jac"](pt), wantj, rtol=1e-9, atol=1e-12)
            if not ok:
                rep.oracle_failures.append({"what": "a callable handed to SciPy differs from the hand-written model "
                                                    "(objective / gradient / Hessian / constraint function or Jacobian)",
                                            "problem": dump(p), "method": method, "point": pt.tolist()})
                break
        if kw.get("bounds") is not None:
            want_b = [(lb if lb is not None else -np.inf, ub if ub is not None else np.inf) for lb, ub in p["bounds"]]
            if [tuple(b) for b in kw["bounds"]] != want_b:
                rep.oracle_failures.append({"what": "bounds handed to SciPy differ from the declared bounds",
                                            "problem": dump(p), "method": method})
        # ---- the differential
        raw = raw_solve(p, used, x0_expected if x0_user is None else x0_user.copy())
        raw_gap = f(raw.x) - fstar
        # "raw converged" must mean: to a point optyx's own acceptance test (violation ≤ 1e-6·(1+…), C06) would also
        # accept — derivative-free methods stop at points that violate a constraint by 1e-6 … 1e-5, which optyx
        # (rightly) reports as INFEASIBLE
        raw_ok = bool(raw.success) and feasible(p, raw.x, tol=5e-7) and raw_gap <= 1e-4 * (1 + abs(fstar))
        rep.histogram["raw_converged" if raw_ok else "raw_not_converged"] = \
            rep.histogram.get("raw_converged" if raw_ok else "raw_not_converged", 0) + 1
        if raw_ok:
            xo = np.array([s.values.get(v.name, np.nan) for v in xv]) if s.values else np.full(p["n"], np.nan)
            gap = f(xo) - fstar if np.all(np.isfinite(xo)) else np.inf
            tol = max(1e-4 * (1 + abs(fstar)), 10 * abs(raw_gap))
            obj_ok = s.objective_value is not None and abs((-s.objective_value if p["is_max"] else s.objective_value) - f(xo)) <= 1e-7 * (1 + abs(f(xo)))
            if not (s.status.name == "OPTIMAL" and feasible(p, xo) and gap <= tol and obj_ok):
                rep.oracle_failures.append({
                    "what": "raw SciPy converged to the manufactured optimum but optyx did not report it",
                    "problem": dump(p), "method": method, "optyx_status": s.status.name,
                    "optyx_gap": float(gap), "raw_gap": float(raw_gap), "message": s.message[:120]})
    # ---- a later solve of the same Problem object after a bound was edited (solves are repeated
    #      in practice; the optimum moves, the reference is raw SciPy on the edited problem)
    if rng.random() < 0.6:
        i = rng.randrange(p["n"])
        lb, ub = p["bounds"][i]
        if rng.random() < 0.5:
            ub = float(p["xstar"][i] - 0.5)
            lb = None if lb is None or lb >= ub else lb
        else:
            lb = float(p["xstar"][i] + 0.5)
            ub = None if ub is None or ub <= lb else ub
        p2 = dict(p)
        p2["bounds"] = list(p["bounds"])
        p2["bounds"][i] = (lb, ub)
        list(xv)[i].lb, list(xv)[i].ub = lb, ub
        x0_2 = initial_point(p2["bounds"])
        for method in [m for m in methods if not (m == "L-BFGS-B" and has_cons)][:2]:
            with MinimizeSpy() as spy:
                with warnings.catch_warnings():
                    warnings.simplefilter("ignore")
                    try:
                        s2 = P.solve(method=method)
                    except Exception as ex:  # noqa: BLE001
                        rep.oracle_failures.append({"what": f"re-solve after a bound edit raised {type(ex).__name__}: {ex}"[:300],
                                                    "problem": dump(p), "edited_bounds": p2["bounds"], "method": method})
                        continue
            rep.evaluations += 1
            used = spy.calls[0]["method"] if spy.calls else method
            raw2 = raw_solve(p2, used, x0_2)
            raw2_ok = bool(raw2.success) and feasible(p2, raw2.x, tol=5e-7)
            rep.histogram["resolve_raw_ok" if raw2_ok else "resolve_raw_not_ok"] = \
                rep.histogram.get("resolve_raw_ok" if raw2_ok else "resolve_raw_not_ok", 0) + 1
            if raw2_ok:
                xo = np.array([s2.values.get(v.name, np.nan) for v in xv]) if s2.values else np.full(p["n"], np.nan)
                fo = f(xo) if np.all(np.isfinite(xo)) else np.inf
                fr = f(raw2.x)
                if not (s2.status.name == "OPTIMAL" and feasible(p2, xo) and fo <= fr + 1e-4 * (1 + abs(fr))):
                    rep.oracle_failures.append({
                        "what": "after editing a bound, raw SciPy on the edited problem converged but the re-solve through "
                                "the same Problem object did not report that optimum",
                        "problem": dump(p), "edited_bounds": p2["bounds"], "method": method,
                        "optyx_status": s2.status.name, "optyx_f": float(fo), "raw_f": float(fr)})
    key = (p["n"], p["is_max"], len(p["cons"]), tuple(p["xstar"].tolist()), tuple(np.diag(p["Q"]).tolist()))
    rep.nontrivial.add(hash(key))
    if len(rep.samples) < 3:
        rep.samples.append(dump(p))


def dump(p):
    d = {"n": p["n"], "Q": p["Q"].tolist(), "a": p["a"].tolist(), "w": p["w"].tolist(),
         "xstar": p["xstar"].tolist(), "cons": [(a.tolist(), s, r) for a, s, r in p["cons"]],
         "bounds": p["bounds"], "is_max": p["is_max"], "full_q": p["full_q"]}
    if p.get("spell"):
        d["spell"] = [list(t) for t in p["spell"]]     # how each side is written (names, not values: JSON-safe)
    return d


def undump(d):
    p = {"n": d["n"], "Q": np.array(d["Q"]), "a": np.array(d["a"]), "w": np.array(d["w"]),
         "xstar": np.array(d["xstar"]), "cons": [(np.array(a), s, float(r)) for a, s, r in d["cons"]],
         "bounds": [tuple(b) for b in d["bounds"]], "is_max": d["is_max"], "full_q": d["full_q"]}
    if d.get("spell"):
        p["spell"] = [tuple(t) for t in d["spell"]]
    return p


def compare_lean(rep, lines, metas):
    outs = core.run_lean(lines)
    for (kind, real, p, method), model in zip(metas, outs):
        if kind == "x0":
            real = np.asarray(real, dtype=float).reshape(-1)
            # a non-finite start has no rational spelling: reported as a mismatch below (never a crash of the run)
            want = "(" + " ".join(rat(v) if np.isfinite(v) else repr(float(v)) for v in real.tolist()) + ")"
            # the model is exact; the code computes in doubles: compare numerically at 1 ulp scale
            from fractions import Fraction
            mv = [float(Fraction(t)) for t in model.strip("()").split()]
            ok = len(mv) == len(real) and all(abs(a - b) <= 1e-12 * (1 + abs(b)) for a, b in zip(mv, real))
            if not ok:
                rep.corr_mismatches.append({"what": "x0 differs from Py.initialPoint", "impl": want, "model": model,
                                            "problem": dump(p)})
        elif real != model:
            rep.corr_mismatches.append({"what": f"{kind} differs from the model", "impl": real, "model": model,
                                        "method": method, "problem": dump(p)})


METHODS = ["auto", "SLSQP", "trust-constr", "L-BFGS-B"]


# ------------------------------------------------------------------ second family: bare vectorised objectives
# objective = exactly (x ** k).sum() (k even: convex) or sum(exp(x)) — the node kinds with their own vectorised
# gradient / Hessian closures — over a vector x plus extra scalar variables that occur only in constraints /
# bounds and sort BEFORE or AFTER x in the problem's variable order.  No manufactured optimum: the reference is
# raw SciPy with hand-written callables in the same (natural) variable order.


def check_vector_objective(rng, rep, methods):
    from optyx import Problem, Variable, VectorVariable
    from optyx.core.vectors import VectorUnarySum

    n = rng.randint(2, 4)
    kind = rng.choice(["pow2", "pow4", "exp"])
    pre = rng.choice([[], ["a"], ["a", "b"], ["a"]])      # sort before "x"
    post = rng.choice([[], ["z"], []])                      # sort after "x"
    x = VectorVariable("x", n, lb=-4.0, ub=4.0)
    extra = {nm: Variable(nm, lb=1.0, ub=float(rng.choice([3, 5]))) for nm in pre + post}
    names = sorted(list(extra)[:len(pre)]) + [f"x[{i}]" for i in range(n)] + sorted(list(extra)[len(pre):])
    xi = [names.index(f"x[{i}]") for i in range(n)]
    obj = (x ** 2).sum() if kind == "pow2" else (x ** 4).sum() if kind == "pow4" else VectorUnarySum(x, "exp")
    is_max = False
    P = Problem().minimize(obj)
    cons_raw = []
    # couple the extra variables to x:  Σx − Σextra >= s   (keeps x away from the unconstrained optimum)
    if extra:
        sh = float(rng.choice([0.0, 0.5, 1.0]))
        lhs = x.sum()
        for v in extra.values():
            lhs = lhs - v
        P.subject_to(lhs >= sh)
        ei = [names.index(nm) for nm in extra]
        g = np.zeros(len(names)); g[xi] = 1.0; g[ei] = -1.0
        cons_raw.append({"type": "ineq", "fun": lambda v, g=g, sh=sh: float(g @ v - sh), "jac": lambda v, g=g: g})
    if rng.random() < 0.5:
        w = np.array([float(rng.randint(1, 3)) for _ in range(n)])
        r = float(rng.choice([1.0, 2.0]))
        P.subject_to(w @ x >= r)
        g2 = np.zeros(len(names)); g2[xi] = w
        cons_raw.append({"type": "ineq", "fun": lambda v, g=g2, r=r: float(g @ v - r), "jac": lambda v, g=g2: g})
    bounds = [(1.0, extra[nm].ub) if nm in extra else (-4.0, 4.0) for nm in names]

    def f(v):
        xv = v[xi]
        return float(np.sum(xv ** 2) if kind == "pow2" else np.sum(xv ** 4) if kind == "pow4" else np.sum(np.exp(xv)))

    def grad(v):
        out = np.zeros(len(names)); xv = v[xi]
        out[xi] = 2 * xv if kind == "pow2" else 4 * xv ** 3 if kind == "pow4" else np.exp(xv)
        return out

    def hess(v):
        out = np.zeros((len(names), len(names))); xv = v[xi]
        d = np.full(n, 2.0) if kind == "pow2" else 12 * xv ** 2 if kind == "pow4" else np.exp(xv)
        out[xi, xi] = d
        return out

    from scipy.optimize import minimize as sp_minimize
    x0 = initial_point(bounds)
    for method in methods:
        if method == "L-BFGS-B" and cons_raw:
            continue
        with MinimizeSpy() as spy:
            with warnings.catch_warnings():
                warnings.simplefilter("ignore")
                try:
                    s = P.solve(method=method)
                except Exception as ex:  # noqa: BLE001
                    rep.oracle_failures.append({"what": f"solve(method={method}) raised {type(ex).__name__}: {ex}"[:300],
                                                "vector_objective": [kind, n, pre, post], "method": method})
                    continue
        rep.evaluations += 1
        if not spy.calls:
            continue
        kw = spy.calls[0]
        used = kw["method"]
        rep.histogram["vecobj:" + kind + ":" + used] = rep.histogram.get("vecobj:" + kind + ":" + used, 0) + 1
        # captured callables vs hand-written ones, in the problem's variable order
        ok = [v.name for v in P.variables] == names
        for _ in range(3):
            pt = np.array([rng.randint(-12, 12) / 8 + 0.0625 for _ in names])
            ok = ok and abs(kw["fun"](pt) - f(pt)) <= 1e-9 * (1 + abs(f(pt)))
            if kw.get("jac") is not None:
                ok = ok and np.allclose(kw["jac"](pt), grad(pt), rtol=1e-9, atol=1e-9)
            if kw.get("hess") is not None:
                ok = ok and np.allclose(kw["hess"](pt), hess(pt), rtol=1e-9, atol=1e-9)
        if not ok:
            rep.oracle_failures.append({"what": "a callable handed to SciPy differs from the hand-written model "
                                                "(vectorised objective with extra variables)",
                                        "vector_objective": [kind, n, pre, post], "method": method, "names": names})
            continue
        kwr = dict(fun=f, x0=x0, method=used, jac=grad, bounds=bounds, constraints=cons_raw if cons_raw else ())
        if used == "trust-constr":
            kwr["hess"] = hess
        with warnings.catch_warnings():
            warnings.simplefilter("ignore")
            raw = sp_minimize(**kwr)
        feas = all(c["fun"](raw.x) >= -1e-6 for c in cons_raw)
        if raw.success and feas:
            xo = np.array([s.values.get(nm, np.nan) for nm in names]) if s.values else np.full(len(names), np.nan)
            fo = f(xo) if np.all(np.isfinite(xo)) else np.inf
            feas_o = np.all(np.isfinite(xo)) and all(c["fun"](xo) >= -1e-5 for c in cons_raw)
            if not (s.status.name == "OPTIMAL" and feas_o and fo <= f(raw.x) + 2e-3 * (1 + abs(f(raw.x)))):
                rep.oracle_failures.append({"what": "raw SciPy converged but optyx did not report that optimum "
                                                    "(vectorised objective with extra variables)",
                                            "vector_objective": [kind, n, pre, post], "method": method,
                                            "optyx": [s.status.name, float(fo)], "raw_f": float(f(raw.x))})
    rep.nontrivial.add(hash(("vecobj", kind, n, tuple(pre), tuple(post))))




def check_magnitude_objective(rng, rep, methods):
    """coefficient MAGNITUDES (checklist 1) in a solved NLP: tiny (<= 1e-8) or huge multiplicative constants on terms that
    still decide the optimum because the variables are large / small — `c·x**k − b·x` written in every operand order.
    The callables handed to SciPy must be the hand-written f, ∇f, ∇²f, and the reported optimum the analytic one."""
    from optyx import Problem, Variable
    from optyx.core.expressions import Constant

    n = rng.randint(1, 3)
    k = rng.choice([2, 3, 4])
    scale = rng.choice([1e-9, 3e-10, 1e-8, 5e-9, 1e-12, 1e8, 3e9, 1.0 + 1e-9, 1.0 - 5e-9])
    cs = [scale * rng.choice([1.0, 2.0, 0.5]) for _ in range(n)]
    big = scale < 1e-3
    # optimum of c x^k − b x on x > 0:  x* = (b / (k c))^(1/(k−1))
    xs = [float(rng.choice([400.0, 630.0, 1000.0])) if big else (float(rng.choice([1e-3, 2e-3])) if scale > 1e3 else float(rng.choice([0.75, 1.5])))
          for _ in range(n)]
    bs = [k * c * x ** (k - 1) for c, x in zip(cs, xs)]
    ub = 4.0 * max(xs)
    vs = [Variable(f"m{i}", lb=0.0, ub=ub) for i in range(n)]
    form = rng.choice(["c*x**k", "x**k*c", "Constant(c)*x**k", "(x**k)*Constant(c)", "x**k/(1/c)"])
    terms = []
    for c, b, v in zip(cs, bs, vs):
        pw = v ** k
        t = {"c*x**k": lambda: c * pw, "x**k*c": lambda: pw * c, "Constant(c)*x**k": lambda: Constant(c) * pw,
             "(x**k)*Constant(c)": lambda: pw * Constant(c), "x**k/(1/c)": lambda: pw / (1.0 / c)}[form]()
        terms.append(t - b * v)
    obj = terms[0]
    for t in terms[1:]:
        obj = obj + t
    is_max = rng.random() < 0.4
    P = Problem().maximize(-obj) if is_max else Problem().minimize(obj)
    ca, ba = np.array(cs), np.array(bs)
    f = lambda x: float(np.sum(ca * x ** k - ba * x))
    g = lambda x: k * ca * x ** (k - 1) - ba
    h = lambda x: np.diag(k * (k - 1) * ca * x ** (k - 2))
    desc = {"n": n, "k": k, "scale": scale, "form": form, "is_max": is_max, "cs": cs, "xstar": xs}
    for method in methods:
        with MinimizeSpy() as spy:
            with warnings.catch_warnings():
                warnings.simplefilter("ignore")
                try:
                    s = P.solve(method=method)
                except Exception as ex:  # noqa: BLE001
                    rep.oracle_failures.append({"what": f"solve(method={method}) raised {type(ex).__name__}: {ex}"[:300],
                                                "magnitude_objective": desc, "method": method})
                    continue
        rep.evaluations += 1
        if not spy.calls:
            continue
        kw = spy.calls[0]
        rep.histogram["magobj:" + kw["method"]] = rep.histogram.get("magobj:" + kw["method"], 0) + 1
        sgn = -1.0 if is_max else 1.0      # optyx minimises −objective under maximize; objective = −obj there: same function
        bad = None
        for _ in range(4):
            pt = np.array([x * rng.choice([0.25, 0.5, 1.0, 1.5, 2.0]) for x in xs])
            fv, gv, hv = f(pt), g(pt), h(pt)
            if abs(kw["fun"](pt) - fv) > 1e-9 * float(np.sum(np.abs(ca * pt ** k) + np.abs(ba * pt))):
                bad = ("fun", float(kw["fun"](pt)), fv)
            elif kw.get("jac") is not None and not np.all(np.abs(np.asarray(kw["jac"](pt)) - gv)
                                                          <= 1e-9 * (np.abs(k * ca * pt ** (k - 1)) + np.abs(ba))):  # scale of the terms that cancel
                bad = ("jac", np.asarray(kw["jac"](pt)).tolist(), gv.tolist())
            elif kw.get("hess") is not None and not np.allclose(kw["hess"](pt), hv, rtol=1e-9, atol=1e-9 * np.abs(hv).max()):
                bad = ("hess", np.asarray(kw["hess"](pt)).tolist(), hv.tolist())
            if bad:
                rep.oracle_failures.append({"what": f"the `{bad[0]}` callable handed to SciPy differs from the hand-written "
                                                    "derivative of the user's objective (tiny / huge coefficient)",
                                            "magnitude_objective": desc, "method": method, "point": pt.tolist(),
                                            "got": bad[1], "want": bad[2]})
                break
        del sgn
    rep.nontrivial.add(hash(("magobj", n, k, scale, form, is_max)))

# ------------------------------------------------------------------ fifth family: Parameters in structurally special positions
# A Parameter p as EXPONENT (x ** p), BASE (p ** x), COEFFICIENT (p * x**2), DIVISOR (x**2 / p) or ADDEND inside a power
# ((x + p) ** 2) of a separable strictly convex objective  Σ (x_i − a_i)² + w·t(x_i, p)  on a positive box (optionally
# under one linear constraint Σx ≤ s, or one constraint Σ t(x_i, p) ≤ s that contains the Parameter itself), whose VALUE
# is structurally special (0, 1, 2, −1) at the time the derivatives are first built — the first solve, or the first
# gradient() of that expression object — or becomes special later; between the stages p.set(other), then a re-solve of
# the SAME Problem or a brand-new Problem around the SAME expression object.  Every stage is judged at the CURRENT
# parameter value: (a) the property — raw SciPy with the hand-written f / ∇f / ∇²f converges to the optimum computed
# independently by (nested) bisection on the monotone derivative ⇒ optyx OPTIMAL within tolerance; (b) the callables
# handed to SciPy: fun / jac / hess and each constraint's fun / jac against the hand-written ones, and jac against
# central differences of the very `fun` handed over (hess against central differences of `jac`).

PARAM_POSITIONS = {
    # name: (special values, ordinary values, t, dt/dx, d²t/dx², "t is convex in x on x > 0 for this value")
    "exponent": ([0.0, 2.0, 1.0, -1.0], [3.0, 1.5, 4.0, 2.5],
                 lambda x, p: x ** p, lambda x, p: p * x ** (p - 1.0), lambda x, p: p * (p - 1.0) * x ** (p - 2.0),
                 lambda p: p >= 1.0 or p <= 0.0),
    "base": ([1.0, 2.0], [3.0, 0.5, 1.5, 2.5],
             lambda x, p: p ** x, lambda x, p: np.log(p) * p ** x, lambda x, p: np.log(p) ** 2 * p ** x,
             lambda p: True),
    "coefficient": ([0.0, 2.0, 1.0, -1.0], [3.0, 0.5, -2.0, 1.5],
                    lambda x, p: p * x ** 2, lambda x, p: 2.0 * p * x, lambda x, p: 2.0 * p + 0.0 * x,
                    lambda p: p >= 0.0),
    "divisor": ([1.0, 2.0, -1.0], [4.0, 0.5, -2.0, 3.0],
                lambda x, p: x ** 2 / p, lambda x, p: 2.0 * x / p, lambda x, p: 2.0 / p + 0.0 * x,
                lambda p: p > 0.0),
    "addend": ([0.0, 2.0, 1.0, -1.0], [3.0, 0.5, -2.0, 1.5],
               lambda x, p: (x + p) ** 2, lambda x, p: 2.0 * (x + p), lambda x, p: 2.0 + 0.0 * x,
               lambda p: True),
}
PARAM_W = 0.25     # Σ (x−a)² + ¼·t : second derivative ≥ 2 − ¼·2·|p| > 0 for every value above ⇒ strictly convex


def param_term(position, x, p):
    """the optyx spelling of t(x, p): x a Variable, p the Parameter OBJECT"""
    return {"exponent": lambda: x ** p, "base": lambda: p ** x, "coefficient": lambda: p * x ** 2,
            "divisor": lambda: x ** 2 / p, "addend": lambda: (x + p) ** 2}[position]()


def gen_param_history(rng, position=None, first=None):
    """`position` / `first` (the special value the sweep starts at) may be fixed by the caller (stratification)"""
    position = position or rng.choice(list(PARAM_POSITIONS))
    special, ordinary = PARAM_POSITIONS[position][:2]
    n = rng.randint(1, 3)
    shape = "special-first" if first is not None else rng.choice(["special-first", "special-first", "special-later", "special-twice"])
    if shape == "special-first":       # a sweep that STARTS at the special value
        vals = [rng.choice(special) if first is None else first] + rng.sample(ordinary, rng.choice([1, 2]))
    elif shape == "special-later":     # a sweep that REACHES it
        vals = rng.sample(ordinary, rng.choice([1, 2])) + [rng.choice(special)] + [rng.choice(ordinary)]
    else:
        s2 = rng.sample(special, 2)
        vals = [s2[0], rng.choice(ordinary), s2[1]]
    con = rng.choice(["none", "none", "linear", "param"])
    convex = PARAM_POSITIONS[position][5]
    if con == "param" and not all(convex(v) for v in vals):
        con = "linear"
    return {"position": position, "n": n, "values": vals, "shape": shape,
            "a": [rng.randint(6, 20) / 4 for _ in range(n)], "lb": 0.25, "ub": float(rng.choice([6.0, 8.0])),
            "constraint": con, "tight": rng.choice([0.6, 0.8]),
            "is_max": rng.random() < 0.4,
            "first_touch": rng.choice(["solve", "solve", "gradient", "compile_gradient"]),
            "reuse": [rng.choice(["re-solve", "fresh-problem"]) for _ in vals]}


def _bisect(fun, lo, hi, iters=60):
    """root of an increasing function on [lo, hi], clipped to the interval"""
    if fun(lo) >= 0:
        return lo
    if fun(hi) <= 0:
        return hi
    for _ in range(iters):
        mid = 0.5 * (lo + hi)
        if fun(mid) < 0:
            lo = mid
        else:
            hi = mid
    return 0.5 * (lo + hi)


def param_reference(d, pv, s):
    """the optimum at parameter value pv, by bisection on monotone derivatives only (no solver, no optyx)"""
    _, _, t, dt, _, _ = PARAM_POSITIONS[d["position"]]
    a, lb, ub, con = np.array(d["a"]), d["lb"], d["ub"], d["constraint"]
    c = (lambda x: x) if con == "linear" else (lambda x: t(x, pv))
    dc = (lambda x: 1.0) if con == "linear" else (lambda x: dt(x, pv))

    def x_of(lam):
        return np.array([_bisect(lambda x, ai=ai: 2.0 * (x - ai) + PARAM_W * dt(x, pv) + (lam * dc(x) if lam else 0.0), lb, ub)
                         for ai in a])

    x = x_of(0.0)
    if con == "none" or float(np.sum(c(x))) <= s:
        return x
    hi = 1.0
    while float(np.sum(c(x_of(hi)))) > s and hi < 1e6:
        hi *= 2.0
    lam = _bisect(lambda l: s - float(np.sum(c(x_of(l)))), 0.0, hi)
    return x_of(lam)


def param_rhs(d):
    """the constant right-hand side of the constraint: a fraction of the constraint value at the unconstrained optimum of
    the FIRST stage, raised (if needed) so that every stage keeps a strictly feasible point"""
    if d["constraint"] == "none":
        return None
    _, _, t, _, _, _ = PARAM_POSITIONS[d["position"]]
    d0 = dict(d, constraint="none")
    c = (lambda x, pv: float(np.sum(x))) if d["constraint"] == "linear" else (lambda x, pv: float(np.sum(t(x, pv))))
    s = d["tight"] * c(param_reference(d0, d["values"][0], None), d["values"][0])
    inner = np.full(d["n"], d["lb"] + 0.25)
    for pv in d["values"]:
        lo = min(c(inner, pv), c(np.full(d["n"], d["ub"] - 0.25), pv), c(np.full(d["n"], 1.0), pv))
        s = max(s, lo + 0.5)
    return float(s)


def run_param_history(d, rep, methods):
    """deterministic in `d`: build ONE expression object, then the stages"""
    from optyx import Parameter, Problem, Variable
    from scipy.optimize import minimize as sp_minimize

    position, n, lb, ub, con, is_max = d["position"], d["n"], d["lb"], d["ub"], d["constraint"], d["is_max"]
    _, _, t, dt, d2t, _ = PARAM_POSITIONS[position]
    a = np.array(d["a"])
    s_rhs = param_rhs(d)
    xs = [Variable(f"u{i}", lb=lb, ub=ub) for i in range(n)]
    par = Parameter("pp", d["values"][0])
    expr = None
    for i in range(n):
        term = (xs[i] - float(a[i])) ** 2 + PARAM_W * param_term(position, xs[i], par)
        expr = term if expr is None else expr + term
    obj_expr = -expr if is_max else expr      # ONE object for every Problem of the history
    con_expr = None
    if con == "linear":
        con_expr = sum(xs[1:], xs[0]) <= s_rhs
    elif con == "param":
        ce = None
        for i in range(n):
            ce = param_term(position, xs[i], par) if ce is None else ce + param_term(position, xs[i], par)
        con_expr = ce <= s_rhs

    def new_problem():
        P = Problem().maximize(obj_expr) if is_max else Problem().minimize(obj_expr)
        if con_expr is not None:
            P.subject_to(con_expr)
        return P

    def fail(what, stage, pv, method, **kw):
        rep.oracle_failures.append({"what": what, "param_position": d, "stage": stage, "parameter_value_now": pv,
                                    "parameter_values_so_far": d["values"][:stage + 1], "method": method, **kw})

    n0 = len(rep.oracle_failures)
    with warnings.catch_warnings():
        warnings.simplefilter("ignore")
        try:
            if d["first_touch"] == "gradient":
                from optyx.core.autodiff import gradient
                for v in xs:
                    gradient(obj_expr, v)
                    if con_expr is not None:
                        gradient(con_expr.expr, v)
            elif d["first_touch"] == "compile_gradient":
                from optyx.core.compiler import compile_gradient
                compile_gradient(obj_expr, xs)
        except Exception as ex:  # noqa: BLE001
            fail(f"the first gradient of the objective raised {type(ex).__name__}: {ex}"[:300], 0, d["values"][0], None)
            return
    P = new_problem()
    bounds = [(lb, ub)] * n
    x0 = initial_point(bounds)
    mids = [np.full(n, lb) + (ub - lb) * fr * (1.0 + 0.07 * np.arange(n)) for fr in (0.11, 0.37, 0.61)]
    for stage, pv in enumerate(d["values"]):
        par.set(pv)
        if stage > 0 and d["reuse"][stage] == "fresh-problem":
            P = new_problem()
        f = lambda x, pv=pv: float(np.sum((x - a) ** 2 + PARAM_W * t(x, pv)))
        g = lambda x, pv=pv: 2.0 * (x - a) + PARAM_W * dt(x, pv)
        h = lambda x, pv=pv: np.diag(2.0 + PARAM_W * d2t(x, pv))
        cons_raw = []
        if con == "linear":
            cons_raw = [{"type": "ineq", "fun": lambda x: float(s_rhs - np.sum(x)), "jac": lambda x: -np.ones(n)}]
        elif con == "param":
            cons_raw = [{"type": "ineq", "fun": lambda x, pv=pv: float(s_rhs - np.sum(t(x, pv))),
                         "jac": lambda x, pv=pv: -dt(x, pv) * np.ones(n)}]
        xref = param_reference(d, pv, s_rhs)
        fref = f(xref)
        for method in methods:
            if method == "L-BFGS-B" and cons_raw:
                continue
            with MinimizeSpy() as spy:
                with warnings.catch_warnings():
                    warnings.simplefilter("ignore")
                    try:
                        sol = P.solve(method=method)
                    except Exception as ex:  # noqa: BLE001
                        fail(f"solve(method={method}) raised {type(ex).__name__}: {ex}"[:300], stage, pv, method)
                        continue
            rep.evaluations += 1
            if not spy.calls:
                continue
            kw = spy.calls[0]
            used = kw["method"]
            key = f"param:{position}:{'special' if pv in PARAM_POSITIONS[position][0] else 'ordinary'}@{min(stage, 1)}"
            rep.histogram[key] = rep.histogram.get(key, 0) + 1
            # ---- (b) the callables handed to SciPy, at the CURRENT parameter value
            bad = None
            for pt in mids:
                eps = 1e-5
                fv = float(kw["fun"](pt))
                if not np.isfinite(fv) or abs(fv - f(pt)) > 1e-9 * (1.0 + float(np.sum(np.abs((pt - a) ** 2) + np.abs(PARAM_W * t(pt, pv))))):
                    bad = ("fun", fv, f(pt)); break
                if kw.get("jac") is not None:
                    gv = np.asarray(kw["jac"](pt), dtype=float)
                    fd = np.array([(kw["fun"](pt + eps * e) - kw["fun"](pt - eps * e)) / (2 * eps) for e in np.eye(n)])
                    scale = 1.0 + np.abs(2.0 * (pt - a)) + np.abs(PARAM_W * dt(pt, pv))
                    if not np.all(np.abs(gv - fd) <= 1e-5 * scale):
                        bad = ("jac (vs central differences of the `fun` handed to SciPy)", gv.tolist(), fd.tolist()); break
                    if not np.all(np.abs(gv - g(pt)) <= 1e-9 * scale):
                        bad = ("jac", gv.tolist(), g(pt).tolist()); break
                    if kw.get("hess") is not None:
                        hv = np.asarray(kw["hess"](pt), dtype=float)
                        hfd = np.array([(np.asarray(kw["jac"](pt + eps * e)) - np.asarray(kw["jac"](pt - eps * e))) / (2 * eps)
                                        for e in np.eye(n)])
                        hs = 1.0 + np.abs(h(pt)).max()
                        if hv.shape != (n, n) or not np.all(np.abs(hv - hfd) <= 1e-5 * hs * (1.0 + np.abs(g(pt)).max())):
                            bad = ("hess (vs central differences of the `jac` handed to SciPy)", hv.tolist(), hfd.tolist()); break
                        if not np.all(np.abs(hv - h(pt)) <= 1e-9 * hs):
                            bad = ("hess", hv.tolist(), h(pt).tolist()); break
                for cd, cr in zip(kw.get("constraints") or [], cons_raw):
                    cv, cw = float(cd["fun"](pt)), cr["fun"](pt)
                    if abs(cv - cw) > 1e-9 * (1.0 + abs(cw) + abs(s_rhs)):
                        bad = ("constraint fun", cv, cw); break
                    jv, jw = np.asarray(cd["jac"](pt), dtype=float).reshape(-1), cr["jac"](pt)
                    if jv.shape != jw.shape or not np.all(np.abs(jv - jw) <= 1e-9 * (1.0 + np.abs(jw))):
                        bad = ("constraint jac", jv.tolist(), jw.tolist()); break
                if bad:
                    break
            if bad:
                fail(f"the `{bad[0]}` handed to SciPy is not the derivative / value of the user's model at the CURRENT "
                     "parameter value (Parameter in a special position, special value when the derivatives were first built)",
                     stage, pv, method, point=np.asarray(pt).tolist(), got=bad[1], want=bad[2])
            # ---- (a) the property
            kwr = dict(fun=f, x0=x0, method=used, jac=g, bounds=bounds, constraints=cons_raw if cons_raw else ())
            if used == "trust-constr":
                kwr["hess"] = h
            with warnings.catch_warnings():
                warnings.simplefilter("ignore")
                try:
                    raw = sp_minimize(**kwr)
                except Exception:  # noqa: BLE001
                    continue
            tol = 1e-4 * (1.0 + abs(fref))
            feas = lambda x, tl: all(cr["fun"](x) >= -tl * (1.0 + abs(s_rhs)) for cr in cons_raw) and \
                bool(np.all(x >= lb - tl) and np.all(x <= ub + tl))
            raw_gap = f(raw.x) - fref
            raw_ok = bool(raw.success) and feas(raw.x, 5e-7) and raw_gap <= tol
            hk = "param_raw_converged" if raw_ok else "param_raw_not_converged"
            rep.histogram[hk] = rep.histogram.get(hk, 0) + 1
            if raw_ok:
                xo = np.array([sol.values.get(v.name, np.nan) for v in xs]) if sol.values else np.full(n, np.nan)
                finite = bool(np.all(np.isfinite(xo)))
                gap = f(xo) - fref if finite else np.inf
                obj_ok = finite and sol.objective_value is not None and \
                    abs((-sol.objective_value if is_max else sol.objective_value) - f(xo)) <= 1e-7 * (1.0 + abs(f(xo)))
                if not (sol.status.name == "OPTIMAL" and finite and feas(xo, 1e-5) and gap <= max(tol, 10 * abs(raw_gap)) and obj_ok):
                    fail("raw SciPy (hand-written f, exact gradient, same bounds / constraint / start, CURRENT parameter value) "
                         "converged to the optimum found by bisection but optyx did not report it",
                         stage, pv, method, optyx_status=sol.status.name, optyx_gap=repr(float(gap)), raw_gap=float(raw_gap),
                         x_optyx=xo.tolist(), x_reference=xref.tolist(), optyx_objective=repr(sol.objective_value),
                         message=str(sol.message)[:120])
        if len(rep.oracle_failures) > n0:
            break       # later stages of a broken history add nothing
    rep.nontrivial.add(hash(("param", position, n, tuple(d["values"]), con, is_max, d["first_touch"], tuple(d["reuse"]))))


def param_position_family(rng, rep, n_cases, methods, stop_at_first=False):
    """stratified: the positions in turn; in every other round the sweep STARTS at a special value, the special values
    of each position in turn (from a random offset); the remaining rounds draw shape and values freely"""
    names = list(PARAM_POSITIONS)
    off = rng.randrange(4)
    for i in range(n_cases):
        position, k = names[i % len(names)], i // len(names)
        first = None
        if k % 2 == 0:
            special = PARAM_POSITIONS[position][0]
            first = special[(k // 2 + off) % len(special)]
        run_param_history(gen_param_history(rng, position, first), rep, methods)
        if stop_at_first and rep.oracle_failures:
            return


# ------------------------------------------------------------------ fourth family: how an OPEN side of the bounds is written
# `p["bounds"]` keeps the MEANING (None = open side); `p["spell"]` says how every side is written in the model:
# "finite", "none", or one of the explicit infinities below (negated for a lower side).  A model that writes an open
# side as ±inf is the same problem as one that writes None: SciPy users write bounds that way, and optyx itself hands
# SciPy ±inf for None.  Only INACTIVE sides are opened / closed / re-spelled, so the manufactured optimum stays.

INF_SPELLINGS = ["np.inf", "float", "math.inf", "np.float64", "np.float32"]


def _inf_value(name):
    import math

    return {"np.inf": np.inf, "float": float("inf"), "math.inf": math.inf, "np.float64": np.float64("inf"),
            "np.float32": np.float32("inf")}[name]


def spelled_bounds(p):
    """the bounds as the model writes them"""
    if not p.get("spell"):
        return list(p["bounds"])
    out = []
    for (lb, ub), (sl, su) in zip(p["bounds"], p["spell"]):
        out.append((lb if sl == "finite" else None if sl == "none" else -_inf_value(sl),
                    ub if su == "finite" else None if su == "none" else _inf_value(su)))
    return out


def gen_open_side_problem(rng):
    """a manufactured-optimum problem whose variables have open / finite sides in all four combinations, every open
    side written as None or as an explicit infinity (at least one explicit infinity per problem)"""
    p = gen_problem(rng)
    xs = p["xstar"]
    sem = []
    for i, (lb, ub) in enumerate(p["bounds"]):
        if lb is None and ub is None:
            # free variable: stays free, or gets inactive finite sides (one-sided and two-sided boxes)
            if rng.random() < 0.35:
                lb = float(xs[i] - rng.choice([1.0, 2.0, 0.25]))
            if rng.random() < 0.35:
                ub = float(xs[i] + rng.choice([1.0, 3.0, 0.25]))
        else:
            # inactive finite sides are opened with probability ½ (an active side decides the optimum: kept)
            if lb != xs[i] and rng.random() < 0.5:
                lb = None
            if ub != xs[i] and rng.random() < 0.5:
                ub = None
        sem.append((lb, ub))
    if all(lb is not None and ub is not None for lb, ub in sem):
        i = rng.randrange(p["n"])
        lb, ub = sem[i]
        side = rng.choice([s for s, b in (("lb", lb), ("ub", ub)) if b != xs[i]])
        sem[i] = (None, ub) if side == "lb" else (lb, None)
    spell = [["finite" if lb is not None else rng.choice(["none"] + INF_SPELLINGS + ["np.inf"]),
              "finite" if ub is not None else rng.choice(["none"] + INF_SPELLINGS + ["np.inf"])] for lb, ub in sem]
    open_sides = [(i, k) for i, t in enumerate(spell) for k in (0, 1) if t[k] != "finite"]
    if all(spell[i][k] == "none" for i, k in open_sides):
        i, k = rng.choice(open_sides)
        spell[i][k] = rng.choice(INF_SPELLINGS)
    p["bounds"] = sem
    p["spell"] = [tuple(t) for t in spell]
    return p


def gen_open_side_edit(rng, p):
    """an assignment to ONE inactive side between two solves: a finite cap removed by assigning an infinity, a None
    re-written as an infinity, an infinity re-written as None / another infinity / replaced by an inactive finite cap"""
    xs = p["xstar"]
    i = rng.randrange(p["n"])
    sides = [k for k in (0, 1) if p["bounds"][i][k] is None or p["bounds"][i][k] != xs[i]]
    k = rng.choice(sides)
    now = p["spell"][i][k]
    if now in ("finite", "none"):
        to = rng.choice(INF_SPELLINGS)
    else:
        to = rng.choice(["none", "finite", "finite"] + [s for s in INF_SPELLINGS if s != now][:2])
    val = None
    if to == "finite":
        val = float(xs[i] + (1 if k else -1) * rng.choice([1.0, 2.5, 0.5]))
    return {"var": i, "side": "ub" if k else "lb", "spell": to, "value": val}


def apply_open_side_edit(p, edit):
    p2 = dict(p)
    b, sp = [list(t) for t in p["bounds"]], [list(t) for t in p["spell"]]
    k = 1 if edit["side"] == "ub" else 0
    b[edit["var"]][k] = edit["value"] if edit["spell"] == "finite" else None
    sp[edit["var"]][k] = edit["spell"]
    p2["bounds"], p2["spell"] = [tuple(t) for t in b], [tuple(t) for t in sp]
    return p2


def build_optyx_scalars(p):
    """the same model from scalar Variables whose bounds are given AT CONSTRUCTION"""
    from optyx import Problem, Variable
    from optyx.core.functions import exp

    n = p["n"]
    x = [Variable(f"s{i}", lb=lb, ub=ub) for i, (lb, ub) in enumerate(spelled_bounds(p))]
    Q, a, w, xs = p["Q"], p["a"], p["w"], p["xstar"]
    f = None
    for i in range(n):
        for j in range(i, n):
            if Q[i, j] == 0:
                continue
            t = (0.5 * float(Q[i, i])) * (x[i] - float(a[i])) ** 2 if i == j else \
                float(Q[i, j]) * ((x[i] - float(a[i])) * (x[j] - float(a[j])))     # Q symmetric: the two off-diagonal halves
            f = t if f is None else f + t
    for i in range(n):
        if w[i] != 0:
            f = f + float(w[i]) * (exp(x[i] - float(xs[i])) - (x[i] - float(xs[i])))
    P = Problem()
    if p["is_max"]:
        P.maximize(-f)
    else:
        P.minimize(f)
    for a_row, sense, rhs in p["cons"]:
        lhs = sum((float(c) * x[i] for i, c in enumerate(a_row) if c != 0), 0.0 * x[0])
        P.subject_to(lhs <= rhs if sense == "<=" else lhs >= rhs if sense == ">=" else lhs.eq(rhs))
    return P, x


def _open_side_solve(P, xv, p, orig, desc, phase, method, rep, lines, metas):
    """one default-start solve of the model whose CURRENT bounds are `p`; `orig` + `desc` describe the whole history"""
    f, g, h = hand_f(p)
    fstar = f(p["xstar"])
    n = p["n"]
    written = [[repr(lb), repr(ub)] for lb, ub in spelled_bounds(p)]

    def fail(what, **kw):
        rep.oracle_failures.append({"what": what, "open_side": dict(desc, phase=phase), "problem": dump(orig),
                                    "method": method, "bounds_as_written": written, **kw})

    with MinimizeSpy() as spy:
        with warnings.catch_warnings():
            warnings.simplefilter("ignore")
            try:
                s = P.solve(method=method)
            except Exception as ex:  # noqa: BLE001
                fail(f"solve(method={method}) raised {type(ex).__name__}: {ex}"[:300])
                return
    rep.evaluations += 1
    if not spy.calls:
        rep.corr_mismatches.append({"what": "minimize was never called", "problem": dump(orig), "method": method})
        return
    kw = spy.calls[0]
    used = kw["method"]
    rep.histogram["openside:" + phase + ":" + used] = rep.histogram.get("openside:" + phase + ":" + used, 0) + 1
    for (sl, su) in p["spell"]:
        key = "openside-var:" + ("open" if sl != "finite" else "finite") + "/" + ("open" if su != "finite" else "finite")
        rep.histogram[key] = rep.histogram.get(key, 0) + 1
    try:
        x0 = np.asarray(kw["x0"], dtype=float).reshape(-1)
    except Exception:  # noqa: BLE001
        x0 = np.full(n, np.nan)
    x0_text = [repr(float(t)) for t in x0]
    # ---- model: Py.initialPoint of the bounds with every infinite side open
    lines.append("x0 (" + " ".join("(" + ("none" if lb is None else rat(lb)) + " " + ("none" if ub is None else rat(ub)) + ")"
                                   for lb, ub in p["bounds"]) + ")")
    metas.append(("x0", kw["x0"], orig, method))
    # ---- the bounds handed over are the declared ones
    if kw.get("bounds") is not None:
        want_b = [(lb if lb is not None else -np.inf, ub if ub is not None else np.inf) for lb, ub in p["bounds"]]
        got_b = [tuple(float(t) for t in b) for b in kw["bounds"]]
        if got_b != want_b:
            fail("bounds handed to SciPy differ from the declared bounds", got=[[repr(t) for t in b] for b in got_b])
    # ---- the differential (the property)
    raw = raw_solve(p, used, initial_point(p["bounds"]))
    raw_gap = f(raw.x) - fstar
    raw_ok = bool(raw.success) and feasible(p, raw.x, tol=5e-7) and raw_gap <= 1e-4 * (1 + abs(fstar))
    rep.histogram["openside_raw_converged" if raw_ok else "openside_raw_not_converged"] = \
        rep.histogram.get("openside_raw_converged" if raw_ok else "openside_raw_not_converged", 0) + 1
    judged = False
    if raw_ok:
        xo = np.array([s.values.get(v.name, np.nan) for v in xv]) if s.values else np.full(n, np.nan)
        finite = bool(np.all(np.isfinite(xo)))
        gap = f(xo) - fstar if finite else np.inf
        tol = max(1e-4 * (1 + abs(fstar)), 10 * abs(raw_gap))
        obj_ok = finite and s.objective_value is not None and \
            abs((-s.objective_value if p["is_max"] else s.objective_value) - f(xo)) <= 1e-7 * (1 + abs(f(xo)))
        if not (s.status.name == "OPTIMAL" and finite and feasible(p, xo) and gap <= tol and obj_ok):
            judged = True
            fail("raw SciPy (hand-written callables, the same bounds, the documented start) converged to the manufactured "
                 "optimum but optyx did not report it — an open side of the bounds is written as an explicit infinity",
                 optyx_status=s.status.name, optyx_gap=repr(float(gap)), raw_gap=float(raw_gap),
                 optyx_objective=repr(s.objective_value), x0_handed_to_scipy=x0_text, message=str(s.message)[:120])
    # ---- the default start itself: finite and inside the declared box (whatever the solver made of it)
    if not judged:
        if len(x0) != n or not np.all(np.isfinite(x0)):
            fail("the default starting point handed to SciPy is not finite", x0_handed_to_scipy=x0_text)
        elif any((lb is not None and t < lb) or (ub is not None and t > ub) for t, (lb, ub) in zip(x0, p["bounds"])):
            fail("the default starting point handed to SciPy lies outside the declared bounds", x0_handed_to_scipy=x0_text)


def check_open_side(rng, p, build, edit, rep, lines, metas, methods, methods_after=None):
    """solve with every method; assign the edit; solve again (same Problem object)"""
    P, xv = build_optyx_scalars(p) if build == "ctor" else build_optyx(rng, p)
    xv = list(xv)
    desc = {"build": build, "edit": edit}
    has_cons = bool(p["cons"])
    n0 = len(rep.oracle_failures)
    for method in methods:
        if method == "L-BFGS-B" and has_cons:
            continue
        _open_side_solve(P, xv, p, p, desc, "first", method, rep, lines, metas)
    if edit is not None and len(rep.oracle_failures) == n0:
        p2 = apply_open_side_edit(p, edit)
        v = xv[edit["var"]]
        lb2, ub2 = spelled_bounds(p2)[edit["var"]]
        if edit["side"] == "lb":
            v.lb = lb2
        else:
            v.ub = ub2
        for method in (methods if methods_after is None else methods_after):
            if method == "L-BFGS-B" and has_cons:
                continue
            _open_side_solve(P, xv, p2, p, desc, "after-edit", method, rep, lines, metas)
    rep.nontrivial.add(hash(("openside", build, p["n"], tuple(p["spell"]), str(edit))))


def open_side_family(rng, rep, lines, metas, n_cases, methods, stop_at_first=False):
    for _ in range(n_cases):
        p = gen_open_side_problem(rng)
        build = rng.choice(["ctor", "assign"])
        edit = gen_open_side_edit(rng, p) if rng.random() < 0.7 else None
        after = rng.sample(methods, 2)
        check_open_side(rng, p, build, edit, rep, lines, metas, methods, methods_after=after)
        if stop_at_first and rep.oracle_failures:
            return


# ------------------------------------------------------------------ third family: _build_solver_cache vs the model


def _num_close(a, b, rtol=1e-9, atol=1e-11):
    import math

    if math.isnan(a) or math.isnan(b) or math.isinf(a) or math.isinf(b):
        return None  # irregular point: not compared
    return abs(a - b) <= atol + rtol * max(abs(a), abs(b))


def _parse_glue(out: str):
    """`obj=<f> grad=(f ..) path=<name> cons=((type f (f ..)) ..)` -> dict (floats), or the raw text"""
    from ser import bits_to_float, parse_sexp

    if not out.startswith("obj="):
        return out
    head, rest = out.split(" grad=", 1)
    gtxt, rest = rest.split(" path=", 1)
    path, ctxt = rest.split(" cons=", 1)
    num = lambda t: float("nan") if t == "nan" else bits_to_float(t)
    cons = []
    for c in parse_sexp(ctxt)[0]:
        cons.append((c[0], num(c[1]) if not str(c[1]).startswith("raise") else c[1], [num(t) for t in c[2]]))
    return {"obj": num(head[4:]), "grad": [num(t) for t in parse_sexp(gtxt)[0]], "path": path, "cons": cons}


def _root_wrapped(rng, U, gen):
    """a vector / matrix reduction node at (or one or two wrappers below) the ROOT: the shapes for which
    compile_jacobian tries the per-node `jacobian_row` shortcuts before falling back to gradient()"""
    V = gen.rand_vector_node(rng, U, rng.choice([0, 1]), True)
    c = rng.choice([1.0, 2.0, -3.0, 0.5, 4, 10])
    k = rng.choice([2.0, -1.0, 3, 0.5, -2])
    forms = [lambda: c - V, lambda: V - c, lambda: c + V, lambda: V + c, lambda: -V, lambda: k * V, lambda: V * k,
             lambda: V / k, lambda: (c - V) - 1.0, lambda: k * (c - V), lambda: c - k * V, lambda: -(c - V),
             lambda: (c - V) / k, lambda: 1.0 - (c - V), lambda: V]
    return rng.choice(forms)()


def check_glue(rng, rep, n_cases, glue_seed=None):
    import gen
    import oracle
    from ser import Ids, ser, store_text
    from optyx import Problem
    from optyx.solvers.scipy_solver import _build_solver_cache

    lines, metas = [], []
    for _ in range(n_cases):
        U = gen.Universe(rng, nvec=rng.choice([2, 3]))
        ids = Ids()
        is_max = rng.random() < 0.5
        depth = rng.choice([1, 2, 2, 3])
        obj = gen.rand_expr(rng, U, depth, safe=True) if rng.random() < 0.6 else _root_wrapped(rng, U, gen)
        if not hasattr(obj, "evaluate") or not gen.expr_vars(obj):
            obj = obj + rng.choice(U.all_vars())
        P = Problem()
        (P.maximize if is_max else P.minimize)(obj)
        cons = []
        for _k in range(rng.choice([0, 1, 2, 3])):
            lhs = gen.rand_expr(rng, U, rng.choice([1, 2]), safe=True) if rng.random() < 0.55 else _root_wrapped(rng, U, gen)
            rhs = rng.choice([gen.const(rng), gen.const(rng), gen.rand_expr(rng, U, 1, safe=True)])
            sense = rng.choice(["<=", ">=", "=="])
            if not gen.expr_vars(lhs):
                lhs = lhs + rng.choice(U.all_vars())
            c = {"<=": lambda: lhs <= rhs, ">=": lambda: lhs >= rhs, "==": lambda: lhs.eq(rhs)}[sense]()
            P.subject_to(c)
            cons.append((sense, lhs, rhs))
        pv = list(P.variables)
        order = rng.choice(["own", "perm", "super", "super-perm"])
        V = list(pv)
        if "super" in order:
            extra = [v for v in U.all_vars() if all(v.name != w.name for w in V)]
            rng.shuffle(extra)
            V += extra[:rng.choice([1, 2, 3])]
        if "perm" in order:
            rng.shuffle(V)
        try:
            cache = _build_solver_cache(P, V)
        except Exception as ex:  # noqa: BLE001
            rep.corr_mismatches.append({"what": "glue: _build_solver_cache raised", "error": repr(ex)[:200]})
            continue
        params = U.params
        for _pt in range(2):
            point = gen.rand_point(rng, V)
            x = np.array([point[v.name] for v in V], dtype=float)
            with np.errstate(all="ignore"), warnings.catch_warnings():
                warnings.simplefilter("ignore")
                real = {"obj": float(cache["obj_fn"](x)),
                        "grad": [float(t) for t in np.asarray(cache["grad_fn"](x)).flatten()],
                        "path": getattr(cache["grad_fn"], "__name__", "?"),
                        "cons": [(d["type"], float(d["fun"](x)), [float(t) for t in np.asarray(d["jac"](x)).flatten()])
                                 for d in cache["scipy_constraints"]]}
            ctext = " ".join(f"({q(c.sense)} {ser(c.expr, ids)})" for c in P.constraints)
            from ser import Ser
            vtext = " ".join(Ser(ids).var(v) for v in V)
            ptext = " ".join(rat(point[v.name]) for v in V)
            lines.append(f"glue {'max' if is_max else 'min'} {ser(P.objective, ids)} ({ctext}) ({vtext}) ({ptext}) "
                         f"{store_text(params, ids)} 400")
            metas.append((real, order, is_max, len(cons)))
            rep.evaluations += 1
            rep.nontrivial.add(("glue", order, is_max, len(cons), real["path"]))
            rep.histogram["glue:" + order] = rep.histogram.get("glue:" + order, 0) + 1
            # independent oracle: ± the user's objective / lhs − rhs and their dual-number derivatives
            sgn = -1.0 if is_max else 1.0
            try:
                want = sgn * float(oracle.prim(oracle.ref_eval(obj, point)))
                ok = _num_close(real["obj"], want)
                if ok is False:
                    rep.oracle_failures.append({"glue": "objective handed to SciPy is not ±f", "got": real["obj"],
                                                "want": want, "order": order, "is_max": is_max,
                                                "objective": ser(obj, ids), "point": point})
                for j, v in enumerate(V):
                    wg = sgn * oracle.ref_grad(obj, point, v.name)
                    if _num_close(real["grad"][j], wg, 1e-7, 1e-9) is False:
                        rep.oracle_failures.append({"glue": "gradient entry is not the partial derivative of ±f",
                                                    "j": j, "var": v.name, "got": real["grad"][j], "want": wg,
                                                    "order": order, "objective": ser(obj, ids), "point": point})
                        break
                for k, (sense, lhs, rhs) in enumerate(cons):
                    cs = -1.0 if sense == "<=" else 1.0
                    rv = rhs if isinstance(rhs, (int, float)) else None
                    diff = lambda vals: oracle.ref_eval(lhs, vals) - (rv if rv is not None else oracle.ref_eval(rhs, vals))
                    typ, fv, jv = real["cons"][k]
                    if typ != ("eq" if sense == "==" else "ineq"):
                        rep.oracle_failures.append({"glue": "constraint type", "k": k, "sense": sense, "got": typ})
                    wv = cs * float(oracle.prim(diff(point)))
                    if _num_close(fv, wv) is False:
                        rep.oracle_failures.append({"glue": "constraint fun is not ±(lhs − rhs)", "k": k, "sense": sense,
                                                    "got": fv, "want": wv, "lhs": ser(lhs, ids), "point": point})
                    for j, v in enumerate(V):
                        vals = {n: (oracle.Dual(t, 1.0) if n == v.name else t) for n, t in point.items()}
                        r = diff(vals)
                        wj = cs * (oracle.prim(r.d) if isinstance(r, oracle.Dual) else 0.0)
                        if _num_close(jv[j], wj, 1e-7, 1e-9) is False:
                            rep.oracle_failures.append({"glue": "constraint jac is not the derivative of its fun", "k": k,
                                                        "j": j, "var": v.name, "got": jv[j], "want": wj, "sense": sense,
                                                        "lhs": ser(lhs, ids), "point": point, "order": order})
                            break
            except (oracle.NotRegular, ZeroDivisionError, OverflowError, ValueError):
                rep.skipped["glue: irregular point"] = rep.skipped.get("glue: irregular point", 0) + 1
    for f in rep.oracle_failures:
        if "glue" in f:
            f.setdefault("glue_seed", glue_seed)
            f.setdefault("glue_n", n_cases)
    if glue_seed is not None and getattr(check_glue, "oracle_only", False):
        return
    outs = core.run_lean(lines)
    for line, (real, order, is_max, ncons), out in zip(lines, metas, outs):
        model = _parse_glue(out)
        if not isinstance(model, dict):
            rep.corr_mismatches.append({"what": "glue: model did not build the cache", "model": out, "line": line[:400]})
            continue
        bad = None
        if model["path"] != real["path"]:
            bad = f"gradient closure kind: impl {real['path']} model {model['path']}"
        elif _num_close(real["obj"], model["obj"]) is False:
            bad = f"objective value: impl {real['obj']} model {model['obj']}"
        elif len(real["grad"]) != len(model["grad"]) or any(_num_close(a, b) is False for a, b in zip(real["grad"], model["grad"])):
            bad = f"gradient: impl {real['grad']} model {model['grad']}"
        elif len(real["cons"]) != len(model["cons"]):
            bad = f"number of constraint dictionaries: impl {len(real['cons'])} model {len(model['cons'])}"
        else:
            for k, (rc, mc) in enumerate(zip(real["cons"], model["cons"])):
                if rc[0] != mc[0]:
                    bad = f"constraint {k} type: impl {rc[0]} model {mc[0]}"
                elif isinstance(mc[1], str) or _num_close(rc[1], mc[1]) is False:
                    bad = f"constraint {k} fun: impl {rc[1]} model {mc[1]}"
                elif len(rc[2]) != len(mc[2]) or any(_num_close(a, b) is False for a, b in zip(rc[2], mc[2])):
                    bad = f"constraint {k} jac: impl {rc[2]} model {mc[2]}"
                if bad:
                    break
        if bad:
            rep.corr_mismatches.append({"what": "glue: _build_solver_cache differs from Py.Glue.buildSolverCache: " + bad,
                                        "order": order, "is_max": is_max, "line": line[:600]})


def run(ctx) -> core.Report:
    rng = ctx["rng"]
    thorough = ctx["tier"] == "thorough" or ctx["escalate"]
    rep = core.Report(rule="strictly convex problems with manufactured optimum (2–4 variables, diagonal or full SPD "
                           "quadratic part, optional exp terms, 0–3 linear constraints of all senses, bounds active or "
                           "not, min / max) × methods auto, SLSQP, trust-constr, L-BFGS-B; non-trivial = distinct problem")
    lines, metas = [], []
    for i in range(400 if thorough else 70):
        p = gen_problem(rng)
        check_problem(rng, p, rep, lines, metas, METHODS)
    for i in range(150 if thorough else 30):
        check_vector_objective(rng, rep, METHODS)
    mrng = core.Rng(ctx["seed"] * 104729 + 7)      # own stream: the other families keep their inputs
    for i in range(120 if thorough else 24):
        check_magnitude_objective(mrng, rep, METHODS)
    orng = core.Rng(ctx["seed"] * 15485867 + 11)   # own stream
    open_side_family(orng, rep, lines, metas, 60 if thorough else 12, METHODS)
    prng = core.Rng(ctx["seed"] * 32452843 + 17)   # own stream
    param_position_family(prng, rep, 120 if thorough else 20, METHODS)
    gs = ctx["seed"] * 7919 + 13
    check_glue(core.Rng(gs), rep, 700 if thorough else 120, glue_seed=gs)
    # dispatch table of Problem.solve: exhaustive over method names × linearity, against the model
    from optyx import Problem, Variable
    x = Variable("x", lb=0, ub=4)
    for method in ["auto", "linprog", "highs", "highs-ds", "highs-ipm", "SLSQP", "trust-constr", "L-BFGS-B", "BFGS",
                   "Nelder-Mead"]:
        for lin in (True, False):
            P = Problem().minimize(x if lin else x ** 2)
            with MinimizeSpy() as spy:
                with warnings.catch_warnings():
                    warnings.simplefilter("ignore")
                    try:
                        P.solve(method=method)
                        took = ("nlp:" + spy.calls[0]["method"]) if spy.calls else "lp"
                    except Exception as ex:  # noqa: BLE001
                        took = "raise:" + type(ex).__name__
            lines.append(f"route {q(method)} {'true' if lin else 'false'} {'1' if lin else '2'} ()")
            metas.append(("route-table", took, None, method))
            rep.evaluations += 1
    # `_auto_select_method`: every (objective degree class) × (constraint degree classes) cell, against the model
    from optyx.analysis import compute_degree
    from optyx.core.functions import sin as _sin
    y = Variable("y", lb=-1, ub=3)
    objs = [("2", lambda: (x - 1) ** 2 + y * y), ("3", lambda: (x - 1) ** 2 + 0.1 * x ** 3 + y * y), ("4", lambda: (x - 1) ** 4 + y * y),
            ("none", lambda: (x - 1) ** 2 + _sin(y)), ("1", lambda: x + y)]
    cons_ = [("", lambda: []), ("1", lambda: [x + y <= 3]), ("2", lambda: [x * 2 + y ** 2 <= 9]), ("3", lambda: [x ** 3 + y <= 30]),
             ("none", lambda: [_sin(x) + y <= 3]), ("1,3", lambda: [x + y <= 3, x ** 3 + y <= 30]), ("2,2", lambda: [x ** 2 <= 16, y ** 2 <= 9])]
    auto_lines, auto_metas = [], []
    for on, mk in objs:
        for cn, mc in cons_:
            if on == "1" and cn in ("", "1"):
                continue   # a linear problem never reaches _auto_select_method
            P = Problem().minimize(mk())
            for c_ in mc():
                P.subject_to(c_)
            with MinimizeSpy() as spy:
                with warnings.catch_warnings():
                    warnings.simplefilter("ignore")
                    try:
                        P.solve(method="auto")
                        took = spy.calls[0]["method"] if spy.calls else "lp"
                    except Exception as ex:  # noqa: BLE001
                        took = "raise:" + type(ex).__name__
            od = compute_degree(P.objective)
            cds = [compute_degree(c_.expr) for c_ in P.constraints]
            auto_lines.append(f"autosel {degree_text(od)} (" + " ".join(degree_text(d) for d in cds) + ")")
            auto_metas.append((took, on, cn))
            rep.evaluations += 1
            rep.nontrivial.add(("autosel", on, cn))
    for (took, on, cn), model in zip(auto_metas, core.run_lean(auto_lines)):
        if took != model:
            rep.corr_mismatches.append({"what": "method chosen by solve('auto') differs from Py.autoSelect",
                                        "impl": took, "model": model, "objective_degree": on, "constraint_degrees": cn})
    outs = core.run_lean(lines[-20:])
    for (kind, real, _, method), model in zip(metas[-20:], outs):
        m2 = "lp" if model.startswith("lp:") else model
        # an explicit LP method on a non-linear problem is rejected by solve_lp (NonLinearError): still the LP route
        if real.startswith("raise:") and m2 == "lp":
            continue
        if real != m2:
            rep.corr_mismatches.append({"what": "dispatch of Problem.solve differs from Py.route", "impl": real,
                                        "model": model, "method": method})
    del lines[-20:], metas[-20:]
    compare_lean(rep, lines, metas)
    return rep


def search(ctx, rep):
    rng = core.Rng(ctx["seed"] + 15485863)
    r2 = core.Report()
    gs = ctx["seed"] * 104729 + 7
    check_glue(core.Rng(gs), r2, 400, glue_seed=gs)
    if r2.oracle_failures:
        return r2.oracle_failures[0]
    param_position_family(core.Rng(ctx["seed"] * 32452843 + 18), r2, 150, METHODS, stop_at_first=True)
    if r2.oracle_failures:
        return r2.oracle_failures[0]
    open_side_family(core.Rng(ctx["seed"] * 15485867 + 12), r2, [], [], 150, METHODS, stop_at_first=True)
    if r2.oracle_failures:
        return r2.oracle_failures[0]
    for i in range(600):
        p = gen_problem(rng)
        check_problem(rng, p, r2, [], [], METHODS)
        if r2.oracle_failures:
            return r2.oracle_failures[0]
    return None


def replay(payload) -> bool:
    f = payload["failure"]
    if "glue" in f:
        # the family is regenerated from its own seed: the same problems, orders and points
        rep = core.Report()
        check_glue.oracle_only = True
        try:
            check_glue(core.Rng(f["glue_seed"]), rep, f["glue_n"], glue_seed=f["glue_seed"])
        finally:
            check_glue.oracle_only = False
        bad = [g for g in rep.oracle_failures if "glue" in g]
        if bad:
            print(bad[0])
            return False
        return True
    if "param_position" in f:
        # the whole history again (deterministic in its description): one expression object, the stages, every method
        rep = core.Report()
        run_param_history(f["param_position"], rep, METHODS)
        if rep.oracle_failures:
            print(rep.oracle_failures[0])
            return False
        return True
    if "magnitude_objective" in f:
        rep = core.Report()
        mrng = core.Rng(payload.get("seed", 0) * 104729 + 7)
        for _ in range(120):
            check_magnitude_objective(mrng, rep, [f.get("method", "auto")])
            if rep.oracle_failures:
                print(rep.oracle_failures[0])
                return False
        return True
    if "vector_objective" in f:
        # the family is small: re-run it (all kinds / orders are drawn within a few dozen samples)
        rep = core.Report()
        rng = core.Rng(payload.get("seed", 0))
        for _ in range(120):
            check_vector_objective(rng, rep, [f.get("method", "auto")])
            if rep.oracle_failures:
                print(rep.oracle_failures[0])
                return False
        return True
    p = undump(f["problem"])
    method = f.get("method", "auto")
    if "open_side" in f:
        # the whole history again: build (at construction / assigned), solve, assign the edit, solve
        d = f["open_side"]
        for seed in range(4):
            rep = core.Report()
            check_open_side(core.Rng(seed), p, d["build"], d.get("edit"), rep, [], [], METHODS)
            if rep.oracle_failures:
                print(rep.oracle_failures[0])
                return False
        return True
    if "edited_bounds" in f:
        # deterministic replay of a solve / edit-bound / solve history
        hf, _, _ = hand_f(p)
        for seed in range(6):
            P, xv = build_optyx(core.Rng(seed), p)
            with warnings.catch_warnings():
                warnings.simplefilter("ignore")
                P.solve(method=method)
                p2 = dict(p); p2["bounds"] = [tuple(b) for b in f["edited_bounds"]]
                for v, (lb, ub) in zip(xv, p2["bounds"]):
                    v.lb, v.ub = lb, ub
                with MinimizeSpy() as spy:
                    s2 = P.solve(method=method)
            used = spy.calls[0]["method"] if spy.calls else method
            raw2 = raw_solve(p2, used, initial_point(p2["bounds"]))
            if not (raw2.success and feasible(p2, raw2.x)):
                continue
            xo = np.array([s2.values.get(v.name, np.nan) for v in xv]) if s2.values else np.full(p["n"], np.nan)
            fo = hf(xo) if np.all(np.isfinite(xo)) else np.inf
            ok = s2.status.name == "OPTIMAL" and feasible(p2, xo) and fo <= hf(raw2.x) + 1e-4 * (1 + abs(hf(raw2.x)))
            print("re-solve:", s2.status.name, "f_optyx=", fo, "f_raw=", hf(raw2.x))
            if not ok:
                return False
        return True
    for seed in range(10):
        rep = core.Report()
        check_problem(core.Rng(seed), p, rep, [], [], [method])
        if rep.oracle_failures:
            print(rep.oracle_failures[0])
            return False
    return True
