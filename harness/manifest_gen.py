#!/usr/bin/env python3
"""(re)generate MANIFEST.json from the table below; run after adding a property module."""
import json, os
VERIF = os.path.dirname(os.path.dirname(os.path.abspath(__file__)))
props = [json.loads(l) for l in open(os.path.join(VERIF, "properties.jsonl"))]

CLAIMS = {
 "C02": dict(
   text="Machine-checked proof (Lean 4 + Mathlib): `grad_hasDerivAt` — for every well-formed expression (all 17 node kinds), every variable, every regular point, the model of optyx's differentiator denotes the true partial derivative (HasDerivAt over the reals); `rulesIter_eq` — recursive and explicit-stack differentiators use identical rule templates. The scalar rule templates and the six simplifiers are regenerated from autodiff.py by an AST translator before every build, so the kernel re-checks the induction against the rules present in the source now; the hand-modelled vector rules and control flow are tied to the code by an exact structural correspondence run (cell cover + seeded random trees through all three tiers of gradient()), and a dual-number oracle on the real code supplies the failing input when either breaks.",
   note="Trusted: Lean kernel + propext/Classical.choice/Quot.sound; gen_tables.py translator; serialiser/driver; hand-written Py.grad vector rules validated (not proved) against the code by the correspondence run; regular points only (singular set is C19); IEEE rounding not modelled; scalar constants only.",
   technique="Lean 4 proof by mutual structural induction over a translated+hand-written model; differential correspondence check; dual-number failing-input search",
   design_ref="DESIGN.md §5 C02"),
 "C03": dict(
   text="Machine-checked proof (Lean 4 + Mathlib): `jacRow_sound` — each of the eight jacobian_row shortcuts (BinaryOp wrappers, VectorSum, DotProduct incl. overlapping slices, LinearCombination, VectorPowerSum, VectorUnarySum, MatrixSum, QuadraticForm) returns, for ANY variable order / superset / same-name clones, a row whose j-th entry denotes the same number as gradient(e, V[j]); `compileJacobian_entries` / `compileGradient_entries` — whichever of the closures is selected (vectorised power/unary full & sparse, constant, scaled-variable, general), entry (i,j) at x equals ⟦grad V[j] es[i]⟧; `compileJacobian_constant_no_param` — the pre-computed constant path never freezes a Parameter; `*_true_partial` — with C02 each compiled entry is a genuine partial derivative at regular points; `unaryTables_agree` — the two regenerated per-operator tables coincide. Tied to the code by exact structural comparison of compute_jacobian rows, the path actually taken (callable __name__), and numeric entries; oracle = dual-number Jacobian on the real code over all orderings of vector elements + foreign variables.",
   note="Trusted: Lean kernel + standard axioms; hand-written model of the jacobian_row family and path selection validated by the correspondence run; element closures of the general path are taken at their C01 specification; float rounding not modelled; regular points only for the true-partial statements.",
   technique="Lean 4 proof of shortcut-vs-general equality and path-wise entry correctness; structural + path-name + numeric correspondence; dual-number oracle",
   design_ref="DESIGN.md §5 C03"),
 "C04": dict(
   text="Machine-checked proof (Lean 4 + Mathlib MvPolynomial): `degree_sound` — whenever the model of optyx's classifier reports degree d, the expression denotes, for every parameter store, a polynomial of total degree ≤ d in its variables (all node kinds; corollaries `isLinear_affine`, `isQuadratic_deg2`); `degreeIter_eq` / `computeDegree_threshold_irrelevant` — the explicit-stack traversal (phases, early exits) returns exactly what the recursive one returns, for every tree and every switch threshold; `degree_property_cache` — the per-node slot with its -1 sentinel returns the same answer on the first and on all later reads. Tied to the code by exact comparison of every observable of the classification (both traversals, shipped / zero / huge thresholds, depth estimate, slot contents, is_linear / is_quadratic) with the executable model on cell-cover + random trees; oracle = exact (d+1)-th finite differences along rational lines through an independent Fraction interpreter.",
   note="Trusted: Lean kernel + standard axioms; hand-written model of analysis.py's degree functions validated by the correspondence run; x / Constant(0) excluded by NoConstDivZero (ℝ totalises it); array-valued constants outside the syntax; lru_cache treated as a transparent memo (C14).",
   technique="Lean 4 proof against MvPolynomial.totalDegree + stack-machine refinement; exact differential correspondence; finite-difference oracle",
   design_ref="DESIGN.md §5 C04"),
 "C05": dict(
   text="Machine-checked proof (Lean 4 + Mathlib): `extractLP_sound` — the extracted LP data of the model of LinearProgramExtractor denote the user's model: c·x + c0 = ⟦obj⟧, each A_ub/b_ub row reproduces its constraint with the >= rows negated, equalities kept, names aligned with columns, bounds the declared ones, rows in order; `coeffs_sound` / `walker_sound` / `coeffs_sound_total` — coefficient and constant extraction are sound for every well-formed linear expression and never raise there; `shortcuts_eq_general` + `names_eq_of_sorted` — the O(1) fast paths return what the general walker returns, including the half of their guard the code does not check (proved from monotone views); `div_zero_raises` — division by the literal 0 raises instead of producing a silent row. Tied to the code by exact rational comparison of extract / extract_all_linear_coefficients / extract_constant_term with the executable model on generated linear problems in every writing style; oracle = Fraction evaluation of the user's expressions at integer points vs row·x − rhs.",
   note="Trusted: Lean kernel + standard axioms; model of the extraction functions validated by the correspondence run; the variable list is Problem.variables (order and duplicate-freeness are C16); float rounding of coefficient arithmetic not modelled (inputs are small dyadic rationals).",
   technique="Lean 4 proof of extraction soundness + fast-path refinement; exact rational differential correspondence; Fraction re-evaluation oracle",
   design_ref="DESIGN.md §5 C05"),
 "C12": dict(
   text="Machine-checked proof (Lean 4): `denote_substParams` (any number algebra) and `grad_substParams` (ℝ) — evaluating / differentiating a model under the current parameter store equals doing so on the model with each parameter replaced by a constant of its current value; `param_not_constant`, `param_has_no_degree` — a Parameter is never a literal Constant (so never frozen into a pre-computed Jacobian) and never has a degree (so never enters LP data); `artefacts_independent_of_store`, `jac_call_substParams`, `param_refinement_partial` — over every history of set / evaluate / compiled call / Jacobian call, stored artefacts never capture a parameter value and each observation equals the observation on the fresh constant model. Tied to the code by history correspondence (exact Jacobian path names, values) and by the fresh-constant-model oracle on the real code incl. solves.",
   note="Partial in one respect, stated in the Lean file: the Hessian observation of the full refinement is covered by the oracle, not by the theorem. Singular points excluded (`RegularExponents`: a Parameter exponent at base 0). Trusted: Lean kernel + standard axioms, state-machine model validated by the correspondence run.",
   technique="Lean 4 refinement proof over operation histories + substitution lemmas; history correspondence; fresh-constant-model oracle",
   design_ref="DESIGN.md §5 C12"),
 "C13": dict(
   text="Machine-checked proof (Lean 4, induction over operation lists): `inv_init`, `inv_step`, `inv_run` — every populated per-problem cache (_variables, _solver_cache incl. the lazily added Hessian, _lp_cache, _is_linear_cache) was computed from the current objective, sense and constraints, and bounds are always re-read, after EVERY history of minimize / maximize / subject_to (single, list, raising) / bound assignment / solve (any method, any solver answer, incl. the SLSQP retry) / reads; `solve_eq_fresh` — each solve hands the back-end exactly the inputs a fresh Problem on the current model would; counterexample theorems show the invariant fails on the pre-repair models (F12, F22). Tied to the code by running histories on the real Problem with both solver seams stubbed and comparing, after every operation, cache population, the model state each cached object was created in, stored bounds and every captured solver input with the model and with a fresh Problem.",
   note="Expressions are abstract tags in the state machine (the property is about staleness, not about what is computed); strict/integer handling and exceptions inside the back-ends are C18/C20. Trusted: Lean kernel + standard axioms, state-machine model validated by the correspondence run.",
   technique="Lean 4 invariant proof by induction over histories; exhaustive short + random long history correspondence; fresh-problem differential",
   design_ref="DESIGN.md §5 C13"),
 "C14": dict(
   text="Machine-checked proof (Lean 4): `cache_transparent` / `cache_transparent_run` — for ANY key equivalence, function, capacity and eviction policy that never invents entries (CPython's LRU is one: `lru_policy_sound`), every lookup returns a value equivalent to a fresh computation provided the cached function respects key equality; instances `respects_degree`, `respects_gradient` (name-equal leaves have equal derivatives), `respects_compile` (with the bare-Parameter bypass) give `gradient_cached_transparent`, `compile_cached_transparent`; `compile_cache_param_collision` is the counterexample without the bypass (F13). Tied to the code by comparing the Lean LRU policy with functools.lru_cache hit/miss sequences, the regenerated cache sizes with cache_info(), the measured __eq__/__hash__ facts, and by the fresh-subprocess differential after adversarial prefixes up to capacity + 50.",
   note="Identity is over-approximated by structural equality incl. object ids (stronger theorem). Trusted: Lean kernel + standard axioms; lru_cache holds strong references to its keys (CPython).",
   technique="Lean 4 generic cache-transparency proof + instances; LRU trace correspondence; fresh-process differential",
   design_ref="DESIGN.md §5 C14"),
 "C17": dict(
   text="Machine-checked proof (Lean 4 + Mathlib): `hess_second_partial` — at every regular point of a well-formed expression the symbolic Hessian entry gradient(gradient(e, vi), vj) IS the iterated partial derivative ∂/∂vj(∂⟦e⟧/∂vi) (C02 twice, using `grad_wf`, `grad_regular` — differentiation preserves well-formedness and regular points — and `regular_open` — regularity is open along coordinate lines; no hypotheses beyond WF and Regular); `compileHessian_general_entries`, `compileHessian_symm` (H = Hᵀ for every closure, in any number algebra), `hessFast_eq_general` (the diagonal shortcuts for VectorPowerSum / VectorUnarySum equal the general path entry by entry). Tied to the code by structural comparison of compute_hessian, closure names, numeric entries over all orderings of vector elements + foreign variables; oracle = nested dual numbers.",
   note="Not proved: that the mirrored lower triangle equals the derivative taken in the other order (Schwarz for C² functions — a fact of analysis, tested numerically). Trusted: Lean kernel + standard axioms; model of compile_hessian validated by the correspondence run; regular points only.",
   technique="Lean 4 proof (second application of the derivative theorem + preservation/openness lemmas); structural + numeric correspondence; nested-dual oracle",
   design_ref="DESIGN.md §5 C17"),
 "C19": dict(
   text="Machine-checked proof (Lean 4) over an explicit IEEE special-value domain (NaN, ±∞, ±0, non-zero reals): `sanitize_spec` (nan→0, ±∞→±1e16 read from the regenerated constant, finite unchanged, with or without the all-finite shortcut), `sanitize_finite`, `derivative_outputs_finite` (every gradient / Jacobian / Hessian closure returns finite entries at finite x), `paths_agree_on_specials` (vectorised and general bodies give the same special value, after sanitising for all ten operators and before it for all but abs), `regular_unchanged`. Tied to the code by running every derivative closure kind at singular points × positions and comparing the class (0 / ±1e16 / finite) exactly and finite values numerically; the special-value rule tables are themselves checked against NumPy; oracle = np.isfinite on the real outputs and vectorised-vs-general agreement.",
   note="Overflow (exp(1000)) is not a singular point of the derivative and is outside the statement. Trusted: Lean kernel + standard axioms; IEEE/C99 rule tables of the model validated against NumPy on this platform.",
   technique="Lean 4 proof over a special-value algebra; exhaustive singular-point correspondence; isfinite oracle",
   design_ref="DESIGN.md §5 C19"),
 "C08": dict(
   text="Machine-checked proof (Lean 4 + Mathlib, any linearly ordered field): `lp_pipeline_faithful` — for ANY function linprog that meets the LP contract on the data it is given, optyx's LP path returns the verdict (optimal / infeasible / unbounded) and optimal value of the extracted model in the user's orientation (feasible sets coincide because matrices and bounds are passed through unchanged — `feasible_iff`; max f = −min(−f); un-negation and the constant term restore the value; status chain total and equal to the regenerated table — `lpStatus_table`). Tied to the code by spying the real scipy.optimize.linprog seam: keyword arguments passed and Solution returned are compared exactly with the executable model on every solve; the property's own differential (independently assembled matrix form, same solver, every writing style, 5 methods, solved twice) is the oracle that yields the failing input.",
   note="Partial in one sense: the inside of HiGHS/linprog is trusted through an explicit hypothesis (LinprogContract), never an axiom. 'Extracted data denote the user's model' is property C05. Trusted: Lean kernel + standard axioms, serialiser/driver, model of the solve_lp glue validated by the seam correspondence.",
   technique="Lean 4 proof of the pipeline for any contract-abiding solver; seam-level differential correspondence; independent-assembly LP differential",
   design_ref="DESIGN.md §5 C08"),
 "C09": dict(
   text="Machine-checked proofs (Lean 4) of the decision logic optyx adds in front of scipy.optimize.minimize: the default starting point lies inside the declared bounds (`initialPoint_in_bounds`), `auto` never selects L-BFGS-B for a constrained problem and selects trust-constr exactly when a degree is None or > 2 (`autoSelect_*`), the LP/NLP dispatch of Problem.solve (`route_lp_iff`), which optional arguments each method receives read off the regenerated method sets (`gate_table`), and maximise hands SciPy exactly −f and −∇f (`maximize_sign`). Tied to the code at the minimize seam: method chosen, arguments present, x0 and dispatch are compared with the executable model on every solve, and every captured callable (fun, jac, hess, constraint fun/jac, bounds) is probed against hand-written NumPy closures. Oracle = the property's differential: strictly convex problems with a manufactured optimum, raw SciPy with hand-written callables from the same start vs optyx.",
   note="Partial: convergence of SciPy is not provable (trusted/tested); 'raw converges ⇒ optyx OPTIMAL' is shown through equality of inputs (proved for the decision logic, validated by probing for the callables, whose correctness is C01/C03/C10/C17) plus the differential. Trusted: Lean kernel + standard axioms, serialiser/driver.",
   technique="Lean 4 proofs of argument-assembly logic; minimize-seam correspondence with callable probing; manufactured-optimum differential against raw SciPy",
   design_ref="DESIGN.md §5 C09"),
}

checks = []
for p in props:
    pid = p["id"]
    if pid in CLAIMS:
        c = CLAIMS[pid]
        checks.append({
            "property_id": pid,
            "quick_cmd": f"./check {pid} --tier quick",
            "thorough_cmd": f"./check {pid} --tier thorough",
            "evidence_file": f"/verif/evidence/{pid}.json",
            "replay_cmd_template": f"./check {pid} --replay {{path}}",
            "engine": "lean-optyx-model",
            "level_claimed": {"category": c.get("category", "proof"), "text": c["text"], "design_ref": c["design_ref"]},
            "level_note": c["note"],
            "technique": c["technique"],
        })
na = [{"property_id": p["id"], "reason": "check under construction in this round (see DESIGN.md); will move to checks when its Lean theorems and correspondence run are in place"}
      for p in props if p["id"] not in CLAIMS]
man = {
 "version": 1,
 "setup_cmd": "./setup.sh",
 "hooks": {"guard": "OPTYX_VERIF", "enable": "no source hooks are needed: checks observe optyx through public functions, module attributes and import seams wrapped from outside (OPTYX_REPO selects the tree under test)",
           "baseline_off_cmd": "cd /repo && /venv/bin/python -m pytest -ra -q -p no:cacheprovider --timeout=900 --continue-on-collection-errors",
           "source_commits": [], "add_only": True},
 "engines": [{"name": "lean-optyx-model", "path": "/verif/lean", "serves_properties": sorted(CLAIMS),
              "kind_free_text": "Lean 4.33 + Mathlib model of optyx (lake project Optyx): executable Py.* definitions driven over a line protocol, property theorems in Optyx/Props, rule templates regenerated from source by harness/gen_tables.py"}],
 "checks": checks,
 "not_applicable": na,
 "notes": "Every check: regenerate Lean tables from /repo, build model + proofs, audit axioms, run the correspondence check and the property oracle against /repo's working tree; see DESIGN.md.",
}
json.dump(man, open(os.path.join(VERIF, "MANIFEST.json"), "w"), indent=1)
print(f"{len(checks)} checks, {len(na)} not yet claimed")
