#!/usr/bin/env python3
"""(re)generate MANIFEST.json from the table below; run after adding a property module."""
import json, os
VERIF = os.path.dirname(os.path.dirname(os.path.abspath(__file__)))
props = [json.loads(l) for l in open(os.path.join(VERIF, "properties.jsonl"))]

CLAIMS = {
 "C02": dict(
   text="Machine-checked proof (Lean 4 + Mathlib): `grad_hasDerivAt` — for every well-formed expression (all 17 node kinds), every variable, every regular point, the model of optyx's differentiator denotes the true partial derivative (HasDerivAt over the reals); `rulesIter_eq` — recursive and explicit-stack differentiators use identical rule templates. The scalar rule templates and the six simplifiers are regenerated from autodiff.py by an AST translator before every build, so the kernel re-checks the induction against the rules present in the source now; the hand-modelled vector rules and control flow are tied to the code by an exact structural correspondence run (cell cover + seeded random trees through all three tiers of gradient()), and a dual-number oracle on the real code supplies the failing input when either breaks.",
   note="Trusted: Lean kernel + propext/Classical.choice/Quot.sound; gen_tables.py translator; serialiser/driver; hand-written Py.grad vector rules validated (not proved) against the code by the correspondence run; regular points only (singular set is C19); IEEE rounding not modelled; scalar constants only.",
   technique="Lean 4 proof by mutual structural induction over a translated+hand-written model; differential correspondence check; dual-number failing-input search",
   design_ref="DESIGN.md §5 C02"),
 "C04": dict(
   text="Machine-checked proof (Lean 4 + Mathlib MvPolynomial): `degree_sound` — whenever the model of optyx's classifier reports degree d, the expression denotes, for every parameter store, a polynomial of total degree ≤ d in its variables (all node kinds; corollaries `isLinear_affine`, `isQuadratic_deg2`); `degreeIter_eq` / `computeDegree_threshold_irrelevant` — the explicit-stack traversal (phases, early exits) returns exactly what the recursive one returns, for every tree and every switch threshold; `degree_property_cache` — the per-node slot with its -1 sentinel returns the same answer on the first and on all later reads. Tied to the code by exact comparison of every observable of the classification (both traversals, shipped / zero / huge thresholds, depth estimate, slot contents, is_linear / is_quadratic) with the executable model on cell-cover + random trees; oracle = exact (d+1)-th finite differences along rational lines through an independent Fraction interpreter.",
   note="Trusted: Lean kernel + standard axioms; hand-written model of analysis.py's degree functions validated by the correspondence run; x / Constant(0) excluded by NoConstDivZero (ℝ totalises it); array-valued constants outside the syntax; lru_cache treated as a transparent memo (C14).",
   technique="Lean 4 proof against MvPolynomial.totalDegree + stack-machine refinement; exact differential correspondence; finite-difference oracle",
   design_ref="DESIGN.md §5 C04"),
 "C05": dict(
   text="Machine-checked proof (Lean 4 + Mathlib): `extractLP_sound` — the extracted LP data of the model of LinearProgramExtractor denote the user's model: c·x + c0 = ⟦obj⟧, each A_ub/b_ub row reproduces its constraint with the >= rows negated, equalities kept, names aligned with columns, bounds the declared ones, rows in order; `coeffs_sound` / `walker_sound` / `coeffs_sound_total` — coefficient and constant extraction are sound for every well-formed linear expression and never raise there; `shortcuts_eq_general` + `names_eq_of_sorted` — the O(1) fast paths return what the general walker returns, including the half of their guard the code does not check (proved from monotone views); `div_zero_raises` — division by the literal 0 raises instead of producing a silent row. Tied to the code by exact rational comparison of extract / extract_all_linear_coefficients / extract_constant_term with the executable model on generated linear problems in every writing style; oracle = Fraction evaluation of the user's expressions at integer points vs row·x − rhs.",
   note="Trusted: Lean kernel + standard axioms; model of the extraction functions validated by the correspondence run; the variable list is Problem.variables (order and duplicate-freeness are C16); float rounding of coefficient arithmetic not modelled (inputs are small dyadic rationals).",
   technique="Lean 4 proof of extraction soundness + fast-path refinement; exact rational differential correspondence; Fraction re-evaluation oracle",
   design_ref="DESIGN.md §5 C05"),
 "C08": dict(
   text="Machine-checked proof (Lean 4 + Mathlib, any linearly ordered field): `lp_pipeline_faithful` — for ANY function linprog that meets the LP contract on the data it is given, optyx's LP path returns the verdict (optimal / infeasible / unbounded) and optimal value of the extracted model in the user's orientation (feasible sets coincide because matrices and bounds are passed through unchanged — `feasible_iff`; max f = −min(−f); un-negation and the constant term restore the value; status chain total and equal to the regenerated table — `lpStatus_table`). Tied to the code by spying the real scipy.optimize.linprog seam: keyword arguments passed and Solution returned are compared exactly with the executable model on every solve; the property's own differential (independently assembled matrix form, same solver, every writing style, 5 methods, solved twice) is the oracle that yields the failing input.",
   note="Partial in one sense: the inside of HiGHS/linprog is trusted through an explicit hypothesis (LinprogContract), never an axiom. 'Extracted data denote the user's model' is property C05. Trusted: Lean kernel + standard axioms, serialiser/driver, model of the solve_lp glue validated by the seam correspondence.",
   technique="Lean 4 proof of the pipeline for any contract-abiding solver; seam-level differential correspondence; independent-assembly LP differential",
   design_ref="DESIGN.md §5 C08"),
 "C09": dict(
   text="Machine-checked proofs (Lean 4) of the decision logic optyx adds in front of scipy.optimize.minimize: the default starting point lies inside the declared bounds (`initialPoint_in_bounds`), `auto` never selects L-BFGS-B for a constrained problem and selects trust-constr exactly when a degree is None or > 2 (`autoSelect_*`), the LP/NLP dispatch of Problem.solve (`route_lp_iff`), which optional arguments each method receives read off the regenerated method sets (`gate_table`), and maximise hands SciPy exactly −f and −∇f (`maximize_sign`). Tied to the code at the minimize seam: method chosen, arguments present, x0 and dispatch are compared with the executable model on every solve, and every captured callable (fun, jac, hess, constraint fun/jac, bounds) is probed against hand-written NumPy closures. Oracle = the property's differential: strictly convex problems with a manufactured optimum, raw SciPy with hand-written callables from the same start vs optyx.",
   note="Partial: convergence of SciPy is not provable (trusted/tested); 'raw converges ⇒ optyx OPTIMAL' is shown through equality of inputs (proved for the decision logic, validated by probing for the callables, whose correctness is C01/C03/C10/C17) plus the differential. Trusted: Lean kernel + standard axioms, serialiser/driver.",
   technique="Lean 4 proofs of argument-assembly logic; minimize-seam correspondence with callable probing; manufactured-optimum differential against raw SciPy",
   design_ref="DESIGN.md §5 C09"),
}

checks = []
for p in props:
    pid = p["id"]
    if pid in CLAIMS:
        c = CLAIMS[pid]
        checks.append({
            "property_id": pid,
            "quick_cmd": f"./check {pid} --tier quick",
            "thorough_cmd": f"./check {pid} --tier thorough",
            "evidence_file": f"/verif/evidence/{pid}.json",
            "replay_cmd_template": f"./check {pid} --replay {{path}}",
            "engine": "lean-optyx-model",
            "level_claimed": {"category": c.get("category", "proof"), "text": c["text"], "design_ref": c["design_ref"]},
            "level_note": c["note"],
            "technique": c["technique"],
        })
na = [{"property_id": p["id"], "reason": "check under construction in this round (see DESIGN.md); will move to checks when its Lean theorems and correspondence run are in place"}
      for p in props if p["id"] not in CLAIMS]
man = {
 "version": 1,
 "setup_cmd": "./setup.sh",
 "hooks": {"guard": "OPTYX_VERIF", "enable": "no source hooks are needed: checks observe optyx through public functions, module attributes and import seams wrapped from outside (OPTYX_REPO selects the tree under test)",
           "baseline_off_cmd": "cd /repo && /venv/bin/python -m pytest -ra -q -p no:cacheprovider --timeout=900 --continue-on-collection-errors",
           "source_commits": [], "add_only": True},
 "engines": [{"name": "lean-optyx-model", "path": "/verif/lean", "serves_properties": sorted(CLAIMS),
              "kind_free_text": "Lean 4.33 + Mathlib model of optyx (lake project Optyx): executable Py.* definitions driven over a line protocol, property theorems in Optyx/Props, rule templates regenerated from source by harness/gen_tables.py"}],
 "checks": checks,
 "not_applicable": na,
 "notes": "Every check: regenerate Lean tables from /repo, build model + proofs, audit axioms, run the correspondence check and the property oracle against /repo's working tree; see DESIGN.md.",
}
json.dump(man, open(os.path.join(VERIF, "MANIFEST.json"), "w"), indent=1)
print(f"{len(checks)} checks, {len(na)} not yet claimed")
