#!/usr/bin/env python3
"""(re)generate MANIFEST.json from the table below; run after adding a property module."""
import json, os
VERIF = os.path.dirname(os.path.dirname(os.path.abspath(__file__)))
props = [json.loads(l) for l in open(os.path.join(VERIF, "properties.jsonl"))]

CLAIMS = {
 "C02": dict(
   text="Machine-checked proof (Lean 4 + Mathlib): `grad_hasDerivAt` — for every well-formed expression (all 17 node kinds), every variable, every regular point, the model of optyx's differentiator denotes the true partial derivative (HasDerivAt over the reals); `rulesIter_eq` — recursive and explicit-stack differentiators use identical rule templates. The scalar rule templates and the six simplifiers are regenerated from autodiff.py by an AST translator before every build, so the kernel re-checks the induction against the rules present in the source now; the hand-modelled vector rules and control flow are tied to the code by an exact structural correspondence run (cell cover + seeded random trees through all three tiers of gradient()), and a dual-number oracle on the real code supplies the failing input when either breaks.",
   note="Trusted: Lean kernel + propext/Classical.choice/Quot.sound; gen_tables.py translator; serialiser/driver; hand-written Py.grad vector rules validated (not proved) against the code by the correspondence run; regular points only (singular set is C19); IEEE rounding not modelled; scalar constants only.",
   technique="Lean 4 proof by mutual structural induction over a translated+hand-written model; differential correspondence check; dual-number failing-input search",
   design_ref="DESIGN.md §5 C02"),
 "C08": dict(
   text="Machine-checked proof (Lean 4 + Mathlib, any linearly ordered field): `lp_pipeline_faithful` — for ANY function linprog that meets the LP contract on the data it is given, optyx's LP path returns the verdict (optimal / infeasible / unbounded) and optimal value of the extracted model in the user's orientation (feasible sets coincide because matrices and bounds are passed through unchanged — `feasible_iff`; max f = −min(−f); un-negation and the constant term restore the value; status chain total and equal to the regenerated table — `lpStatus_table`). Tied to the code by spying the real scipy.optimize.linprog seam: keyword arguments passed and Solution returned are compared exactly with the executable model on every solve; the property's own differential (independently assembled matrix form, same solver, every writing style, 5 methods, solved twice) is the oracle that yields the failing input.",
   note="Partial in one sense: the inside of HiGHS/linprog is trusted through an explicit hypothesis (LinprogContract), never an axiom. 'Extracted data denote the user's model' is property C05. Trusted: Lean kernel + standard axioms, serialiser/driver, model of the solve_lp glue validated by the seam correspondence.",
   technique="Lean 4 proof of the pipeline for any contract-abiding solver; seam-level differential correspondence; independent-assembly LP differential",
   design_ref="DESIGN.md §5 C08"),
 "C09": dict(
   text="Machine-checked proofs (Lean 4) of the decision logic optyx adds in front of scipy.optimize.minimize: the default starting point lies inside the declared bounds (`initialPoint_in_bounds`), `auto` never selects L-BFGS-B for a constrained problem and selects trust-constr exactly when a degree is None or > 2 (`autoSelect_*`), the LP/NLP dispatch of Problem.solve (`route_lp_iff`), which optional arguments each method receives read off the regenerated method sets (`gate_table`), and maximise hands SciPy exactly −f and −∇f (`maximize_sign`). Tied to the code at the minimize seam: method chosen, arguments present, x0 and dispatch are compared with the executable model on every solve, and every captured callable (fun, jac, hess, constraint fun/jac, bounds) is probed against hand-written NumPy closures. Oracle = the property's differential: strictly convex problems with a manufactured optimum, raw SciPy with hand-written callables from the same start vs optyx.",
   note="Partial: convergence of SciPy is not provable (trusted/tested); 'raw converges ⇒ optyx OPTIMAL' is shown through equality of inputs (proved for the decision logic, validated by probing for the callables, whose correctness is C01/C03/C10/C17) plus the differential. Trusted: Lean kernel + standard axioms, serialiser/driver.",
   technique="Lean 4 proofs of argument-assembly logic; minimize-seam correspondence with callable probing; manufactured-optimum differential against raw SciPy",
   design_ref="DESIGN.md §5 C09"),
}

checks = []
for p in props:
    pid = p["id"]
    if pid in CLAIMS:
        c = CLAIMS[pid]
        checks.append({
            "property_id": pid,
            "quick_cmd": f"./check {pid} --tier quick",
            "thorough_cmd": f"./check {pid} --tier thorough",
            "evidence_file": f"/verif/evidence/{pid}.json",
            "replay_cmd_template": f"./check {pid} --replay {{path}}",
            "engine": "lean-optyx-model",
            "level_claimed": {"category": c.get("category", "proof"), "text": c["text"], "design_ref": c["design_ref"]},
            "level_note": c["note"],
            "technique": c["technique"],
        })
na = [{"property_id": p["id"], "reason": "check under construction in this round (see DESIGN.md); will move to checks when its Lean theorems and correspondence run are in place"}
      for p in props if p["id"] not in CLAIMS]
man = {
 "version": 1,
 "setup_cmd": "./setup.sh",
 "hooks": {"guard": "OPTYX_VERIF", "enable": "no source hooks are needed: checks observe optyx through public functions, module attributes and import seams wrapped from outside (OPTYX_REPO selects the tree under test)",
           "baseline_off_cmd": "cd /repo && /venv/bin/python -m pytest -ra -q -p no:cacheprovider --timeout=900 --continue-on-collection-errors",
           "source_commits": [], "add_only": True},
 "engines": [{"name": "lean-optyx-model", "path": "/verif/lean", "serves_properties": sorted(CLAIMS),
              "kind_free_text": "Lean 4.33 + Mathlib model of optyx (lake project Optyx): executable Py.* definitions driven over a line protocol, property theorems in Optyx/Props, rule templates regenerated from source by harness/gen_tables.py"}],
 "checks": checks,
 "not_applicable": na,
 "notes": "Every check: regenerate Lean tables from /repo, build model + proofs, audit axioms, run the correspondence check and the property oracle against /repo's working tree; see DESIGN.md.",
}
json.dump(man, open(os.path.join(VERIF, "MANIFEST.json"), "w"), indent=1)
print(f"{len(checks)} checks, {len(na)} not yet claimed")
