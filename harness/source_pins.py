"""Transcription anchors ("source pins"): for every function whose behaviour a hand-written `Py.*` model transcribes and
that is *not* translated by gen_tables.py / py2lean.py, a fingerprint of its current source (docstrings, comments, `__repr__`
methods and formatting removed) is regenerated into `Generated/Pins<Cxx>.lean` on every run; `Props/Pins<Cxx>.lean` holds the
fingerprints of the text the model was read from, one `rfl` theorem per function.  A change to an anchored function therefore
breaks a proof obligation of the properties whose statements depend on it (CONES below: the property whose model transcribes the
function, and the properties whose models compose with that model), the run escalates and searches for a failing input, and
reports as DESIGN §2.3 prescribes.

`python3 source_pins.py --update` (a developer action, never run by a check) rewrites the Props/Pins*.lean files from the
current /repo — to be used after a deliberate, reviewed change of /repo (e.g. a `fix:` commit) once the model has been re-read.
"""
from __future__ import annotations

import ast
import hashlib
import os
import sys

# groups of functions that hand-written models transcribe (none of them is covered by a translator)
GROUPS: dict[str, list[tuple[str, str]]] = {
    # _build_evaluator / _build_vector_evaluator / the loop of _build_evaluator_iterative are translated whole (py2lean_build.py -> Generated/BuildStep, Props/BuildTie)
    # compile_expression, _param_value, compile_to_dict_function, CompiledExpression are translated (py2lean_entry.py);
    # _compile_cached and _estimate_tree_depth by py2lean_spine.py
    "compile": [],
    "jacobian": [("core/compiler.py", n) for n in ("compile_gradient", "_compile_vectorized_power_gradient",
                                                    "_compile_vectorized_unary_gradient")]
                + [("core/autodiff.py", n) for n in ("compile_jacobian",)],   # _is_scaled_variable_pattern: py2lean_scaled.py
    # compute_jacobian / compute_hessian are translated (py2lean_symjac.py)
    "hessian": [("core/autodiff.py", "compile_hessian")],
    # compute_degree, _compute_degree_cached, is_linear, is_quadratic, Expression.degree are translated (py2lean_degentry.py)
    "degree": [("analysis.py", "_estimate_tree_depth")],
    # extract_all_linear_coefficients, _try_extract_fast_binop, _vector_is_aligned are translated (py2lean_lpfast.py)
    # extract_linear_coefficient / extract_constant_term (guard + walker) are translated (py2lean_lpfast.py)
    "lp_extract": [],
    "solution": [("solution.py", "Solution")],
    "solve_lp": [("solvers/lp_solver.py", "solve_lp")],
    "solve_scipy": [("solvers/scipy_solver.py", "solve_scipy")],
    # Constraint.violation / is_satisfied / __post_init__ / evaluate are translated (py2lean_post.gen_constraint ->
    # Generated/ConstraintFns, Props/ConstraintTie); _make_constraint's shape is pinned by Glue.makeConstraint_shape
    # Constraint.get_variables is pinned as text by py2lean_post.gen_constraint (ConstraintTie.getVariables_text)
    "constraint": [("constraints.py", "_make_constraint")],
    "vecmat": [("core/vectors.py", "VectorVariable"), ("core/matrices.py", "MatrixVariable")],
    # the scalar Parameter class and _as_parameter_value are translated (py2lean_param.py -> Generated/ParamClass, Props/ParamTie)
    "parameter": [],
    # __init__, _invalidate_caches, minimize, maximize, subject_to, _is_linear_problem, n_variables, get_bounds are translated
    # (py2lean_state.py -> Generated/ProblemEdit, Props/StateTie) and therefore not anchored
    "problem_edit": [("problem.py", f"Problem.{m}") for m in ("_validate_expression", "_validate_constraint",
                                                               "_only_simple_bounds", "_has_equality_constraints")],
    # Problem.variables: memo, shortcut test and general path are translated (py2lean_state.gen_problem_variables)
    # objective, sense, constraints, n_constraints are pinned statement by statement (py2lean_state -> problemReadersG,
    # StateTie.accessors_text)
    "problem_read": [("problem.py", "Problem.summary")],
    # get_all_variables and the three left-spine `_estimate_tree_depth` are translated (py2lean_spine.py), the loop of
    # _get_variables_iterative by py2lean_varsiter.py
    "get_variables": [],
    # the get_variables methods of all classes are translated (py2lean_vars.py)
    # _gradient_iterative: rule templates (gen_tables) + control skeleton (py2lean_graditer) are translated
    "iterative": [("core/autodiff.py", "gradient")],
    # increased_recursion_limit is translated (py2lean_post.gen_limit_shape -> Generated/HookShape, Props/HookTie)
    "solve": [("problem.py", "Problem.solve")],
}

# property -> the groups its statement depends on (its own model's transcription first, then the models it composes with)
CONES: dict[str, list[str]] = {
    "C01": ["compile"],
    "C03": ["jacobian", "compile"],
    "C04": ["degree"],
    "C05": ["lp_extract"],
    "C06": ["solve_scipy", "solve_lp", "compile", "lp_extract", "constraint"],
    "C07": ["solution", "solve_scipy", "solve_lp", "problem_edit", "compile"],
    "C08": ["solve_lp", "lp_extract", "problem_edit"],
    "C09": ["solve_scipy", "compile", "jacobian", "hessian"],
    "C10": ["constraint", "solve_scipy"],
    "C11": ["vecmat"],
    "C12": ["parameter", "compile", "jacobian", "hessian"],
    "C13": ["problem_edit", "problem_read", "solve", "solve_scipy", "solve_lp"],
    "C14": ["compile", "problem_edit", "problem_read", "constraint", "jacobian", "hessian", "degree", "parameter", "get_variables"],
    "C15": ["iterative", "get_variables", "compile"],
    "C16": ["problem_read", "get_variables"],
    "C17": ["hessian", "compile"],
    "C18": ["solve", "solve_lp", "solve_scipy"],
    "C19": ["jacobian", "hessian"],
    "C20": ["solve", "solve_scipy", "solve_lp", "jacobian", "hessian", "compile"],
}

ANCHORS: dict[str, list[tuple[str, str]]] = {}
for _p, _gs in CONES.items():
    _seen: list[tuple[str, str]] = []
    for _g in _gs:
        for _fq in GROUPS[_g]:
            if _fq not in _seen:
                _seen.append(_fq)
    ANCHORS[_p] = _seen

SKIP_METHODS = {"__repr__", "__str__", "_repr_html_"}


class PinError(Exception):
    pass


def _strip(node: ast.AST) -> ast.AST:
    """remove docstrings and representation-only methods"""
    for n in ast.walk(node):
        body = getattr(n, "body", None)
        if isinstance(body, list):
            new = []
            for i, st in enumerate(body):
                if i == 0 and isinstance(st, ast.Expr) and isinstance(st.value, ast.Constant) and isinstance(st.value.value, str) \
                        and isinstance(n, (ast.FunctionDef, ast.ClassDef, ast.AsyncFunctionDef, ast.Module)):
                    continue
                if isinstance(st, ast.FunctionDef) and st.name in SKIP_METHODS and isinstance(n, ast.ClassDef):
                    continue
                new.append(st)
            n.body = new or [ast.Pass()]
    return node


def find(tree: ast.AST, qual: str) -> ast.AST:
    parts = qual.split(".")
    cur = tree
    for p in parts:
        nxt = next((n for n in getattr(cur, "body", []) if isinstance(n, (ast.FunctionDef, ast.ClassDef)) and n.name == p), None)
        if nxt is None:
            raise PinError(f"{qual} not found")
        cur = nxt
    return cur


def _cut_translated(file: str, qual: str, node: ast.AST) -> ast.AST:
    """statements of an anchored function that a translator turns into Lean functions are not part of the anchor
    (they are tied by the translation itself): the post-processing segment of `solve_scipy` (py2lean_post.py)"""
    if (file, qual) == ("solvers/scipy_solver.py", "solve_scipy"):
        import py2lean_post
        try:
            a, b = py2lean_post.post_segment(node)
        except py2lean_post.TranslateError:
            return node
        node.body = node.body[:a] + node.body[b:]
    return node


def fingerprint(repo: str, file: str, qual: str) -> str:
    tree = ast.parse(open(os.path.join(repo, "src/optyx", file)).read())
    node = _strip(_cut_translated(file, qual, find(tree, qual)))
    return hashlib.sha256(ast.unparse(node).encode()).hexdigest()[:16]


def lean_name(file: str, qual: str) -> str:
    return "pin_" + (os.path.basename(file)[:-3] + "_" + qual).replace(".", "_").replace("__", "_").strip("_")


def generated(repo: str, prop: str) -> str:
    out = []
    for file, qual in ANCHORS[prop]:
        out.append(f"/-- fingerprint of `{qual}` ({file}) as it is in the source now -/")
        out.append(f"def {lean_name(file, qual)} : String := \"{fingerprint(repo, file, qual)}\"")
    return "\n".join(out) + "\n"


def expected(repo: str, prop: str) -> str:
    names = [lean_name(f, q) for f, q in ANCHORS[prop]]
    out = [f"/-\n  Optyx.Props.Pins{prop} — transcription anchors of {prop} (harness/source_pins.py).\n"
           f"  Each theorem says: the function the hand-written model of {prop} was read from has, in the source of this run,\n"
           f"  the fingerprint of the text it was read from.  Rewritten only by `source_pins.py --update` after a reviewed change.\n-/",
           f"import Optyx.Generated.Pins{prop}", "", f"namespace Optyx.Props.Pins{prop}", f"open Optyx.Generated.Pins{prop}", ""]
    for (file, qual), nm in zip(ANCHORS[prop], names):
        out.append(f"/-- `{qual}` ({file}) -/")
        out.append(f"theorem {nm}_anchor : {nm} = \"{fingerprint(repo, file, qual)}\" := rfl")
    out.append("")
    out.append(f"/-- every function the model of {prop} transcribes (and no translator covers) is the one it was read from -/")
    if not names:
        # every function the model of this property was read from is covered by a translator: nothing is left to anchor
        out.append("theorem anchors : True := trivial")
    else:
        out.append("theorem anchors : " + " ∧ ".join(f"{nm} = \"{fingerprint(repo, f, q)}\"" for (f, q), nm in zip(ANCHORS[prop], names)) + " :=")
        out.append("  ⟨" + ", ".join(f"{nm}_anchor" for nm in names) + "⟩" if len(names) > 1 else f"  {names[0]}_anchor")
    out.append("")
    out.append(f"end Optyx.Props.Pins{prop}")
    return "\n".join(out) + "\n"


if __name__ == "__main__":
    if "--update" in sys.argv:
        repo = os.environ.get("OPTYX_REPO", "/repo")
        here = os.path.dirname(os.path.dirname(os.path.abspath(__file__)))
        for prop in ANCHORS:
            p = os.path.join(here, "lean/Optyx/Props", f"Pins{prop}.lean")
            open(p, "w").write(expected(repo, prop))
            print("wrote", p)
