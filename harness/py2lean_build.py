"""py2lean_build — whole-body translation of the recursive closure compiler (`_build_evaluator`, `_build_vector_evaluator`
in core/compiler.py) into the non-recursive step functionals `buildStepG idx recE recV` / `buildVecStepG idx recE`
(`Generated/BuildStep.lean`): every recursive call is a call of a function parameter, every `var_indices[...]` look-up is a
monadic bind in the source's statement order (so the first KeyError is the one the source raises first), and every
`return lambda x, a=…, b=…: BODY` becomes the closure-IR constructor that the *body text* denotes (SHAPES below: the
lambda's default names are replaced by positional holes; a body that is not in the table is a translation error).

`Props/BuildTie.lean` proves that the hand-written `Py.compile` / `Py.compileVec` satisfy these equations and are their
only solution; `C01.compile_sound_of_source_equations` restates compiler correctness for whatever the equations define.
"""
from __future__ import annotations

import ast

import py2lean
from py2lean import CTORS, NON_SCALAR, TranslateError, classes_of

BINOPS = {"+": "add", "-": "sub", "*": "mul", "/": "div", "**": "pow"}


def _u(n) -> str:
    return ast.unparse(n)


class _Holes(ast.NodeTransformer):
    def __init__(self, defaults: list[str], free: set[str]):
        self.d = {n: f"H{i + 1}" for i, n in enumerate(defaults)}
        self.free = free
        self.used_free: list[str] = []

    def visit_Name(self, node):
        if node.id in self.d:
            return ast.copy_location(ast.Name(id=self.d[node.id], ctx=node.ctx), node)
        if node.id in self.free:
            if node.id not in self.used_free:
                self.used_free.append(node.id)
            return ast.copy_location(ast.Name(id=f"F{self.used_free.index(node.id) + 1}", ctx=node.ctx), node)
        return node


# body text with holes -> (types of the holes / free names, constructor template)
SHAPES = {
    "F1": (["Cst"], ".const {0}"),
    "H1": (["Cst"], ".const {0}"),
    "_param_value(H1)": (["Par"], ".param {0}"),
    "x[H1]": (["Idx"], ".idx {0}"),
    "np.dot(H1, x[H2])": (["RatList", "Idxs"], ".dotIdx {0} {1}"),
    "np.dot(H1, np.array([f(x) for f in H2]))": (["RatList", "Fns"], ".dotFns {0} {1}"),
    "np.sum(x[H1])": (["Idxs"], ".sumIdx {0}"),
    "np.float64(sum((f(x) for f in H1)))": (["Fns"], ".sumFns {0}"),
    "np.dot(H1(x), H2(x))": (["VFn", "VFn"], ".dotVV {0} {1}"),
    "np.linalg.norm(H1(x))": (["VFn"], ".norm {0}"),
    "np.sum(np.abs(H1(x)))": (["VFn"], ".sumAbs {0}"),
    "np.float64(H1(x) @ H2 @ H1(x))": (["VFn", "RatMat"], ".quad {0} {1}"),
    "np.float64(np.sqrt(sum((f(x) * f(x) for f in H1))))": (["Fns"], ".sqrtSumSq {0}"),
    "np.float64(np.sum(x[H1] ** H2))": (["Idxs", "Rat"], ".powSumIdx {0} {1}"),
    "np.float64(np.sum(H2(x[H1])))": (["Idxs", "VOpFn"], ".unSumIdx {0} {1}"),
    "H1(x) + H2(x)": (["Fn", "Fn"], ".bin .add {0} {1}"),
    "H1(x) - H2(x)": (["Fn", "Fn"], ".bin .sub {0} {1}"),
    "H1(x) * H2(x)": (["Fn", "Fn"], ".bin .mul {0} {1}"),
    "H1(x) / H2(x)": (["Fn", "Fn"], ".bin .div {0} {1}"),
    "H1(x) ** H2(x)": (["Fn", "Fn"], ".bin .pow {0} {1}"),
    "H2(H1(x))": (["Fn", "UnOpFn"], ".un {1} {0}"),
}
VSHAPES = {
    "x[H1]": (["Idxs"], ".gather {0}"),
    "np.array([f(x) for f in H1])": (["Fns"], ".fns {0}"),
}


class BuildCompiler:
    def __init__(self, where: str, subject: str, shapes: dict, rec_e: str, rec_v: str | None):
        self.where, self.subject, self.shapes = where, subject, shapes
        self.rec_e, self.rec_v = rec_e, rec_v
        self.fresh = 0

    def new(self, b):
        self.fresh += 1
        return f"{b}{self.fresh}"

    def fail(self, node, why):
        raise TranslateError(f"{self.where}: {why}: {_u(node)[:90]!r} (line {getattr(node, 'lineno', '?')})")

    # ---- right-hand sides: -> (kind, term, type); kind "pure" = alias, "bind" = monadic
    def rhs(self, val: ast.AST, env: dict):
        u = _u(val)
        s = self.subject
        if u in env:
            return ("pure",) + env[u]
        if u == s and s in env:
            return ("pure",) + env[s]
        m_attr = val if isinstance(val, ast.Attribute) else None
        if isinstance(val, ast.Call) and _u(val.func) == "np.asarray" and len(val.args) == 1 and _u(val.args[0]) in env:
            return ("pure",) + env[_u(val.args[0])]
        if isinstance(val, ast.Subscript) and _u(val.value) == "var_indices":
            k = _u(val.slice)
            if k == f"{s}.name" and env.get(s, ("", ""))[1] == "Var":
                return ("bind", f"lookupIdx idx {env[s][0]}", "Idx")
            self.fail(val, "var_indices[…] of something that is not the variable's name")
        if isinstance(val, ast.Call) and _u(val.func) == "np.array" and len(val.args) == 1 and isinstance(val.args[0], ast.ListComp):
            lc = val.args[0]
            if len(lc.generators) == 1 and not lc.generators[0].ifs and _u(lc.elt) == f"var_indices[{_u(lc.generators[0].target)}.name]":
                it = _u(lc.generators[0].iter)
                if it.endswith("._variables") and it[:-len("._variables")] in env and env[it[:-len("._variables")]][1] == "VVar":
                    return ("bind", f"lookupIdxs idx {env[it[:-len('._variables')]][0]}.vars", "Idxs")
            self.fail(val, "index-array comprehension")
        if isinstance(val, ast.ListComp) and isinstance(val.elt, ast.Call) and _u(val.elt.func) == "_build_evaluator" \
                and len(val.elt.args) == 2 and _u(val.elt.args[1]) == "var_indices":
            gens = val.generators
            if len(gens) == 1 and not gens[0].ifs and _u(val.elt.args[0]) == _u(gens[0].target):
                it = _u(gens[0].iter)
                if it.endswith("._expressions"):
                    b = env.get(it[:-len("._expressions")])
                    if b and b[1] == "ExprList":
                        return ("bind", f"mapRec {self.rec_e} {b[0]}", "Fns")
                self.fail(val, "element comprehension over something that is not a VectorExpression")
            if len(gens) == 2 and not gens[0].ifs and not gens[1].ifs and _u(gens[1].iter) == _u(gens[0].target) \
                    and _u(val.elt.args[0]) == _u(gens[1].target):
                it = _u(gens[0].iter)
                b = env.get(it)
                if b is None and it.endswith("._variables"):
                    b0 = env.get(it[:-len("._variables")])
                    if b0 and b0[1] == "MVar":
                        b = (b0[0], "RowsV")
                if b and b[1] == "RowsV":
                    return ("bind", f"mapRecVars {self.rec_e} {b[0]}.flat", "Fns")
                if b and b[1] == "RowsE":
                    return ("bind", f"mapRec {self.rec_e} {b[0]}", "Fns")
                self.fail(val, "row-major comprehension over unknown rows")
            self.fail(val, "element comprehension")
        if isinstance(val, ast.Call) and len(val.args) == 2 and _u(val.args[1]) == "var_indices" and _u(val.args[0]) in env:
            f = _u(val.func)
            t, ty = env[_u(val.args[0])]
            if f == "_build_evaluator" and ty == "Expr":
                return ("bind", f"{self.rec_e} {t}", "Fn")
            if f == "_build_vector_evaluator" and ty == "Vec" and self.rec_v:
                return ("bind", f"{self.rec_v} {t}", "VFn")
            self.fail(val, "recursive call")
        # mat._variables if isinstance(mat, MatrixVariable) else mat._expressions
        if isinstance(val, ast.IfExp) and _u(val.test).startswith("isinstance(") and _u(val.test).endswith(", MatrixVariable)"):
            x = _u(val.test)[len("isinstance("):-len(", MatrixVariable)")]
            if _u(val.body) == f"{x}._variables" and _u(val.orelse) == f"{x}._expressions" and x in env:
                t, ty = env[x]
                if ty == "MVar":
                    return ("pure", t, "RowsV")
                if ty == "ExprList":
                    return ("pure", t, "RowsE")
            self.fail(val, "rows of a matrix")
        if isinstance(val, ast.Subscript) and _u(val.value).endswith("._NUMPY_FUNCS") and _u(val.slice) in env \
                and env[_u(val.slice)][1] == "VOp":
            return ("pure", env[_u(val.slice)][0], "VOpFn")
        if u == f"{s}._numpy_func" and f"{s}.op" in env and env[f"{s}.op"][1] == "UnOp":
            return ("pure", env[f"{s}.op"][0], "UnOpFn")
        self.fail(val, "unsupported right-hand side")

    def lam_term(self, node: ast.Lambda, env: dict) -> str:
        a = node.args
        names = [x.arg for x in a.args]
        if not names or names[0] != "x" or a.vararg or a.kwarg or a.kwonlyargs or len(a.defaults) != len(names) - 1:
            self.fail(node, "lambda signature")
        dnames = names[1:]
        free = {n.id for n in ast.walk(node.body) if isinstance(n, ast.Name)} - set(names) - {"np", "sum", "f", "_param_value"}
        free = {n for n in free if n in env}
        h = _Holes(dnames, free)
        body = _u(h.visit(ast.parse(_u(node.body), mode="eval").body))
        if body not in self.shapes:
            self.fail(node, f"closure body outside the table of lambda shapes ({body!r})")
        types, tmpl = self.shapes[body]
        args = []
        srcs = [(_u(d)) for d in a.defaults] + h.used_free
        if body.startswith("F") or "F1" in body:
            srcs = h.used_free + [(_u(d)) for d in a.defaults]
        if len(srcs) != len(types):
            self.fail(node, "number of captured values")
        for sname, want in zip(srcs, types):
            if sname not in env:
                self.fail(node, f"captured value {sname!r} is not a local")
            t, ty = env[sname]
            if ty != want:
                self.fail(node, f"captured value {sname!r} is a {ty}, the closure shape needs a {want}")
            args.append(t)
        return tmpl.format(*args)

    def lam(self, node: ast.Lambda, env: dict) -> str:
        return "pure (" + self.lam_term(node, env) + ")"

    def block(self, stmts: list[ast.stmt], env: dict, ind: str) -> str:
        stmts = [s for s in stmts if not py2lean.RuleCompiler.skip(s)]
        if not stmts:
            raise TranslateError(f"{self.where}: control reaches the end of a branch without `return`")
        st, rest = stmts[0], stmts[1:]
        nl = "\n" + ind
        if isinstance(st, ast.Return):
            if isinstance(st.value, ast.Lambda):
                return self.lam(st.value, env)
            self.fail(st, "return of something that is not a lambda")
        if isinstance(st, ast.Raise):
            return None  # marks an unreachable / error branch for the caller
        if isinstance(st, ast.Assign) and len(st.targets) == 1 and isinstance(st.targets[0], ast.Name):
            nm = st.targets[0].id
            kind, t, ty = self.rhs(st.value, env)
            e2 = dict(env)
            if kind == "pure":
                e2[nm] = (t, ty)
                return self.block(rest, e2, ind)
            v = self.new(nm + "_")
            e2[nm] = (v, ty)
            r = self.block(rest, e2, ind)
            return f"do{nl}let {v} ← {t}{nl}{r}" if not r.startswith("do" + nl) else f"do{nl}let {v} ← {t}{r[2:]}"
        if isinstance(st, ast.If):
            # isinstance(<subject>.field, VectorVariable)
            t = st.test
            if isinstance(t, ast.Call) and _u(t.func) == "isinstance" and len(t.args) == 2 and _u(t.args[1]) == "VectorVariable":
                x = _u(t.args[0])
                if x in env and env[x][1] == "Vec":
                    w, es = self.new("w"), self.new("es")
                    e_yes = dict(env); e_yes[x] = (w, "VVar")
                    e_no = dict(env); e_no[x] = (es, "ExprList")
                    a = self.block(st.body + ([] if self.ends(st.body) else rest), e_yes, ind + "    ")
                    b = self.block((st.orelse or []) + ([] if (st.orelse and self.ends(st.orelse)) else rest), e_no, ind + "    ")
                    return f"match {env[x][0]} with{nl}| .vars {w} =>{nl}    {a}{nl}| .exprs {es} =>{nl}    {b}"
                self.fail(t, "isinstance(…, VectorVariable) on something that is not a vector operand")
            # op == "+" chain
            chain, cur, tail = [], st, None
            while isinstance(cur, ast.If):
                c = cur.test
                if not (isinstance(c, ast.Compare) and len(c.ops) == 1 and isinstance(c.ops[0], ast.Eq)
                        and _u(c.left) in env and env[_u(c.left)][1] == "BinOp" and isinstance(c.comparators[0], ast.Constant)):
                    self.fail(c, "unsupported condition")
                chain.append((c.comparators[0].value, cur.body, env[_u(c.left)][0]))
                if len(cur.orelse) == 1 and isinstance(cur.orelse[0], ast.If):
                    cur = cur.orelse[0]
                else:
                    tail = cur.orelse
                    break
            if rest:
                self.fail(st, "statements after an operator chain")
            if tail and not isinstance(tail[-1], ast.Raise):
                self.fail(st, "the else branch of the operator chain does not raise")
            seen = [c[0] for c in chain]
            if sorted(seen) != sorted(BINOPS):
                self.fail(st, f"operator chain covers {seen}")
            arms = [f"| .{BINOPS[o]} => {self.block(b, env, ind + '    ')}" for o, b, _ in chain]
            return f"match {chain[0][2]} with{nl}" + nl.join(arms)
        self.fail(st, "unsupported statement")

    @staticmethod
    def ends(stmts):
        if not stmts:
            return False
        s = stmts[-1]
        if isinstance(s, (ast.Return, ast.Raise)):
            return True
        if isinstance(s, ast.If) and s.orelse:
            return BuildCompiler.ends(s.body) and BuildCompiler.ends(s.orelse)
        return False


def class_branches(fn: ast.FunctionDef, subject: str) -> tuple[dict[str, list[ast.stmt]], list[ast.stmt]]:
    """the top-level `if isinstance(subject, C): … elif …: … else: …` chain -> {class: body}, else-body"""
    chain = next((s for s in fn.body if isinstance(s, ast.If) and classes_of(s.test, subject) is not None), None)
    if chain is None:
        raise TranslateError(f"{fn.name}: no isinstance chain on {subject}")
    out, cur = {}, chain
    while True:
        cl = classes_of(cur.test, subject)
        if cl is None:
            raise TranslateError(f"{fn.name}: test {_u(cur.test)!r} in the class chain")
        for c in cl:
            if c in out:
                raise TranslateError(f"{fn.name}: class {c} tested twice")
            out[c] = cur.body
        if len(cur.orelse) == 1 and isinstance(cur.orelse[0], ast.If):
            cur = cur.orelse[0]
        else:
            return out, cur.orelse


def gen_build_step(cmp_: ast.AST) -> str:
    be = py2lean.find_func(cmp_, "_build_evaluator")
    bv = py2lean.find_func(cmp_, "_build_vector_evaluator")
    branches, tail = class_branches(be, "expr")
    if not tail or not isinstance(tail[-1], ast.Raise):
        raise TranslateError("_build_evaluator: the final else does not raise")
    known = {k for k, _, _ in CTORS} | set(NON_SCALAR)
    for c in branches:
        if c not in known:
            raise TranslateError(f"_build_evaluator: class unknown to the model: {c}")
    # order matters only between classes related by inheritance; Parameter / Variable / Constant are unrelated leaves,
    # every vector node is a direct subclass of Expression (checked by the correspondence run)
    out = ["/-- `_build_evaluator(expr, var_indices)`; `recE` / `recV` stand for the recursive calls of `_build_evaluator` /",
           "    `_build_vector_evaluator` -/",
           "def buildStepG (idx : String → Option Nat) (recE : Expr → Except CErr Clo) (recV : Vec → Except CErr VClo) :",
           "    Expr → Except CErr Clo"]
    for cls, ctor, fields in CTORS:
        if cls not in branches:
            raise TranslateError(f"_build_evaluator: no branch for {cls}")
        comp = BuildCompiler("_build_evaluator", "expr", SHAPES, "recE", "recV")
        env = {}
        binders = " ".join(b for _, b, _ in fields)
        for attr, b, ty in fields:
            if attr:
                env[f"expr.{attr}"] = (b, ty)
            else:
                env["expr"] = (b, ty)
        if cls == "Parameter":
            env["expr"] = (fields[0][1], "Par")
        if cls == "MatrixSum":
            env["expr.matrix"] = (fields[0][1], "MVar" if ctor == "matSumV" else "ExprList")
        if cls in ("VectorExpressionSum",):
            env["expr.expression"] = (fields[0][1], "ExprList")
        body = comp.block(branches[cls], env, "      ")
        if body is None:
            raise TranslateError(f"_build_evaluator: the {cls} branch raises")
        out.append(f"  | .{ctor} {binders} =>\n      {body}")
    vb, vtail = class_branches(bv, "vec")
    if set(vb) != {"VectorVariable", "VectorExpression"} or not vtail or not isinstance(vtail[-1], ast.Raise):
        raise TranslateError(f"_build_vector_evaluator: branches {sorted(vb)}")
    out += ["", "/-- `_build_vector_evaluator(vec, var_indices)` -/",
            "def buildVecStepG (idx : String → Option Nat) (recE : Expr → Except CErr Clo) : Vec → Except CErr VClo"]
    comp = BuildCompiler("_build_vector_evaluator", "vec", VSHAPES, "recE", None)
    out.append("  | .vars w =>\n      " + comp.block(vb["VectorVariable"], {"vec": ("w", "VVar")}, "      "))
    comp = BuildCompiler("_build_vector_evaluator", "vec", VSHAPES, "recE", None)
    out.append("  | .exprs es =>\n      " + comp.block(vb["VectorExpression"], {"vec": ("es", "ExprList")}, "      "))
    return "\n".join(out) + "\n"


# ======================================================================================================
#  `_build_evaluator_iterative`: one iteration of its `while stack:` loop
# ======================================================================================================

class IterCompiler(BuildCompiler):
    """statement blocks of the loop body; state = (stack term, result-stack term)"""

    def iblock(self, stmts, env, ind, stk, res):
        stmts = [s for s in stmts if not py2lean.RuleCompiler.skip(s)]
        nl = "\n" + ind
        if not stmts:
            raise TranslateError(f"{self.where}: a path falls off the end of the loop body")
        st, rest = stmts[0], stmts[1:]
        if isinstance(st, ast.Continue):
            return f".ok ⟨{stk}, {res}⟩"
        if isinstance(st, ast.Raise):
            return None
        if isinstance(st, ast.Expr) and isinstance(st.value, ast.Call):
            f, args = _u(st.value.func), st.value.args
            if f == "result_stack.append" and len(args) == 1:
                a = args[0]
                if isinstance(a, ast.Lambda):
                    return self.iblock(rest, env, ind, stk, f"({self.lam_term(a, env)} :: {res})")
                kind, t, ty = self.rhs(a, env)
                if kind == "bind" and ty == "Fn":
                    v = self.new("c")
                    return f"match {t} with{nl}| .error err => .error err{nl}| .ok {v} =>{nl}  " + self.iblock(rest, env, ind + "  ", stk, f"({v} :: {res})")
                self.fail(st, "result_stack.append of something that is not a closure")
            if f == "stack.append" and len(args) == 1 and isinstance(args[0], ast.Tuple) and len(args[0].elts) == 3:
                e, ph, ch = args[0].elts
                if _u(ch) != "[]" or not isinstance(ph, ast.Constant) or _u(e) not in env or env[_u(e)][1] != "Expr":
                    self.fail(st, "stack entry")
                return self.iblock(rest, env, ind, f"(({env[_u(e)][0]}, {ph.value}) :: {stk})", res)
            self.fail(st, "unsupported call")
        if isinstance(st, ast.Assign) and len(st.targets) == 1 and isinstance(st.targets[0], ast.Name):
            nm, val = st.targets[0].id, st.value
            if _u(val) == "result_stack.pop()":
                x, rs = self.new("f"), self.new("rs")
                e2 = dict(env); e2[nm] = (x, "Fn")
                return (f"match {res} with{nl}| [] => .error .popEmpty{nl}| {x} :: {rs} =>{nl}  "
                        + self.iblock(rest, e2, ind + "  ", stk, rs))
            if _u(val) == "[]" and rest and isinstance(rest[0], ast.For):
                loop = rest[0]
                it = _u(loop.iter)
                if not it.endswith("._expressions") or it[:-len("._expressions")] not in env \
                        or env[it[:-len("._expressions")]][1] != "ExprList" or loop.orelse:
                    self.fail(loop, "element loop")
                key = (nm, _u(loop.target), "\n".join(_u(x) for x in loop.body))
                self.elem_loops.append((key, loop))
                v = self.new(nm + "_")
                e2 = dict(env); e2[nm] = (v, "Fns")
                t = f"mapRec (elemIterG idx {self.rec_e}) {env[it[:-len('._expressions')]][0]}"
                return f"match {t} with{nl}| .error err => .error err{nl}| .ok {v} =>{nl}  " + self.iblock(rest[1:], e2, ind + "  ", stk, res)
            kind, t, ty = self.rhs(val, env)
            e2 = dict(env)
            if kind == "pure":
                e2[nm] = (t, ty)
                return self.iblock(rest, e2, ind, stk, res)
            v = self.new(nm + "_")
            e2[nm] = (v, ty)
            return f"match {t} with{nl}| .error err => .error err{nl}| .ok {v} =>{nl}  " + self.iblock(rest, e2, ind + "  ", stk, res)
        if isinstance(st, ast.If):
            body = st.body if self.iends(st.body) else st.body + rest
            orelse = st.orelse if (st.orelse and self.iends(st.orelse)) else (st.orelse or []) + rest
            t = st.test
            if isinstance(t, ast.Call) and _u(t.func) == "isinstance" and len(t.args) == 2 and _u(t.args[1]) == "VectorVariable":
                x = _u(t.args[0])
                if x in env and env[x][1] == "Vec":
                    w, es = self.new("w"), self.new("es")
                    e_yes = dict(env); e_yes[x] = (w, "VVar")
                    e_no = dict(env); e_no[x] = (es, "ExprList")
                    return (f"match {env[x][0]} with{nl}| .vars {w} =>{nl}    {self.iblock(body, e_yes, ind + '    ', stk, res)}"
                            f"{nl}| .exprs {es} =>{nl}    {self.iblock(orelse, e_no, ind + '    ', stk, res)}")
                self.fail(t, "isinstance(…, VectorVariable)")
            if _u(t) == "phase == 0":
                return (f"if phase == 0 then{nl}  {self.iblock(body, env, ind + '  ', stk, res)}{nl}else{nl}  "
                        f"{self.iblock(orelse, env, ind + '  ', stk, res)}")
            # operator chain
            chain, cur, tail = [], st, None
            while isinstance(cur, ast.If):
                c = cur.test
                if not (isinstance(c, ast.Compare) and len(c.ops) == 1 and isinstance(c.ops[0], ast.Eq)
                        and _u(c.left) in env and env[_u(c.left)][1] == "BinOp" and isinstance(c.comparators[0], ast.Constant)):
                    self.fail(c, "unsupported condition")
                chain.append((c.comparators[0].value, cur.body, env[_u(c.left)][0]))
                if len(cur.orelse) == 1 and isinstance(cur.orelse[0], ast.If):
                    cur = cur.orelse[0]
                else:
                    tail = cur.orelse
                    break
            if tail and not isinstance(tail[-1], ast.Raise):
                self.fail(st, "the else branch of the operator chain does not raise")
            seen = [c[0] for c in chain]
            if sorted(seen) != sorted(BINOPS):
                self.fail(st, f"operator chain covers {seen}")
            arms = [f"| .{BINOPS[o]} => {self.iblock(list(b) + rest, env, ind + '    ', stk, res)}" for o, b, _ in chain]
            return f"match {chain[0][2]} with{nl}" + nl.join(arms)
        self.fail(st, "unsupported statement")

    @staticmethod
    def iends(stmts):
        if not stmts:
            return False
        s = stmts[-1]
        if isinstance(s, (ast.Continue, ast.Raise)):
            return True
        if isinstance(s, ast.If) and s.orelse:
            return IterCompiler.iends(s.body) and IterCompiler.iends(s.orelse)
        return False


def gen_build_iter_step(cmp_: ast.AST) -> str:
    where = "_build_evaluator_iterative"
    fn = py2lean.find_func(cmp_, where)
    body = [s for s in fn.body if not py2lean.RuleCompiler.skip(s)]
    loop = next((s for s in body if isinstance(s, ast.While)), None)
    if loop is None or _u(loop.test) != "stack" or loop.orelse:
        raise TranslateError(f"{where}: no `while stack:` loop")
    frame = [" ".join(_u(s).split()) for s in body if s is not loop]
    frame = [t if not t.startswith("if not result_stack:") else "if not result_stack: raise InvalidExpressionError" for t in frame]
    lb = [s for s in loop.body if not py2lean.RuleCompiler.skip(s)]
    if not lb or _u(lb[0]) != "node, phase, children_fns = stack.pop()":
        raise TranslateError(f"{where}: the loop does not start by popping (node, phase, children_fns)")
    lb = lb[1:]
    for n in ast.walk(loop):
        if isinstance(n, ast.Name) and n.id == "children_fns" and isinstance(n.ctx, ast.Load):
            raise TranslateError(f"{where}: children_fns is read (the model does not represent it)")
    known = {k for k, _, _ in CTORS} | set(NON_SCALAR)
    elem_loops: list = []
    out = ["/-- one iteration of `while stack:` of `_build_evaluator_iterative` after `(node, phase, _) = stack.pop()`;",
           "    `recE` = `_build_evaluator`, `recV` = `_build_vector_evaluator` (both used for nodes that are not deeply nested) -/",
           "def buildIterStepG (idx : String → Option Nat) (recE : Expr → Except CErr Clo) (recV : Vec → Except CErr VClo)",
           "    (node : Expr) (phase : Nat) (stk : List (Expr × Nat)) (res : List Clo) : Except CErr CSt :=",
           "  match node with"]
    for cls, ctor, fields in CTORS:
        env = {"node": ("node", "Expr")}
        binders = " ".join(b for _, b, _ in fields)
        for attr, b, ty in fields:
            if attr:
                env[f"node.{attr}"] = (b, ty)
        if cls == "Variable":
            env["node"] = (fields[0][1], "Var")
        if cls == "Parameter":
            env["node"] = (fields[0][1], "Par")
        if cls == "MatrixSum":
            env["node.matrix"] = (fields[0][1], "MVar" if ctor == "matSumV" else "ExprList")
        whole = f"(.{ctor} {binders})"
        stmts = []
        for s in lb:
            if isinstance(s, ast.If) and not s.orelse:
                cl = classes_of(s.test, "node")
                if cl is not None:
                    for c in cl:
                        if c not in known:
                            raise TranslateError(f"{where}: class unknown to the model: {c}")
                    if cls in cl:
                        stmts += list(s.body)
                        if IterCompiler.iends(s.body):
                            break
                    continue
            stmts.append(s)
        comp = IterCompiler(where, "node", SHAPES, "recE", "recV")
        comp.elem_loops = elem_loops
        # `_build_evaluator(node, var_indices)` / stack entries refer to the node itself
        if cls in ("Variable", "Parameter"):
            env2 = dict(env)
        else:
            env2 = dict(env); env2["node"] = (whole, "Expr")
        term = comp.iblock(stmts, env2, "      ", "stk", "res")
        if term is None:
            raise TranslateError(f"{where}: the {cls} branch raises")
        out.append(f"  | .{ctor} {binders} =>\n      {term}")
    # the element loops (must all be the same loop)
    if not elem_loops:
        raise TranslateError(f"{where}: no element loop found")
    keys = {k for k, _ in elem_loops}
    if len(keys) != 1:
        raise TranslateError(f"{where}: the element loops differ from one another")
    (acc, tgt, _), lp = elem_loops[0]
    if len(lp.body) != 1 or not isinstance(lp.body[0], ast.If):
        raise TranslateError(f"{where}: element loop body")
    branches, cur = {}, lp.body[0]
    while True:
        cl = classes_of(cur.test, tgt)
        if cl is None or len(cl) != 1:
            raise TranslateError(f"{where}: element loop test {_u(cur.test)!r}")
        branches[cl[0]] = cur.body
        if len(cur.orelse) == 1 and isinstance(cur.orelse[0], ast.If):
            cur = cur.orelse[0]
        else:
            tail = cur.orelse
            break
    if set(branches) != {"Variable", "Constant"} or [_u(x) for x in tail] != [f"{acc}.append(_build_evaluator({tgt}, var_indices))"]:
        raise TranslateError(f"{where}: element loop branches {sorted(branches)} / tail {[_u(x)[:60] for x in tail]}")

    def elem_branch(stmts, env):
        comp = BuildCompiler(where + " (element loop)", tgt, SHAPES, "recE", None)
        *pre, last = stmts
        if not (isinstance(last, ast.Expr) and isinstance(last.value, ast.Call) and _u(last.value.func) == f"{acc}.append"
                and isinstance(last.value.args[0], ast.Lambda)):
            raise TranslateError(f"{where}: element branch does not end in `{acc}.append(lambda …)`")
        fake = pre + [ast.Return(value=last.value.args[0])]
        return comp.block(fake, env, "      ")
    out += ["", "/-- one element of the `elem_fns` loops of the iterative builder -/",
            "def elemIterG (idx : String → Option Nat) (recE : Expr → Except CErr Clo) : Expr → Except CErr Clo",
            "  | .var x =>\n      " + elem_branch(branches["Variable"], {tgt: ("x", "Var")}),
            "  | .const c =>\n      " + elem_branch(branches["Constant"], {f"{tgt}.value": ("c", "Cst")}),
            "  | e => recE e", ""]
    # elemIterG must precede buildIterStepG
    i0 = out.index("/-- one element of the `elem_fns` loops of the iterative builder -/")
    elem_part = out[i0:]
    main_part = out[:i0]
    import json as _json
    return ("\n".join(elem_part) + "\n" + "\n".join(main_part).rstrip() + "\n\n"
            "/-- the statements around the loop of `_build_evaluator_iterative` -/\n"
            "def buildIterFrameG : List String := [" + ", ".join(_json.dumps(t) for t in frame) + "]\n")


if __name__ == "__main__":
    import sys
    print(gen_build_step(ast.parse(open(sys.argv[1]).read())))
    print(gen_build_iter_step(ast.parse(open(sys.argv[1]).read())))
