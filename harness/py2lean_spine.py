"""py2lean_spine — the three left-spine depth estimators that decide between the recursive and the explicit-stack algorithms
(`_estimate_tree_depth` in core/compiler.py, core/expressions.py and — default mode — core/autodiff.py) and the switches that
consume them (`_compile_cached`, `get_all_variables`, `gradient`), translated into `*SpineG : Expr → SpineG` (per node class:
stop / descend into a child expression / count one and descend into a vector operand) and small switch functions
(`Generated/Spine.lean`).  `Props/SpineTie.lean`: the model's `depthC`, `depthE`, `spineBU` are the unfoldings of these."""
from __future__ import annotations

import ast

from py2lean import CTORS, NON_SCALAR, TranslateError, classes_of


def _u(n):
    return ast.unparse(n)


def _strip(stmts):
    return [s for s in stmts if not (isinstance(s, ast.Expr) and isinstance(s.value, ast.Constant))
            and not isinstance(s, (ast.Import, ast.ImportFrom))]


def find_func(tree, name):
    for n in tree.body:
        if isinstance(n, ast.FunctionDef) and n.name == name:
            return n
    raise TranslateError(f"{name} not found")


def outcome(stmts, where):
    """body of one branch: `break` -> stop; {`depth += 1`, `current = current.F`} -> ("into", F)"""
    ss = [_u(s) for s in _strip(stmts)]
    if ss == ["break"]:
        return ("stop", None)
    if len(ss) == 2 and "depth += 1" in ss:
        other = [s for s in ss if s != "depth += 1"][0]
        if other.startswith("current = current."):
            return ("into", other[len("current = current."):])
    raise TranslateError(f"{where}: branch {ss}")


def decide(chain_stmts, cls, where):
    """walk an if / elif / else chain (else may contain imports and a nested chain) for class `cls`"""
    ss = _strip(chain_stmts)
    if len(ss) == 1 and isinstance(ss[0], ast.If):
        node = ss[0]
        cl = classes_of(node.test, "current")
        if cl is None:
            raise TranslateError(f"{where}: test {_u(node.test)!r}")
        if cls in cl:
            return outcome(node.body, where)
        if not node.orelse:
            return ("stop", None)        # falls out of the chain: the loop's own `else: break` or nothing matched
        return decide(node.orelse, cls, where)
    return outcome(ss, where)


def spine(fn: ast.FunctionDef, loop: ast.While, lean: str, where: str) -> list[str]:
    known = {c for c, _, _ in CTORS} | set(NON_SCALAR) | {"VectorVariable"}
    for n in ast.walk(loop):
        if isinstance(n, ast.Call) and _u(n.func) == "isinstance" and len(n.args) == 2:
            c = n.args[1]
            for nm in ([c.id] if isinstance(c, ast.Name) else [e.id for e in c.elts]):
                if nm not in known:
                    raise TranslateError(f"{where}: class unknown to the model: {nm}")
    out = [f"def {lean} : Expr → SpineG"]
    for cls, ctor, fields in CTORS:
        kind, f = decide(loop.body, cls, where)
        binders = " ".join(b for _, b, _ in fields)
        if kind == "stop":
            out.append(f"  | .{ctor} {binders} => .stop")
            continue
        fld = next(((b, ty) for a, b, ty in fields if a == f), None)
        if fld is None:
            raise TranslateError(f"{where}: {cls} descends into unknown attribute {f}")
        if fld[1] == "Expr":
            out.append(f"  | .{ctor} {binders} => .into {fld[0]}")
        elif fld[1] in ("Vec", "VVar"):
            out.append(f"  | .{ctor} {binders} => .intoVector")     # a vector is no Expression: the next iteration stops
        else:
            raise TranslateError(f"{where}: {cls} descends into a {fld[1]}")
    return out


def gen_spine(cmp_: ast.AST, ex: ast.AST, ad: ast.AST) -> str:
    out = ["/-- one iteration of a left-spine depth estimator on a node -/",
           "inductive SpineG | stop | into (child : Expr) | intoVector", ""]
    # compiler.py / expressions.py: `depth = 0; current = expr; while True: <chain>; return depth`
    for tree, lean, where in ((cmp_, "compilerSpineG", "compiler._estimate_tree_depth"),
                              (ex, "expressionsSpineG", "expressions._estimate_tree_depth")):
        fn = find_func(tree, "_estimate_tree_depth")
        b = _strip(fn.body)
        if [_u(s) for s in b[:2]] != ["depth = 0", "current = expr"] or not isinstance(b[2], ast.While) \
                or _u(b[2].test) != "True" or _u(b[3]) != "return depth" or len(b) != 4:
            raise TranslateError(f"{where}: frame {[_u(s)[:30] for s in b]}")
        out += spine(fn, b[2], lean, where) + [""]
    # autodiff.py default mode: `else:` branch of `if full_traversal:`
    fn = find_func(ad, "_estimate_tree_depth")
    b = _strip(fn.body)
    top = b[-1]
    if not (isinstance(top, ast.If) and _u(top.test) == "full_traversal" and top.orelse):
        raise TranslateError("autodiff._estimate_tree_depth: frame")
    eb = _strip(top.orelse)
    if [_u(s) for s in eb[:2]] != ["depth = 0", "current = expr"] or not isinstance(eb[2], ast.While) \
            or _u(eb[2].test) != "depth < max_check" or _u(eb[3]) != "return depth":
        raise TranslateError(f"autodiff._estimate_tree_depth: default-mode frame {[_u(s)[:30] for s in eb]}")
    defaults = {a.arg: _u(d) for a, d in zip(fn.args.args[-len(fn.args.defaults):], fn.args.defaults)}
    # in this loop the order inside a branch is `current = …; depth += 1`
    out += spine(fn, eb[2], "autodiffSpineG", "autodiff._estimate_tree_depth") + [""]
    out += [f"def autodiffMaxCheckG : Nat := {int(defaults['max_check'])}",
            f"def autodiffFullTraversalDefaultG : Bool := {defaults['full_traversal'].lower()}", ""]
    # the switches
    cc = [_u(s) for s in _strip(find_func(cmp_, "_compile_cached").body)]
    if cc != ["var_indices = dict(var_indices_items)", "depth = _estimate_tree_depth(expr)",
              "if depth >= _RECURSION_THRESHOLD:\n    eval_func = _build_evaluator_iterative(expr, var_indices)\nelse:\n    eval_func = _build_evaluator(expr, var_indices)",
              "return eval_func"]:
        raise TranslateError(f"_compile_cached: {cc}")
    gv = [_u(s) for s in _strip(find_func(ex, "get_all_variables").body)]
    if gv != ["depth = _estimate_tree_depth(expr)", "if depth < _RECURSION_THRESHOLD:\n    try:\n        return expr.get_variables()\n    except RecursionError:\n        pass",
              "return _get_variables_iterative(expr)"]:
        raise TranslateError(f"get_all_variables: {gv}")
    out += ["/-- `_compile_cached`: the explicit-stack builder is used iff `depth >= _RECURSION_THRESHOLD` -/",
            "def compileUsesIterativeG (depth threshold : Nat) : Bool := decide (depth ≥ threshold)",
            "/-- `get_all_variables`: the recursive `get_variables()` is used iff `depth < _RECURSION_THRESHOLD` -/",
            "def varsUsesRecursiveG (depth threshold : Nat) : Bool := decide (depth < threshold)"]
    return "\n".join(out) + "\n"


if __name__ == "__main__":
    import sys
    d = sys.argv[1] + "/core/"
    P = lambda f: ast.parse(open(d + f).read())
    print(gen_spine(P("compiler.py"), P("expressions.py"), P("autodiff.py")))
