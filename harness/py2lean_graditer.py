"""py2lean_graditer — the *control skeleton* of `_gradient_iterative` (core/autodiff.py): everything in one iteration of its
`while stack:` loop except the per-operator rule templates (those are `Generated.binaryRuleIter / unaryRuleIter`).

  gradIterOrderG      the tests of the loop body in order (memo hit, registered rule, Constant, Parameter, Variable, BinaryOp,
                      UnaryOp) with what each stores
  gradIterBinCtlG     BinaryOp: given the phase and whether the children's ids are already in `results` — either compute from
                      `results[...]` (KeyError when absent) or push `(current, 1)`, then the missing children, right before left
  gradIterUnCtlG      UnaryOp: the same with one child
  gradIterFrameG      the statements around the loop

`Props/GradIterTie.lean` proves that the model's machine step `Py.gstep` (the function `C15.gradIter_eq` is about) makes
exactly these decisions."""
from __future__ import annotations

import ast
import json


class TranslateError(Exception):
    pass


def _u(n):
    return ast.unparse(n)


def _strip(stmts):
    return [s for s in stmts if not (isinstance(s, ast.Expr) and isinstance(s.value, ast.Constant))
            and not isinstance(s, (ast.Import, ast.ImportFrom))]


class Ctl:
    """symbolic execution of the control prefix of a BinaryOp / UnaryOp branch"""

    def __init__(self, where, children):
        self.where = where
        self.children = children          # python local name of the child -> role ("left" / "right" / "operand")
        self.ids = {}                     # id-variable name -> role

    def fail(self, node, why):
        raise TranslateError(f"{self.where}: {why}: {_u(node)[:90]!r} (line {getattr(node, 'lineno', '?')})")

    def member(self, t):
        """`<id> in results` / `<id> not in results` -> (role, positive?)"""
        if isinstance(t, ast.Compare) and len(t.ops) == 1 and isinstance(t.ops[0], (ast.In, ast.NotIn)) \
                and _u(t.comparators[0]) == "results":
            k = _u(t.left)
            role = self.ids.get(k)
            if role is None and k.startswith("id(") and k[3:-1] in self.children:
                role = self.children[k[3:-1]]
            if role is None:
                self.fail(t, "membership test on an unknown id")
            return role, isinstance(t.ops[0], ast.In)
        return None

    def cond(self, t):
        if isinstance(t, ast.BoolOp):
            op = " && " if isinstance(t.op, ast.And) else " || "
            return "(" + op.join(self.cond(v) for v in t.values) + ")"
        m = self.member(t)
        if m is not None:
            return f"{m[0]}In" if m[1] else f"(!{m[0]}In)"
        if _u(t) == "phase == 0":
            return "(phase == 0)"
        self.fail(t, "unsupported condition")

    def block(self, stmts, pushes, reads):
        """-> Lean term of type GradCtlG; pushes = list of Lean list-terms (in push order), reads = roles read from results"""
        stmts = _strip(stmts)
        if not stmts:
            # fell through to the rule chain: compute from the derivatives read so far
            if pushes:
                raise TranslateError(f"{self.where}: pushes without `continue`")
            need = sorted(set(self.children.values()))
            if sorted(reads) != need:
                raise TranslateError(f"{self.where}: the rule chain is reached with derivatives of {sorted(reads)} (need {need})")
            return ".compute"
        st, rest = stmts[0], stmts[1:]
        if isinstance(st, ast.Continue):
            if reads:
                self.fail(st, "continue after reading derivatives")
            return ".push (" + " ++ ".join(pushes or ["[]"]) + ")"
        if isinstance(st, ast.Assign):
            tg, val = st.targets[0], st.value
            # left_id, right_id = id(left), id(right)   /   operand_id = id(operand)
            names = [_u(e) for e in tg.elts] if isinstance(tg, ast.Tuple) else [_u(tg)]
            vals = list(val.elts) if isinstance(val, ast.Tuple) else [val]
            if len(names) == len(vals) and all(isinstance(v, ast.Call) and _u(v.func) == "id" and _u(v.args[0]) in self.children
                                               for v in vals):
                for n, v in zip(names, vals):
                    self.ids[n] = self.children[_u(v.args[0])]
                return self.block(rest, pushes, reads)
            # d_left = results[left_id]   /   d_left = results[id(left)]
            if isinstance(val, ast.Subscript) and _u(val.value) == "results" and len(names) == 1:
                k = _u(val.slice)
                role = self.ids.get(k) or (self.children.get(k[3:-1]) if k.startswith("id(") else None)
                if role is None or names[0] != f"d_{role}":
                    self.fail(st, "read of results under an unexpected name")
                return self.block(rest, pushes, reads + [role])
            self.fail(st, "unsupported assignment")
        if isinstance(st, ast.Expr) and isinstance(st.value, ast.Call) and _u(st.value.func) == "stack.append":
            a = st.value.args[0]
            if not (isinstance(a, ast.Tuple) and len(a.elts) == 3 and _u(a.elts[2]) == "[]" and isinstance(a.elts[1], ast.Constant)):
                self.fail(st, "stack entry")
            who = _u(a.elts[0])
            tag = "self" if who == "current" else self.children.get(who)
            if tag is None:
                self.fail(st, "push of an unknown node")
            return self.block(rest, pushes + [f'["{tag}:{a.elts[1].value}"]'], reads)
        if isinstance(st, ast.If):
            c = self.cond(st.test)
            def ends(b):
                b = _strip(b)
                return bool(b) and (isinstance(b[-1], ast.Continue) or (isinstance(b[-1], ast.If) and b[-1].orelse
                                                                        and ends(b[-1].body) and ends(b[-1].orelse)))
            # an `if` that only pushes (no else, no continue): conditional push
            body = _strip(st.body)
            if not st.orelse and all(isinstance(x, ast.Expr) and isinstance(x.value, ast.Call) and _u(x.value.func) == "stack.append"
                                     for x in body):
                items = []
                for x in body:
                    a = x.value.args[0]
                    who = _u(a.elts[0])
                    tag = "self" if who == "current" else self.children.get(who)
                    if tag is None or _u(a.elts[2]) != "[]":
                        self.fail(x, "stack entry")
                    items.append(f'"{tag}:{a.elts[1].value}"')
                return self.block(rest, pushes + [f"(if {c} then [{', '.join(items)}] else [])"], reads)
            b = st.body if ends(st.body) else list(st.body) + rest
            o = (st.orelse if (st.orelse and ends(st.orelse)) else list(st.orelse or []) + rest)
            return f"(if {c} then {self.block(b, pushes, reads)} else {self.block(o, pushes, reads)})"
        self.fail(st, "unsupported statement")


def gen_grad_iter_ctl(ad: ast.AST) -> str:
    where = "_gradient_iterative"
    fn = next((n for n in ast.walk(ad) if isinstance(n, ast.FunctionDef) and n.name == where), None)
    if fn is None:
        raise TranslateError(f"{where} not found")
    body = _strip(fn.body)
    loop = next((s for s in body if isinstance(s, ast.While)), None)
    if loop is None or _u(loop.test) != "stack" or loop.orelse:
        raise TranslateError(f"{where}: no `while stack:` loop")
    frame = [" ".join(_u(s).split()) for s in body if s is not loop]
    lb = _strip(loop.body)
    if [_u(x) for x in lb[:2]] != ["current, phase, child_grads = stack.pop()", "node_id = id(current)"]:
        raise TranslateError(f"{where}: loop header {[_u(x) for x in lb[:2]]}")
    for n in ast.walk(loop):
        if isinstance(n, ast.Name) and n.id == "child_grads" and isinstance(n.ctx, ast.Load):
            raise TranslateError(f"{where}: child_grads is read")
    order = []
    bin_branch = un_branch = None
    for st in lb[2:]:
        if isinstance(st, ast.Raise):
            order.append(("else", "raise"))
            continue
        if not (isinstance(st, ast.If) and not st.orelse):
            raise TranslateError(f"{where}: top-level statement {_u(st)[:80]!r}")
        t = _u(st.test)
        b = _strip(st.body)
        if t == "node_id in results":
            if [_u(x) for x in b] != ["continue"]:
                raise TranslateError(f"{where}: memo-hit branch")
            order.append(("seen", "continue"))
        elif t == "has_gradient_rule(current)":
            if [_u(x) for x in b] != ["results[node_id] = apply_gradient_rule(current, wrt)", "continue"]:
                raise TranslateError(f"{where}: registered-rule branch {[_u(x)[:60] for x in b]}")
            order.append(("rule", "apply_gradient_rule(current, wrt)"))
        elif t.startswith("isinstance(current, ") and t.endswith(")"):
            cls = t[len("isinstance(current, "):-1]
            if cls in ("Constant", "Parameter", "Var"):
                if len(b) != 2 or _u(b[1]) != "continue" or not _u(b[0]).startswith("results[node_id] = "):
                    raise TranslateError(f"{where}: {cls} branch")
                order.append((cls, " ".join(_u(b[0].value).split())))
            elif cls == "BinaryOp":
                bin_branch = b
                order.append((cls, "control + binaryRuleIter"))
            elif cls == "UnaryOp":
                un_branch = b
                order.append((cls, "control + unaryRuleIter"))
            else:
                raise TranslateError(f"{where}: unknown class {cls}")
        else:
            raise TranslateError(f"{where}: test {t!r}")
    if bin_branch is None or un_branch is None:
        raise TranslateError(f"{where}: BinaryOp / UnaryOp branch missing")

    def prefix(branch, aliases):
        """statements before the operator chain (the first statement mentioning current.op); ends with continue after it"""
        out = []
        for i, st in enumerate(branch):
            if any(isinstance(n, ast.Attribute) and _u(n) == "current.op" for n in ast.walk(st)):
                tail = branch[i:]
                if not (isinstance(tail[-1], ast.Continue)):
                    raise TranslateError(f"{where}: the operator chain is not followed by `continue`")
                return out
            out.append(st)
        raise TranslateError(f"{where}: no operator chain in a branch")

    # BinaryOp: `left, right = current.left, current.right`
    bp = prefix(bin_branch, None)
    if _u(bp[0]) != "left, right = (current.left, current.right)" and _u(bp[0]) != "left, right = current.left, current.right":
        raise TranslateError(f"{where}: {_u(bp[0])!r}")
    cb = Ctl(where + " (BinaryOp)", {"left": "left", "right": "right"})
    bterm = cb.block(bp[1:], [], [])
    up = prefix(un_branch, None)
    if _u(up[0]) != "operand = current.operand":
        raise TranslateError(f"{where}: {_u(up[0])!r}")
    cu = Ctl(where + " (UnaryOp)", {"operand": "operand"})
    uterm = cu.block(up[1:], [], [])
    out = ["/-- what one iteration does before the operator rule: compute from `results[...]` (KeyError when a child is absent),",
           "    or push these entries (`node:phase`, in push order — the last pushed is popped first) and continue -/",
           "inductive GradCtlG | compute | push (entries : List String)",
           "  deriving DecidableEq, Repr",
           "/-- the tests of the loop body of `_gradient_iterative`, in order, with what each stores in `results[node_id]` -/",
           "def gradIterOrderG : List (String × String) := [" + ", ".join(f"({json.dumps(a)}, {json.dumps(b)})" for a, b in order) + "]",
           "/-- BinaryOp: `leftIn` / `rightIn` = the child's id is already a key of `results` -/",
           "def gradIterBinCtlG (phase : Nat) (leftIn rightIn : Bool) : GradCtlG :=", "  " + bterm,
           "/-- UnaryOp -/",
           "def gradIterUnCtlG (phase : Nat) (operandIn : Bool) : GradCtlG :=", "  " + uterm,
           "/-- the statements around the loop -/",
           "def gradIterFrameG : List String := [" + ", ".join(json.dumps(t) for t in frame) + "]"]
    return "\n".join(out) + "\n"


if __name__ == "__main__":
    import sys
    print(gen_grad_iter_ctl(ast.parse(open(sys.argv[1]).read())))
