"""py2lean_symjac — `compute_jacobian` and `compute_hessian` (core/autodiff.py): the row loop with the per-node `jacobian_row`
shortcut and its `None` fall-back to `gradient`, and the double loop of second derivatives, translated into
`computeJacobianG rowF gradF` / `computeHessianG gradF` (`Generated/SymbolicJac.lean`).  The loop idioms
(`for expr in exprs: … result.append(row); continue … result.append([gradient(expr, var) for var in variables])`,
`for i in range(n): for j in range(n): row.append(gradient(grad[i], variables[j]))`) are recognised statement by statement."""
from __future__ import annotations

import ast


class TranslateError(Exception):
    pass


def _u(n):
    return ast.unparse(n)


def _body(fn):
    return [s for s in fn.body if not (isinstance(s, ast.Expr) and isinstance(s.value, ast.Constant))
            and not isinstance(s, (ast.Import, ast.ImportFrom))]


def find_func(tree, name):
    for n in tree.body:
        if isinstance(n, ast.FunctionDef) and n.name == name:
            return n
    raise TranslateError(f"{name} not found")


def gen_symbolic_jac(ad: ast.AST) -> str:
    cj = _body(find_func(ad, "compute_jacobian"))
    if len(cj) != 3 or not isinstance(cj[1], ast.For) or _u(cj[2]) != "return result" or not _u(cj[0]).startswith("result"):
        raise TranslateError(f"compute_jacobian: frame {[_u(s)[:40] for s in cj]}")
    loop = cj[1]
    if _u(loop.target) != "expr" or _u(loop.iter) != "exprs" or loop.orelse or len(loop.body) != 2:
        raise TranslateError("compute_jacobian: loop header / body")
    sc, fb = loop.body
    want_sc = ("if hasattr(expr, 'jacobian_row'):\n    row = expr.jacobian_row(variables)\n    if row is not None:\n"
               "        result.append(row)\n        continue")
    if _u(sc) != want_sc:
        raise TranslateError(f"compute_jacobian: shortcut block {_u(sc)[:160]!r}")
    if _u(fb) != "result.append([gradient(expr, var) for var in variables])":
        raise TranslateError(f"compute_jacobian: fall-back {_u(fb)!r}")
    ch = [_u(s) for s in _body(find_func(ad, "compute_hessian"))]
    want = ["n = len(variables)", "hessian: list[list[Expression]] = []", "grad = [gradient(expr, var) for var in variables]",
            "for i in range(n):\n    row: list[Expression] = []\n    for j in range(n):\n        row.append(gradient(grad[i], variables[j]))\n    hessian.append(row)",
            "return hessian"]
    if ch != want:
        raise TranslateError(f"compute_hessian: {ch}")
    return "\n".join([
        "/-- `compute_jacobian(exprs, variables)`: `rowF` = `expr.jacobian_row(variables)` (every expression class has the method;",
        "    `none` = it returned None), `gradF v e` = `gradient(e, v)` -/",
        "def computeJacobianG (rowF : List Var → Expr → Option (List Expr)) (gradF : Var → Expr → Expr)",
        "    (exprs : List Expr) (variables : List Var) : List (List Expr) :=",
        "  exprs.map fun expr =>",
        "    match rowF variables expr with",
        "    | some row => row",
        "    | none => variables.map fun var => gradF var expr",
        "/-- `compute_hessian(expr, variables)`: entry (i, j) is `gradient(gradient(expr, variables[i]), variables[j])` -/",
        "def computeHessianG (gradF : Var → Expr → Expr) (expr : Expr) (variables : List Var) : List (List Expr) :=",
        "  let grad := variables.map fun var => gradF var expr",
        "  grad.map fun gi => variables.map fun vj => gradF vj gi"]) + "\n"


if __name__ == "__main__":
    import sys
    print(gen_symbolic_jac(ast.parse(open(sys.argv[1]).read())))
