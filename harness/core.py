"""Shared plumbing of the checks: locating the repo under test, regenerating and building
the Lean model, running the Lean driver over a line protocol, auditing axioms, writing
evidence / replays, matching known findings.
"""
from __future__ import annotations

import fcntl
import hashlib
import json
import os
import random
import re
import subprocess
import sys
import time
from concurrent.futures import ThreadPoolExecutor
from dataclasses import dataclass, field

VERIF = os.path.dirname(os.path.dirname(os.path.abspath(__file__)))
LEAN_DIR = os.path.join(VERIF, "lean")
REPO = os.environ.get("OPTYX_REPO", "/repo")
ALLOWED_AXIOMS = {"propext", "Classical.choice", "Quot.sound"}

TRUSTED_BASE = [
    "Lean 4.33 kernel; axioms propext, Classical.choice, Quot.sound only (audited by #print axioms on every run)",
    "hand-written Py.* model = faithful reading of the Python: validated by this run's correspondence check, not proved",
    "harness/gen_tables.py (AST translator of rule templates and tables), harness/ser.py (serialiser), Lean driver parser/printer",
    "CPython/NumPy semantics of the primitives used; IEEE-754 rounding is not modelled (theorems are over the reals)",
]


def use_repo() -> str:
    """make `import optyx` resolve to the tree under test (OPTYX_REPO or /repo)"""
    src = os.path.join(REPO, "src")
    if src not in sys.path:
        sys.path.insert(0, src)
    os.environ.setdefault("PYTHONDONTWRITEBYTECODE", "1")
    sys.dont_write_bytecode = True
    import optyx  # noqa: F401

    got = os.path.realpath(os.path.dirname(os.path.dirname(optyx.__file__)))
    if got != os.path.realpath(src):
        raise RuntimeError(f"optyx imported from {got}, expected {src}")
    return src


# ----------------------------------------------------------------------------- Lean side


@dataclass
class BuildStatus:
    gen_ok: bool = True          # no translation error in a generated file this property's theorems use
    gen_changed: bool = False
    gen_error: str = ""
    gen_errors: dict = field(default_factory=dict)   # generated file -> translation error (all files)
    gen_deps: dict = field(default_factory=dict)     # theorem -> generated files its proof term depends on
    leanchecker: str = "not run (quick tier)"
    model_ok: bool = True
    model_log: str = ""
    proofs_ok: bool = True
    proofs_log: str = ""
    failed_modules: list = field(default_factory=list)
    failed_decls: list = field(default_factory=list)
    axioms: dict = field(default_factory=dict)
    axioms_ok: bool = True
    grep_hits: list = field(default_factory=list)
    theorems: list = field(default_factory=list)
    discharged: int = 0
    wall_s: float = 0.0


def _run(cmd, cwd=None, timeout=3600, inp=None):
    p = subprocess.run(cmd, cwd=cwd, input=inp, capture_output=True, text=True, timeout=timeout)
    return p.returncode, p.stdout + p.stderr


class LeanLock:
    def __enter__(self):
        self.f = open(os.path.join(LEAN_DIR, ".build.lock"), "w")
        fcntl.flock(self.f, fcntl.LOCK_EX)
        return self

    def __exit__(self, *a):
        fcntl.flock(self.f, fcntl.LOCK_UN)
        self.f.close()


class TreeLock:
    """process-lifetime lock on lean/Optyx/Generated (+ the .olean files built from it).

    Every check holds it SHARED from `lean_prepare` until the process exits, so the generated
    model it proved theorems about is the one its driver runs.  A check that must *change* the
    generated files (different tree under test, or the source changed) takes it EXCLUSIVE, i.e.
    waits until no other check is using the files, rewrites and rebuilds, then goes back to
    shared.  Concurrent checks of the same tree therefore run in parallel; checks of different
    trees (OPTYX_REPO) are serialised instead of corrupting each other."""
    f = None

    @classmethod
    def acquire(cls, mode):
        if cls.f is None:
            cls.f = open(os.path.join(LEAN_DIR, ".tree.lock"), "w")
        fcntl.flock(cls.f, mode)


FORBIDDEN = re.compile(r"\b(sorry|admit|native_decide|bv_decide|implemented_by)\b|^axiom |unsafe |maxHeartbeats 0")


def _strip_comments(text: str) -> str:
    text = re.sub(r"/-.*?-/", "", text, flags=re.S)
    return "\n".join(l.split("--")[0] for l in text.splitlines())


def grep_forbidden() -> list:
    hits = []
    for root, _, files in os.walk(os.path.join(LEAN_DIR, "Optyx")):
        for fn in files:
            if fn.endswith(".lean"):
                p = os.path.join(root, fn)
                for i, line in enumerate(_strip_comments(open(p).read()).splitlines(), 1):
                    if FORBIDDEN.search(line):
                        hits.append(f"{os.path.relpath(p, LEAN_DIR)}:{i}: {line.strip()[:80]}")
    return hits


GENDEP_PRELUDE = r"""
open Lean Elab Command in
partial def genDepsAux (env : Environment) : List Name → NameSet → NameSet → NameSet
  | [], _, out => out
  | n :: rest, seen, out =>
    if seen.contains n then genDepsAux env rest seen out else
    let seen := seen.insert n
    let out := if (`Optyx.Generated).isPrefixOf n then out.insert n else out
    if !(`Optyx).isPrefixOf n then genDepsAux env rest seen out else
    match env.find? n with
    | none => genDepsAux env rest seen out
    | some ci =>
      let cs := ci.type.getUsedConstants.toList ++ (match ci.value? (allowOpaque := true) with | some v => v.getUsedConstants.toList | none => [])
      let cs := match ci with
        | .inductInfo i => cs ++ i.ctors
        | _ => cs
      genDepsAux env (cs ++ rest) seen out

open Lean Elab Command in
elab "#gendeps " id:ident : command => do
  let env ← getEnv
  let n ← liftCoreM <| realizeGlobalConstNoOverloadWithInfo id
  let gs := (genDepsAux env [n] {} {}).toList
  let mods := gs.filterMap fun g => (env.getModuleIdxFor? g).map fun i => env.header.moduleNames[i.toNat]!
  let mods := mods.eraseDups
  logInfo m!"GENDEP {id.getId} :{String.join (mods.map fun m => " " ++ toString m)}"
"""


def import_closure_generated(mod: str) -> set:
    """generated files in the transitive import closure of a module (coarse fallback)"""
    seen, todo, out = set(), [mod], set()
    while todo:
        m = todo.pop()
        if m in seen:
            continue
        seen.add(m)
        if m.startswith("Optyx.Generated."):
            out.add(m.split(".")[-1])
        p = os.path.join(LEAN_DIR, m.replace(".", "/") + ".lean")
        if os.path.exists(p):
            todo += [x for x in re.findall(r"^import\s+(\S+)", open(p).read(), re.M) if x.startswith("Optyx")]
    return out


def import_closure(mod: str) -> list:
    """all Optyx.* modules in the transitive import closure of a module"""
    seen, todo = set(), [mod]
    while todo:
        m = todo.pop()
        if m in seen:
            continue
        seen.add(m)
        p = os.path.join(LEAN_DIR, m.replace(".", "/") + ".lean")
        if os.path.exists(p):
            todo += [x for x in re.findall(r"^import\s+(\S+)", open(p).read(), re.M) if x.startswith("Optyx")]
    return sorted(seen)


def run_leanchecker(st: "BuildStatus", prop_module: str):
    """thorough tier: re-check the compiled property module with the toolchain's independent checker
    (`leanchecker` replays every declaration of the named modules through the kernel).  By default the
    property module itself; VERIF_LEANCHECKER=full re-checks every Optyx module it imports (≈5 min)."""
    mods = import_closure(prop_module) if os.environ.get("VERIF_LEANCHECKER") == "full" else [prop_module]
    try:
        rc, out = _run(["lake", "env", "leanchecker"] + mods, cwd=LEAN_DIR, timeout=3600)
    except Exception as ex:  # noqa: BLE001
        st.leanchecker = f"could not run: {ex!r}"[:200]
        return
    if rc == 0:
        st.leanchecker = f"ok ({len(mods)} module(s))"
    else:
        st.leanchecker = "FAILED: " + out.strip()[-400:]
        st.axioms_ok = False
        st.proofs_log += "\nleanchecker: " + out.strip()[-1500:]


def lean_prepare(prop_module: str, theorems: list[str], _attempt: int = 0, extra_modules: tuple = ()) -> BuildStatus:
    """regenerate Generated/*, build the executable model, build the property's proofs,
    audit axioms.  Never raises on a failed build: the status says what broke."""
    st = BuildStatus(theorems=list(theorems))
    t0 = time.time()
    gen_cmd = [sys.executable, os.path.join(VERIF, "harness", "gen_tables.py"), REPO,
               os.path.join(LEAN_DIR, "Optyx", "Generated")]
    def last_json(out):
        try:
            return json.loads(out.strip().splitlines()[-1])
        except Exception:
            return None

    TreeLock.acquire(fcntl.LOCK_SH)
    rc, out = _run(gen_cmd + ["--dry"])
    would_change = bool((last_json(out) or {}).get("changed", False))
    if would_change:
        TreeLock.acquire(fcntl.LOCK_EX)  # waits for every other running check to finish
    with LeanLock():
        rc, out = _run(gen_cmd)
        info = last_json(out)
        if info is None:
            st.gen_errors = {"*": out.strip()[-2000:]}
        else:
            st.gen_changed = info.get("changed", False)
            st.gen_errors = info.get("errors", {})
        rc, out = _run(["lake", "build", "Optyx.Drive.All"], cwd=LEAN_DIR)
        st.model_ok = rc == 0
        st.model_log = out[-4000:] if rc != 0 else ""
        if st.model_ok:
            rc, out = _run(["lake", "build", prop_module], cwd=LEAN_DIR)
            st.proofs_ok = rc == 0
            if rc != 0:
                st.proofs_log = out[-6000:]
                st.failed_modules = sorted(set(re.findall(r"✖ \[\d+/\d+\] Building (\S+)", out)))
                st.failed_decls = sorted(set(re.findall(r"error: (\S+?\.lean:\d+:\d+)", out)))[:20]
            # modules that belong to this property only (transcription anchors): built separately so that a
            # broken anchor of another property's model never fails this property's build
            for xm in extra_modules:
                rc2, out2 = _run(["lake", "build", xm], cwd=LEAN_DIR)
                if rc2 != 0:
                    st.proofs_ok = False
                    st.proofs_log += "\n" + out2[-3000:]
                    st.failed_modules = sorted(set(st.failed_modules) | set(re.findall(r"✖ \[\d+/\d+\] Building (\S+)", out2)))
                    st.failed_decls = sorted(set(st.failed_decls) | set(re.findall(r"error: (\S+?\.lean:\d+:\d+)", out2)))[:20]
        else:
            st.proofs_ok = False
        st.grep_hits = grep_forbidden()
        if st.proofs_ok and theorems:
            src = (f"import Lean\nimport {prop_module}\n" + "".join(f"import {xm}\n" for xm in extra_modules) + "\n".join(f"#print axioms {t}" for t in theorems) + "\n"
                   + GENDEP_PRELUDE + "\n".join(f"#gendeps {t}" for t in theorems) + "\n")
            tmp = os.path.join(LEAN_DIR, f".audit_{prop_module.split('.')[-1]}_{os.getpid()}.lean")
            open(tmp, "w").write(src)
            try:
                rc, out = _run(["lake", "env", "lean", tmp], cwd=LEAN_DIR)
            finally:
                os.remove(tmp)
            # "'X' depends on axioms: [a, b]"  |  "'X' does not depend on any axioms"
            for m in re.finditer(r"'([^']+)' depends on axioms: \[([^\]]*)\]", out.replace("\n", " ")):
                st.axioms[m.group(1)] = [a.strip() for a in m.group(2).split(",") if a.strip()]
            for m in re.finditer(r"'([^']+)' does not depend on any axioms", out):
                st.axioms[m.group(1)] = []
            for m in re.finditer(r"GENDEP (\S+) :([^\n]*)", out):
                st.gen_deps[m.group(1)] = sorted({x.split(".")[-1] for x in m.group(2).split()})
            missing = [t for t in theorems if t not in st.axioms]
            bad = {t: a for t, a in st.axioms.items() if set(a) - ALLOWED_AXIOMS}
            st.axioms_ok = not missing and not bad and rc == 0
            if missing:
                st.proofs_log += f"\naudit: theorems not found: {missing}\n{out[-1500:]}"
            st.discharged = len([t for t in theorems if t in st.axioms and not (set(st.axioms[t]) - ALLOWED_AXIOMS)])
    # which generated files does this property stand on?  (exactly: the ones its proof terms mention;
    # when the proofs did not build, the import closure of the property module)
    used = set()
    if st.gen_deps and all(t in st.gen_deps for t in theorems):
        for t in theorems:
            used |= set(st.gen_deps[t])
    else:
        used = import_closure_generated(prop_module)
    hit = {f: e for f, e in st.gen_errors.items() if f == "*" or f in used}
    st.gen_ok = not hit
    st.gen_error = "; ".join(f"{f}: {e}" for f, e in sorted(hit.items()))
    if would_change:
        # back to shared for the rest of the process; the conversion is not atomic, so make sure
        # nobody rewrote the generated files in between
        TreeLock.acquire(fcntl.LOCK_SH)
        rc, out = _run(gen_cmd + ["--dry"])
        try:
            again = rc == 0 and json.loads(out.strip().splitlines()[-1]).get("changed", False)
        except Exception:
            again = False
        if again and _attempt < 5:
            return lean_prepare(prop_module, theorems, _attempt + 1, extra_modules)
    st.wall_s = time.time() - t0
    return st


def run_lean(lines: list[str], jobs: int = 8, timeout: int = 3600, main: str = "Driver/Main.lean") -> list[str]:
    """pipe protocol lines through the Lean driver; returns one output line per input line"""
    if not lines:
        return []
    for l in lines:
        if "\n" in l:
            raise ValueError("newline inside a protocol line")
    jobs = max(1, min(jobs, (len(lines) + 499) // 500))
    chunks = [lines[i::jobs] for i in range(jobs)]

    def one(chunk):
        # the driver reads .olean files while it starts: a concurrent rebuild of the model (only a
        # developer's manual `lake build` can do that; checks serialise through the tree lock) makes it
        # fail spuriously, so a failed start is retried before it is reported
        last = ""
        for attempt in range(3):
            p = subprocess.run(["lake", "env", "lean", "--run", main], cwd=LEAN_DIR,
                               input="\n".join(chunk) + "\n", capture_output=True, text=True, timeout=timeout)
            outs = p.stdout.splitlines()
            if p.returncode == 0 and len(outs) == len(chunk):
                return outs
            last = f"lean driver failed rc={p.returncode} got {len(outs)}/{len(chunk)} lines: {p.stderr[-800:]}"
            time.sleep(3 * (attempt + 1))
        raise RuntimeError(last)

    with ThreadPoolExecutor(jobs) as ex:
        res = list(ex.map(one, chunks))
    out = [None] * len(lines)
    for j, r in enumerate(res):
        out[j::jobs] = r
    return out


# ----------------------------------------------------------------------------- reporting


@dataclass
class Report:
    """what a property module returns from run()"""
    evaluations: int = 0
    nontrivial: set = field(default_factory=set)  # keys of distinct non-trivial cases
    rule: str = ""
    samples: list = field(default_factory=list)
    histogram: dict = field(default_factory=dict)
    corr_mismatches: list = field(default_factory=list)  # model vs implementation differ
    oracle_failures: list = field(default_factory=list)  # property fails on the real code (concrete input)
    skipped: dict = field(default_factory=dict)
    notes: list = field(default_factory=list)
    exhaustive: bool = False


def load_known() -> list:
    try:
        return json.load(open(os.path.join(VERIF, "KNOWN_FINDINGS.json")))["known"]
    except Exception:
        return []


def match_known(prop: str, failure: dict) -> dict | None:
    kind = failure.get("kind")
    for k in load_known():
        if k["property"] == prop and kind is not None and k["match"].get("kind") == kind:
            return k
    return None


def write_replay(prop: str, payload: dict) -> str:
    d = os.path.join(VERIF, "replays")
    os.makedirs(d, exist_ok=True)
    h = hashlib.sha256(json.dumps(payload, sort_keys=True, default=str).encode()).hexdigest()[:10]
    p = os.path.join(d, f"{prop}-{h}.json")
    json.dump(payload, open(p, "w"), indent=1, default=str)
    return p


def _anchors_of(prop):
    try:
        import source_pins
        return [f"{f}::{q}" for f, q in source_pins.ANCHORS.get(prop, [])]
    except Exception:
        return []


def write_evidence(prop: str, tier: str, seed: int, st: BuildStatus, rep: Report, wall: float,
                   violations: int, checker_cmd: str, extra_assumptions: list[str] | None = None,
                   level: str = "proof", known_hits: int = 0, known_ids: list | None = None):
    os.makedirs(os.path.join(VERIF, "evidence"), exist_ok=True)
    cov = {
        "obligations": max(1, len(st.theorems)),
        "discharged": st.discharged,
        "checker_cmd": checker_cmd,
        "trusted_base": TRUSTED_BASE + [f"axioms of {t}: {a}" for t, a in sorted(st.axioms.items())],
        "theorems": st.theorems,
        "lean_build": {"generated_changed": st.gen_changed,
                       "generated_files_used_by_theorems": sorted({f for fs in st.gen_deps.values() for f in fs}),
                       "transcription_anchors": _anchors_of(prop),
                       "translation_errors": st.gen_errors, "leanchecker": st.leanchecker, "model_ok": st.model_ok, "proofs_ok": st.proofs_ok,
                       "axioms_ok": st.axioms_ok, "forbidden_tokens": st.grep_hits,
                       "failed_modules": st.failed_modules, "wall_s": round(st.wall_s, 2)},
        "evaluations": rep.evaluations,
        "distinct_nontrivial": len(rep.nontrivial),
        "rule": rep.rule,
        "samples": rep.samples[:8],
        "histogram": rep.histogram,
        "correspondence_mismatches": len(rep.corr_mismatches),
        "oracle_failures": len(rep.oracle_failures) - known_hits,
        "known_finding_hits": known_hits,
        "known_findings_met": known_ids or [],
        "skipped": rep.skipped,
        "notes": rep.notes,
        "exhaustive": rep.exhaustive,
    }
    ev = {
        "property_id": prop,
        "tier": tier,
        "seed": seed,
        "level": level,
        "coverage": cov,
        "assumptions": (extra_assumptions or []) + TRUSTED_BASE,
        "wall_s": round(wall, 2),
        "violations": violations,
    }
    p = os.path.join(VERIF, "evidence", f"{prop}.json")
    json.dump(ev, open(p + ".tmp", "w"), indent=1, default=str)
    os.replace(p + ".tmp", p)
    return p


class Rng(random.Random):
    """single PRNG per run: every random choice derives from VERIF_SEED"""

    def dy(self, lo=-4, hi=4, den=(1, 2, 4)):
        """small dyadic rational as a float (exact in binary floating point)"""
        d = self.choice(den)
        return self.randint(lo * d, hi * d) / d
