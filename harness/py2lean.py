"""py2lean — a small compiler from a whitelisted subset of Python (structural functions over the
optyx expression classes) to Lean 4 terms.

It is used by gen_tables.py for the functions whose *whole body* is translated (not only per-operator
templates): `_compute_degree_impl` / `_vector_degree` (analysis.py) and the registered vector gradient rules
(autodiff.py).  Recursive calls become calls of function *parameters* ("open recursion"): the generated
definition is a non-recursive step functional, and a Lean theorem states that the hand-written recursive model
is a fixed point of it.

Everything outside the subset raises TranslateError — reported as a broken tie, never skipped.

Typing: every Python name in scope is bound to (lean term, type) with type one of
  Expr Vec VVar ExprList Cst Rat Nat Deg(=Option Nat) BinOp UnOp VOp RatList RatMat
"""
from __future__ import annotations

import ast


class TranslateError(Exception):
    pass


# Python class -> (Lean constructor pattern, {python attribute: (lean binder, type)})
# (the Python classes are all direct subclasses of Expression: isinstance(x, C) <=> type(x) is C for these)
CTORS = [
    ("Constant", "const", [("value", "c", "Cst")]),
    ("Variable", "var", [("", "x", "Var")]),
    ("Parameter", "param", [("", "p", "Par")]),
    ("BinaryOp", "bin", [("op", "op", "BinOp"), ("left", "l", "Expr"), ("right", "r", "Expr")]),
    ("UnaryOp", "un", [("op", "op", "UnOp"), ("operand", "a", "Expr")]),
    ("LinearCombination", "linComb", [("coefficients", "cs", "RatList"), ("vector", "v", "Vec")]),
    ("VectorSum", "vecSum", [("vector", "v", "VVar")]),
    ("VectorExpressionSum", "exprSum", [("expression", "es", "ExprList")]),
    ("DotProduct", "dot", [("left", "l", "Vec"), ("right", "r", "Vec")]),
    ("L2Norm", "l2", [("vector", "v", "Vec")]),
    ("L1Norm", "l1", [("vector", "v", "Vec")]),
    ("QuadraticForm", "quad", [("vector", "v", "Vec"), ("matrix", "q", "RatMat")]),
    ("VectorPowerSum", "powSum", [("vector", "v", "VVar"), ("power", "k", "Rat")]),
    ("VectorUnarySum", "unSum", [("vector", "v", "VVar"), ("op", "op", "VOp")]),
    ("MatrixSum", "matSumV", [("matrix", "m", "MVar")]),
    ("MatrixSum", "matSumE", [("matrix", "es", "ExprList")]),
    ("FrobeniusNorm", "frob", [("matrix", "m", "MVar")]),
]
# classes of the source that have no scalar-expression constructor in Optyx.Syntax (vector-valued nodes):
# a branch for them is translated to nothing
NON_SCALAR = {"ElementwisePower", "ElementwiseUnary"}

BINOP_NAMES = {"+": "add", "-": "sub", "*": "mul", "/": "div", "**": "pow"}


def classes_of(test: ast.AST, subject: str) -> list[str] | None:
    """`isinstance(<subject>, C)` / `isinstance(<subject>, (C1, C2))` -> class names, else None"""
    if (isinstance(test, ast.Call) and isinstance(test.func, ast.Name) and test.func.id == "isinstance"
            and len(test.args) == 2 and ast.unparse(test.args[0]) == subject):
        c = test.args[1]
        if isinstance(c, ast.Name):
            return [c.id]
        if isinstance(c, ast.Tuple) and all(isinstance(e, ast.Name) for e in c.elts):
            return [e.id for e in c.elts]
    return None


def always_returns(stmts: list[ast.stmt]) -> bool:
    if not stmts:
        return False
    s = stmts[-1]
    if isinstance(s, ast.Return):
        return True
    if isinstance(s, ast.If) and s.orelse:
        return always_returns(s.body) and always_returns(s.orelse)
    return False


class OptNatCompiler:
    """statement blocks of type Optional[int] (Lean `Option Nat`) over a subject expression `expr`.

    rec_calls: python function name -> (lean parameter name, argument type) for the open-recursion calls
    """

    def __init__(self, subject: str, rec_calls: dict[str, tuple[str, str]]):
        self.subject = subject
        self.rec = rec_calls
        self.fresh = 0

    # ---- expressions -------------------------------------------------------------------------------------
    def attr_path(self, node: ast.AST, env) -> tuple[str, str] | None:
        key = ast.unparse(node)
        return env.get(key)

    def nat(self, node: ast.AST, env) -> str:
        """Nat-valued expressions"""
        b = self.attr_path(node, env)
        if b is not None:
            if b[1] != "Nat":
                raise TranslateError(f"{ast.unparse(node)!r} is {b[1]}, Nat expected (line {node.lineno})")
            return b[0]
        if isinstance(node, ast.Constant) and isinstance(node.value, int) and not isinstance(node.value, bool) and node.value >= 0:
            return str(node.value)
        if isinstance(node, ast.Call) and isinstance(node.func, ast.Name) and node.func.id == "max" and len(node.args) == 2:
            return f"(max {self.nat(node.args[0], env)} {self.nat(node.args[1], env)})"
        if isinstance(node, ast.Call) and isinstance(node.func, ast.Name) and node.func.id == "int" and len(node.args) == 1:
            b = self.attr_path(node.args[0], env)
            if b is not None and b[1] == "NatOfFloat":      # int(x) of a float known to be a non-negative integer
                return b[0]
            raise TranslateError(f"int() of something not known to be a non-negative integer: {ast.unparse(node)!r}")
        if isinstance(node, ast.BinOp) and isinstance(node.op, (ast.Add, ast.Mult)):
            op = "+" if isinstance(node.op, ast.Add) else "*"
            return f"({self.nat(node.left, env)} {op} {self.nat(node.right, env)})"
        raise TranslateError(f"unsupported Nat expression {ast.unparse(node)!r} at line {getattr(node, 'lineno', '?')}")

    def cond(self, node: ast.AST, env) -> str:
        """Bool-valued conditions over Nat values and operator tags"""
        if isinstance(node, ast.BoolOp):
            op = " && " if isinstance(node.op, ast.And) else " || "
            return "(" + op.join(self.cond(v, env) for v in node.values) + ")"
        if isinstance(node, ast.Compare) and len(node.ops) == 1:
            l, r, o = node.left, node.comparators[0], node.ops[0]
            lb = self.attr_path(l, env)
            if lb is not None and lb[1] in ("BinOp", "UnOp"):
                tags = BINOP_NAMES if lb[1] == "BinOp" else None
                def tag(c):
                    if not (isinstance(c, ast.Constant) and isinstance(c.value, str)):
                        raise TranslateError(f"operator compared with a non-literal at line {node.lineno}")
                    if tags is not None:
                        if c.value not in tags:
                            raise TranslateError(f"unknown binary operator {c.value!r} at line {node.lineno}")
                        return "." + tags[c.value]
                    return "." + c.value
                if isinstance(o, ast.Eq):
                    return f"({lb[0]} == {tag(r)})"
                if isinstance(o, ast.In) and isinstance(r, ast.Tuple):
                    return "(" + " || ".join(f"{lb[0]} == {tag(e)}" for e in r.elts) + ")"
            sym = {ast.Gt: ">", ast.Lt: "<", ast.GtE: "≥", ast.LtE: "≤", ast.Eq: "==", ast.NotEq: "!="}.get(type(o))
            if sym:
                if sym in ("==", "!="):
                    return f"({self.nat(l, env)} {sym} {self.nat(r, env)})"
                return f"(decide ({self.nat(l, env)} {sym} {self.nat(r, env)}))"
        raise TranslateError(f"unsupported condition {ast.unparse(node)!r} at line {getattr(node, 'lineno', '?')}")

    # ---- statement blocks --------------------------------------------------------------------------------
    def block(self, stmts: list[ast.stmt], env: dict, ind: str) -> str:
        """a block every path of which returns; result: Lean term of type Option Nat"""
        if not stmts:
            raise TranslateError("control reaches the end of a block without `return`")
        s, rest = stmts[0], stmts[1:]
        nl = "\n" + ind
        if isinstance(s, (ast.ImportFrom, ast.Import)) or (isinstance(s, ast.Expr) and isinstance(s.value, ast.Constant)):
            return self.block(rest, env, ind)
        if isinstance(s, ast.Return):
            return self.ret(s.value, env)
        if isinstance(s, ast.Assign) and len(s.targets) == 1 and isinstance(s.targets[0], ast.Name):
            return self.assign(s.targets[0].id, s.value, rest, env, ind)
        if isinstance(s, ast.AnnAssign) and isinstance(s.target, ast.Name) and s.value is not None:
            return self.assign(s.target.id, s.value, rest, env, ind)
        if isinstance(s, ast.If):
            return self.if_(s, rest, env, ind)
        raise TranslateError(f"unsupported statement {ast.unparse(s)[:80]!r} at line {s.lineno}")

    def ret(self, v: ast.AST | None, env) -> str:
        if v is None or (isinstance(v, ast.Constant) and v.value is None):
            return "none"
        if isinstance(v, ast.Call) and isinstance(v.func, ast.Name) and v.func.id in self.rec:
            return self.rec_call(v, env)
        b = self.attr_path(v, env)
        if b is not None and b[1] == "Deg":
            return b[0]
        return f"some {self.nat(v, env)}" if self.nat(v, env).isdigit() else f"some ({self.nat(v, env)})"

    def rec_call(self, v: ast.Call, env) -> str:
        par, ty = self.rec[v.func.id]
        if len(v.args) != 1 or v.keywords:
            raise TranslateError(f"unexpected arguments in {ast.unparse(v)!r}")
        b = self.attr_path(v.args[0], env)
        if b is None or b[1] != ty:
            raise TranslateError(f"argument of {ast.unparse(v)!r} is not a known {ty} (line {v.lineno})")
        return f"{par} {b[0]}"

    def assign(self, name: str, value: ast.AST, rest, env, ind) -> str:
        nl = "\n" + ind
        # x = <recursive call>;  if x is None: return None   ==>   match … with | none => none | some x => …
        if isinstance(value, ast.Call) and isinstance(value.func, ast.Name) and value.func.id in self.rec:
            call = self.rec_call(value, env)
            if not rest or not self.is_none_guard(rest[0], name):
                # tested later, together with other results (`if a is None or b is None: return None`)
                env2 = dict(env); env2[name] = (call, "DegPending")
                return self.block(rest, env2, ind)
            env2 = dict(env); env2[name] = (name, "Nat")
            return (f"match {call} with{nl}| none => none{nl}| some {name} =>{nl}  "
                    + self.block(rest[1:], env2, ind + "  "))
        # alias of something already bound (op = expr.op, exp_val = expr.right.value)
        b = self.attr_path(value, env)
        if b is not None:
            env2 = dict(env); env2[name] = b
            return self.block(rest, env2, ind)
        # x = float(<Rat or Cst>)   (a float view of an exact number: same binding)
        if isinstance(value, ast.Call) and isinstance(value.func, ast.Name) and value.func.id == "float" and len(value.args) == 1:
            b = self.attr_path(value.args[0], env)
            if b is not None and b[1] in ("Rat", "Cst"):
                env2 = dict(env); env2[name] = b
                return self.block(rest, env2, ind)
        # max_deg = 0; for sub in <ExprList>: d = rec(sub); if d is None: return None; max_deg = max(max_deg, d)
        # return max_deg
        if isinstance(value, ast.Constant) and isinstance(value.value, int) and len(rest) >= 2 and isinstance(rest[0], ast.For):
            return self.max_loop(name, value.value, rest[0], rest[1:], env)
        raise TranslateError(f"unsupported assignment {name} = {ast.unparse(value)[:60]!r} at line {value.lineno}")

    @staticmethod
    def is_none_guard(s: ast.stmt, name: str) -> bool:
        return (isinstance(s, ast.If) and not s.orelse and ast.unparse(s.test) == f"{name} is None"
                and len(s.body) == 1 and isinstance(s.body[0], ast.Return)
                and (s.body[0].value is None or ast.unparse(s.body[0].value) == "None"))

    def max_loop(self, acc: str, init: int, loop: ast.For, after, env) -> str:
        """the one loop idiom of the degree code, matched literally (modulo the three local names)"""
        if not (isinstance(loop.target, ast.Name) and not loop.orelse and len(after) == 1
                and isinstance(after[0], ast.Return) and ast.unparse(after[0].value) == acc):
            raise TranslateError(f"unsupported loop shape at line {loop.lineno}")
        sub = loop.target.id
        it = self.attr_path(loop.iter, env)
        if it is None or it[1] != "ExprList":
            raise TranslateError(f"loop over something that is not a known element list: {ast.unparse(loop.iter)!r}")
        body = loop.body
        ok = (len(body) == 3 and isinstance(body[0], ast.Assign) and isinstance(body[0].targets[0], ast.Name)
              and isinstance(body[0].value, ast.Call) and isinstance(body[0].value.func, ast.Name)
              and body[0].value.func.id in self.rec and self.rec[body[0].value.func.id][1] == "Expr"
              and ast.unparse(body[0].value.args[0]) == sub)
        if ok:
            d = body[0].targets[0].id
            ok = (self.is_none_guard(body[1], d) and isinstance(body[2], ast.Assign)
                  and ast.unparse(body[2]) in (f"{acc} = max({acc}, {d})", f"{acc} = max({d}, {acc})"))
        if not ok:
            raise TranslateError(f"loop body is not the `d = rec(sub); if d is None: return None; acc = max(acc, d)` idiom (line {loop.lineno})")
        par = self.rec[body[0].value.func.id][0]
        return f"maxLoop {par} {it[0]}.toList {init}"

    def if_(self, s: ast.If, rest, env, ind) -> str:
        nl = "\n" + ind
        test = s.test
        neg = False
        if isinstance(test, ast.UnaryOp) and isinstance(test.op, ast.Not):
            neg, test = True, test.operand
        # hasattr(<Vec>, "_variables") / hasattr(<Vec>, "_expressions")
        if (isinstance(test, ast.Call) and isinstance(test.func, ast.Name) and test.func.id == "hasattr"
                and len(test.args) == 2 and isinstance(test.args[1], ast.Constant) and not neg and not s.orelse):
            b = self.attr_path(test.args[0], env)
            which = test.args[1].value
            if b is not None and which in ("_variables", "_expressions"):
                key = ast.unparse(test.args[0])
                if b[1] == "VVar":           # statically a VectorVariable
                    return self.block(s.body, env, ind) if which == "_variables" else self.block(rest, env, ind)
                if b[1] == "ExprList":       # statically a VectorExpression / MatrixExpression
                    if which == "_expressions":
                        env2 = dict(env); env2[key + "._expressions"] = (b[0], "ExprList")
                        return self.block(s.body, env2, ind)
                    return self.block(rest, env, ind)
                if b[1] == "Vec":
                    if which == "_variables":
                        envv = dict(env); envv[key] = (f"vv{self.fresh}", "VVar")
                        # the continuation sees a Vec known not to be `.vars`: it must test `_expressions` next
                        if not (rest and isinstance(rest[0], ast.If) and ast.unparse(rest[0].test) == f"hasattr({key}, '_expressions')"):
                            raise TranslateError(f"`hasattr({key}, '_variables')` is not followed by the `_expressions` test (line {s.lineno})")
                        enve = dict(env); enve[key + "._expressions"] = (f"es{self.fresh}", "ExprList")
                        a = self.block(s.body, envv, ind + "  ")
                        bterm = self.block(rest[0].body, enve, ind + "  ")
                        # anything after the two tests is unreachable for the two kinds of vector in Optyx.Syntax
                        out = (f"match {b[0]} with{nl}| .vars vv{self.fresh} =>{nl}  {a}{nl}| .exprs es{self.fresh} =>{nl}  {bterm}")
                        self.fresh += 1
                        return out
            raise TranslateError(f"unsupported hasattr test {ast.unparse(s.test)!r} at line {s.lineno}")
        # `if not isinstance(<Expr-valued>, Constant): return None`
        if (neg and isinstance(test, ast.Call) and isinstance(test.func, ast.Name) and test.func.id == "isinstance"
                and len(test.args) == 2 and ast.unparse(test.args[1]) == "Constant" and not s.orelse
                and len(s.body) == 1 and isinstance(s.body[0], ast.Return)):
            b = self.attr_path(test.args[0], env)
            if b is not None and b[1] == "Expr":
                key = ast.unparse(test.args[0])
                c = f"c{self.fresh}"; self.fresh += 1
                env2 = dict(env); env2[key + ".value"] = (c, "Cst")
                return (f"match {b[0]} with{nl}| .const {c} =>{nl}  " + self.block(rest, env2, ind + "  ")
                        + f"{nl}| _ => {self.ret(s.body[0].value, env)}")
        # `if not isinstance(<Cst>, numbers.Number): return None` — every constant of Optyx.Syntax is a number
        if (neg and isinstance(test, ast.Call) and isinstance(test.func, ast.Name) and test.func.id == "isinstance"
                and len(test.args) == 2 and ast.unparse(test.args[1]) == "numbers.Number" and not s.orelse):
            b = self.attr_path(test.args[0], env)
            if b is not None and b[1] in ("Cst", "Rat"):
                return self.block(rest, env, ind)
        # `if not x.is_integer() or x < 0: return None`  ==>  match on cstNat / ratNat, `int(x)` becomes the Nat
        if (isinstance(s.test, ast.BoolOp) and isinstance(s.test.op, ast.Or) and len(s.test.values) == 2 and not s.orelse
                and len(s.body) == 1 and isinstance(s.body[0], ast.Return) and self.ret(s.body[0].value, env) == "none"):
            a0, a1 = (ast.unparse(v) for v in s.test.values)
            if a0.startswith("not ") and a0.endswith(".is_integer()"):
                x = a0[4:-len(".is_integer()")]
                if a1 == f"{x} < 0" and x in env and env[x][1] in ("Cst", "Rat"):
                    fn = "cstNat" if env[x][1] == "Cst" else "ratNat"
                    n = f"n{self.fresh}"; self.fresh += 1
                    env2 = dict(env); env2[x] = (n, "NatOfFloat")
                    return (f"match {fn} {env[x][0]} with{nl}| none => none{nl}| some {n} =>{nl}  "
                            + self.block(rest, env2, ind + "  "))
        # `if a is None or b is None: return None` over results of recursive calls not yet tested
        parts = s.test.values if (isinstance(s.test, ast.BoolOp) and isinstance(s.test.op, ast.Or)) else [s.test]
        names = []
        for p_ in parts:
            if (isinstance(p_, ast.Compare) and len(p_.ops) == 1 and isinstance(p_.ops[0], ast.Is)
                    and isinstance(p_.left, ast.Name) and ast.unparse(p_.comparators[0]) == "None"
                    and env.get(p_.left.id, ("", ""))[1] == "DegPending"):
                names.append(p_.left.id)
        if names and len(names) == len(parts):
            if s.orelse or not (len(s.body) == 1 and isinstance(s.body[0], ast.Return) and self.ret(s.body[0].value, env) == "none"):
                raise TranslateError(f"unsupported `is None` test shape at line {s.lineno}")
            env2 = dict(env)
            pre, depth = "", ind
            for nm in names:
                pre += f"match {env[nm][0]} with\n{depth}| none => none\n{depth}| some {nm} =>\n{depth}  "
                env2[nm] = (nm, "Nat")
                depth += "  "
            return pre + self.block(rest, env2, depth)
        # plain conditions
        c = self.cond(test, env)
        if neg:
            c = f"(!{c})"
        if s.orelse:
            return (f"if {c} then{nl}  {self.block(s.body, env, ind + '  ')}{nl}else{nl}  "
                    f"{self.block(s.orelse, env, ind + '  ')}")
        if not always_returns(s.body):
            raise TranslateError(f"`if` without else whose body may fall through (line {s.lineno})")
        return (f"if {c} then{nl}  {self.block(s.body, env, ind + '  ')}{nl}else{nl}  "
                f"{self.block(rest, env, ind + '  ')}")


def find_func(tree: ast.AST, name: str) -> ast.FunctionDef:
    for n in ast.walk(tree):
        if isinstance(n, ast.FunctionDef) and n.name == name:
            return n
    raise TranslateError(f"function {name} not found")


def gen_degree_step(an: ast.AST) -> str:
    """`_compute_degree_impl` and `_vector_degree` as non-recursive step functionals"""
    fn = find_func(an, "_compute_degree_impl")
    if [a.arg for a in fn.args.args] != ["expr"]:
        raise TranslateError("_compute_degree_impl: unexpected signature")
    comp = OptNatCompiler("expr", {"_compute_degree_impl": ("recE", "Expr"), "_vector_degree": ("recV", "Vec")})
    branches: list[tuple[list[str], list[ast.stmt]]] = []
    tail = None
    for s in fn.body:
        if isinstance(s, (ast.ImportFrom, ast.Import)) or (isinstance(s, ast.Expr) and isinstance(s.value, ast.Constant)):
            continue
        if isinstance(s, ast.If) and not s.orelse:
            cl = classes_of(s.test, "expr")
            if cl is None:
                raise TranslateError(f"_compute_degree_impl: top-level test is not isinstance(expr, …): {ast.unparse(s.test)!r}")
            if not always_returns(s.body):
                raise TranslateError(f"_compute_degree_impl: branch {cl} may fall through (line {s.lineno})")
            branches.append((cl, s.body))
            continue
        if isinstance(s, ast.Return) and s is fn.body[-1]:
            tail = s
            continue
        raise TranslateError(f"_compute_degree_impl: unsupported top-level statement at line {s.lineno}")
    if tail is None:
        raise TranslateError("_compute_degree_impl: no final return")
    known = {c for c, _, _ in CTORS} | NON_SCALAR
    for cl, _ in branches:
        for c in cl:
            if c not in known:
                raise TranslateError(f"_compute_degree_impl: branch for a class unknown to the model: {c}")
    out = ["/-- `_compute_degree_impl`, one step: `recE` stands for the recursive calls, `recV` for `_vector_degree` -/",
           "def degreeStepG (recE : Expr → Deg) (recV : Vec → Deg) : Expr → Deg"]
    for cls, ctor, fields in CTORS:
        binders = " ".join(b for _, b, _ in fields)
        env = {}
        for attr, b, ty in fields:
            if attr:
                env[f"expr.{attr}"] = (b, ty)
                if ty == "ExprList":
                    env[f"expr.{attr}"] = (b, "ExprList")
        body = None
        for cl, stmts in branches:
            if cls in cl:
                body = comp.block(stmts, env, "      ")
                break
        if body is None:
            body = comp.ret(tail.value, env)
        out.append(f"  | .{ctor} {binders} =>\n      {body}")
    # _vector_degree
    fv = find_func(an, "_vector_degree")
    if [a.arg for a in fv.args.args] != ["vector"]:
        raise TranslateError("_vector_degree: unexpected signature")
    compv = OptNatCompiler("vector", {"_compute_degree_impl": ("recE", "Expr")})
    body = [s for s in fv.body if not (isinstance(s, ast.Expr) and isinstance(s.value, ast.Constant))]
    # final `return None` after the two hasattr tests is unreachable for the two kinds of vector
    if not (len(body) == 3 and isinstance(body[2], ast.Return)):
        raise TranslateError("_vector_degree: unexpected shape")
    vterm = compv.block(body[:2], {"vector": ("v", "Vec")}, "  ")
    out.append("")
    out.append("/-- `_vector_degree`, with `recE` for the calls of `_compute_degree_impl` -/")
    out.append("def vectorDegreeG (recE : Expr → Deg) (v : Vec) : Deg :=\n  " + vterm)
    return "\n".join(out) + "\n"
