"""py2lean — a small compiler from a whitelisted subset of Python (structural functions over the
optyx expression classes) to Lean 4 terms.

It is used by gen_tables.py for the functions whose *whole body* is translated (not only per-operator
templates): `_compute_degree_impl` / `_vector_degree` (analysis.py) and the registered vector gradient rules
(autodiff.py).  Recursive calls become calls of function *parameters* ("open recursion"): the generated
definition is a non-recursive step functional, and a Lean theorem states that the hand-written recursive model
is a fixed point of it.

Everything outside the subset raises TranslateError — reported as a broken tie, never skipped.

Typing: every Python name in scope is bound to (lean term, type) with type one of
  Expr Vec VVar ExprList Cst Rat Nat Deg(=Option Nat) BinOp UnOp VOp RatList RatMat
"""
from __future__ import annotations

import ast
import json
import re


class TranslateError(Exception):
    pass


# Python class -> (Lean constructor pattern, {python attribute: (lean binder, type)})
# (the Python classes are all direct subclasses of Expression: isinstance(x, C) <=> type(x) is C for these)
CTORS = [
    ("Constant", "const", [("value", "c", "Cst")]),
    ("Variable", "var", [("", "x", "Var")]),
    ("Parameter", "param", [("", "p", "Par")]),
    ("BinaryOp", "bin", [("op", "op", "BinOp"), ("left", "l", "Expr"), ("right", "r", "Expr")]),
    ("UnaryOp", "un", [("op", "op", "UnOp"), ("operand", "a", "Expr")]),
    ("LinearCombination", "linComb", [("coefficients", "cs", "RatList"), ("vector", "v", "Vec")]),
    ("VectorSum", "vecSum", [("vector", "v", "VVar")]),
    ("VectorExpressionSum", "exprSum", [("expression", "es", "ExprList")]),
    ("DotProduct", "dot", [("left", "l", "Vec"), ("right", "r", "Vec")]),
    ("L2Norm", "l2", [("vector", "v", "Vec")]),
    ("L1Norm", "l1", [("vector", "v", "Vec")]),
    ("QuadraticForm", "quad", [("vector", "v", "Vec"), ("matrix", "q", "RatMat")]),
    ("VectorPowerSum", "powSum", [("vector", "v", "VVar"), ("power", "k", "Rat")]),
    ("VectorUnarySum", "unSum", [("vector", "v", "VVar"), ("op", "op", "VOp")]),
    ("MatrixSum", "matSumV", [("matrix", "m", "MVar")]),
    ("MatrixSum", "matSumE", [("matrix", "es", "ExprList")]),
    ("FrobeniusNorm", "frob", [("matrix", "m", "MVar")]),
]
# classes of the source that have no scalar-expression constructor in Optyx.Syntax (vector-valued nodes):
# a branch for them is translated to nothing
NON_SCALAR = {"ElementwisePower", "ElementwiseUnary"}

BINOP_NAMES = {"+": "add", "-": "sub", "*": "mul", "/": "div", "**": "pow"}


def classes_of(test: ast.AST, subject: str) -> list[str] | None:
    """`isinstance(<subject>, C)` / `isinstance(<subject>, (C1, C2))` -> class names, else None"""
    if (isinstance(test, ast.Call) and isinstance(test.func, ast.Name) and test.func.id == "isinstance"
            and len(test.args) == 2 and ast.unparse(test.args[0]) == subject):
        c = test.args[1]
        if isinstance(c, ast.Name):
            return [c.id]
        if isinstance(c, ast.Tuple) and all(isinstance(e, ast.Name) for e in c.elts):
            return [e.id for e in c.elts]
    return None


def always_returns(stmts: list[ast.stmt]) -> bool:
    if not stmts:
        return False
    s = stmts[-1]
    if isinstance(s, (ast.Return, ast.Raise)):
        return True
    if isinstance(s, ast.If) and s.orelse:
        return always_returns(s.body) and always_returns(s.orelse)
    return False


class OptNatCompiler:
    """statement blocks of type Optional[int] (Lean `Option Nat`) over a subject expression `expr`.

    rec_calls: python function name -> (lean parameter name, argument type) for the open-recursion calls
    """

    def __init__(self, subject: str, rec_calls: dict[str, tuple[str, str]]):
        self.subject = subject
        self.rec = rec_calls
        self.fresh = 0

    # ---- expressions -------------------------------------------------------------------------------------
    def attr_path(self, node: ast.AST, env) -> tuple[str, str] | None:
        key = ast.unparse(node)
        return env.get(key)

    def nat(self, node: ast.AST, env) -> str:
        """Nat-valued expressions"""
        b = self.attr_path(node, env)
        if b is not None:
            if b[1] != "Nat":
                raise TranslateError(f"{ast.unparse(node)!r} is {b[1]}, Nat expected (line {node.lineno})")
            return b[0]
        if isinstance(node, ast.Constant) and isinstance(node.value, int) and not isinstance(node.value, bool) and node.value >= 0:
            return str(node.value)
        if isinstance(node, ast.Call) and isinstance(node.func, ast.Name) and node.func.id == "max" and len(node.args) == 2:
            return f"(max {self.nat(node.args[0], env)} {self.nat(node.args[1], env)})"
        if isinstance(node, ast.Call) and isinstance(node.func, ast.Name) and node.func.id == "int" and len(node.args) == 1:
            b = self.attr_path(node.args[0], env)
            if b is not None and b[1] == "NatOfFloat":      # int(x) of a float known to be a non-negative integer
                return b[0]
            raise TranslateError(f"int() of something not known to be a non-negative integer: {ast.unparse(node)!r}")
        if isinstance(node, ast.BinOp) and isinstance(node.op, (ast.Add, ast.Mult)):
            op = "+" if isinstance(node.op, ast.Add) else "*"
            return f"({self.nat(node.left, env)} {op} {self.nat(node.right, env)})"
        raise TranslateError(f"unsupported Nat expression {ast.unparse(node)!r} at line {getattr(node, 'lineno', '?')}")

    def cond(self, node: ast.AST, env) -> str:
        """Bool-valued conditions over Nat values and operator tags"""
        if isinstance(node, ast.BoolOp):
            op = " && " if isinstance(node.op, ast.And) else " || "
            return "(" + op.join(self.cond(v, env) for v in node.values) + ")"
        if isinstance(node, ast.Compare) and len(node.ops) == 1:
            l, r, o = node.left, node.comparators[0], node.ops[0]
            lb = self.attr_path(l, env)
            if lb is not None and lb[1] in ("BinOp", "UnOp"):
                tags = BINOP_NAMES if lb[1] == "BinOp" else None
                def tag(c):
                    if not (isinstance(c, ast.Constant) and isinstance(c.value, str)):
                        raise TranslateError(f"operator compared with a non-literal at line {node.lineno}")
                    if tags is not None:
                        if c.value not in tags:
                            raise TranslateError(f"unknown binary operator {c.value!r} at line {node.lineno}")
                        return "." + tags[c.value]
                    return "." + c.value
                if isinstance(o, ast.Eq):
                    return f"({lb[0]} == {tag(r)})"
                if isinstance(o, ast.In) and isinstance(r, ast.Tuple):
                    return "(" + " || ".join(f"{lb[0]} == {tag(e)}" for e in r.elts) + ")"
            sym = {ast.Gt: ">", ast.Lt: "<", ast.GtE: "≥", ast.LtE: "≤", ast.Eq: "==", ast.NotEq: "!="}.get(type(o))
            if sym:
                if sym in ("==", "!="):
                    return f"({self.nat(l, env)} {sym} {self.nat(r, env)})"
                return f"(decide ({self.nat(l, env)} {sym} {self.nat(r, env)}))"
        raise TranslateError(f"unsupported condition {ast.unparse(node)!r} at line {getattr(node, 'lineno', '?')}")

    # ---- statement blocks --------------------------------------------------------------------------------
    def block(self, stmts: list[ast.stmt], env: dict, ind: str) -> str:
        """a block every path of which returns; result: Lean term of type Option Nat"""
        if not stmts:
            raise TranslateError("control reaches the end of a block without `return`")
        s, rest = stmts[0], stmts[1:]
        nl = "\n" + ind
        if isinstance(s, (ast.ImportFrom, ast.Import)) or (isinstance(s, ast.Expr) and isinstance(s.value, ast.Constant)):
            return self.block(rest, env, ind)
        if isinstance(s, ast.Return):
            return self.ret(s.value, env)
        if isinstance(s, ast.Assign) and len(s.targets) == 1 and isinstance(s.targets[0], ast.Name):
            return self.assign(s.targets[0].id, s.value, rest, env, ind)
        if isinstance(s, ast.AnnAssign) and isinstance(s.target, ast.Name) and s.value is not None:
            return self.assign(s.target.id, s.value, rest, env, ind)
        if isinstance(s, ast.If):
            return self.if_(s, rest, env, ind)
        raise TranslateError(f"unsupported statement {ast.unparse(s)[:80]!r} at line {s.lineno}")

    def ret(self, v: ast.AST | None, env) -> str:
        if v is None or (isinstance(v, ast.Constant) and v.value is None):
            return "none"
        if isinstance(v, ast.Call) and isinstance(v.func, ast.Name) and v.func.id in self.rec:
            return self.rec_call(v, env)
        b = self.attr_path(v, env)
        if b is not None and b[1] == "Deg":
            return b[0]
        return f"some {self.nat(v, env)}" if self.nat(v, env).isdigit() else f"some ({self.nat(v, env)})"

    def rec_call(self, v: ast.Call, env) -> str:
        par, ty = self.rec[v.func.id]
        if len(v.args) != 1 or v.keywords:
            raise TranslateError(f"unexpected arguments in {ast.unparse(v)!r}")
        b = self.attr_path(v.args[0], env)
        if b is None or b[1] != ty:
            raise TranslateError(f"argument of {ast.unparse(v)!r} is not a known {ty} (line {v.lineno})")
        return f"{par} {b[0]}"

    def assign(self, name: str, value: ast.AST, rest, env, ind) -> str:
        nl = "\n" + ind
        # x = <recursive call>;  if x is None: return None   ==>   match … with | none => none | some x => …
        if isinstance(value, ast.Call) and isinstance(value.func, ast.Name) and value.func.id in self.rec:
            call = self.rec_call(value, env)
            if not rest or not self.is_none_guard(rest[0], name):
                # tested later, together with other results (`if a is None or b is None: return None`)
                env2 = dict(env); env2[name] = (call, "DegPending")
                return self.block(rest, env2, ind)
            env2 = dict(env); env2[name] = (name, "Nat")
            return (f"match {call} with{nl}| none => none{nl}| some {name} =>{nl}  "
                    + self.block(rest[1:], env2, ind + "  "))
        # alias of something already bound (op = expr.op, exp_val = expr.right.value)
        b = self.attr_path(value, env)
        if b is not None:
            env2 = dict(env); env2[name] = b
            return self.block(rest, env2, ind)
        # x = float(<Rat or Cst>)   (a float view of an exact number: same binding)
        if isinstance(value, ast.Call) and isinstance(value.func, ast.Name) and value.func.id == "float" and len(value.args) == 1:
            b = self.attr_path(value.args[0], env)
            if b is not None and b[1] in ("Rat", "Cst"):
                env2 = dict(env); env2[name] = b
                return self.block(rest, env2, ind)
        # max_deg = 0; for sub in <ExprList>: d = rec(sub); if d is None: return None; max_deg = max(max_deg, d)
        # return max_deg
        if isinstance(value, ast.Constant) and isinstance(value.value, int) and len(rest) >= 2 and isinstance(rest[0], ast.For):
            return self.max_loop(name, value.value, rest[0], rest[1:], env)
        raise TranslateError(f"unsupported assignment {name} = {ast.unparse(value)[:60]!r} at line {value.lineno}")

    @staticmethod
    def is_none_guard(s: ast.stmt, name: str) -> bool:
        return (isinstance(s, ast.If) and not s.orelse and ast.unparse(s.test) == f"{name} is None"
                and len(s.body) == 1 and isinstance(s.body[0], ast.Return)
                and (s.body[0].value is None or ast.unparse(s.body[0].value) == "None"))

    def max_loop(self, acc: str, init: int, loop: ast.For, after, env) -> str:
        """the one loop idiom of the degree code, matched literally (modulo the three local names)"""
        if not (isinstance(loop.target, ast.Name) and not loop.orelse and len(after) == 1
                and isinstance(after[0], ast.Return) and ast.unparse(after[0].value) == acc):
            raise TranslateError(f"unsupported loop shape at line {loop.lineno}")
        sub = loop.target.id
        it = self.attr_path(loop.iter, env)
        if it is None or it[1] != "ExprList":
            raise TranslateError(f"loop over something that is not a known element list: {ast.unparse(loop.iter)!r}")
        body = loop.body
        ok = (len(body) == 3 and isinstance(body[0], ast.Assign) and isinstance(body[0].targets[0], ast.Name)
              and isinstance(body[0].value, ast.Call) and isinstance(body[0].value.func, ast.Name)
              and body[0].value.func.id in self.rec and self.rec[body[0].value.func.id][1] == "Expr"
              and ast.unparse(body[0].value.args[0]) == sub)
        if ok:
            d = body[0].targets[0].id
            ok = (self.is_none_guard(body[1], d) and isinstance(body[2], ast.Assign)
                  and ast.unparse(body[2]) in (f"{acc} = max({acc}, {d})", f"{acc} = max({d}, {acc})"))
        if not ok:
            raise TranslateError(f"loop body is not the `d = rec(sub); if d is None: return None; acc = max(acc, d)` idiom (line {loop.lineno})")
        par = self.rec[body[0].value.func.id][0]
        return f"maxLoop {par} {it[0]}.toList {init}"

    def if_(self, s: ast.If, rest, env, ind) -> str:
        nl = "\n" + ind
        test = s.test
        neg = False
        if isinstance(test, ast.UnaryOp) and isinstance(test.op, ast.Not):
            neg, test = True, test.operand
        # hasattr(<Vec>, "_variables") / hasattr(<Vec>, "_expressions")
        if (isinstance(test, ast.Call) and isinstance(test.func, ast.Name) and test.func.id == "hasattr"
                and len(test.args) == 2 and isinstance(test.args[1], ast.Constant) and not neg and not s.orelse):
            b = self.attr_path(test.args[0], env)
            which = test.args[1].value
            if b is not None and which in ("_variables", "_expressions"):
                key = ast.unparse(test.args[0])
                if b[1] == "VVar":           # statically a VectorVariable
                    return self.block(s.body, env, ind) if which == "_variables" else self.block(rest, env, ind)
                if b[1] == "ExprList":       # statically a VectorExpression / MatrixExpression
                    if which == "_expressions":
                        env2 = dict(env); env2[key + "._expressions"] = (b[0], "ExprList")
                        return self.block(s.body, env2, ind)
                    return self.block(rest, env, ind)
                if b[1] == "Vec":
                    if which == "_variables":
                        envv = dict(env); envv[key] = (f"vv{self.fresh}", "VVar")
                        # the continuation sees a Vec known not to be `.vars`: it must test `_expressions` next
                        if not (rest and isinstance(rest[0], ast.If) and ast.unparse(rest[0].test) == f"hasattr({key}, '_expressions')"):
                            raise TranslateError(f"`hasattr({key}, '_variables')` is not followed by the `_expressions` test (line {s.lineno})")
                        enve = dict(env); enve[key + "._expressions"] = (f"es{self.fresh}", "ExprList")
                        a = self.block(s.body, envv, ind + "  ")
                        bterm = self.block(rest[0].body, enve, ind + "  ")
                        # anything after the two tests is unreachable for the two kinds of vector in Optyx.Syntax
                        out = (f"match {b[0]} with{nl}| .vars vv{self.fresh} =>{nl}  {a}{nl}| .exprs es{self.fresh} =>{nl}  {bterm}")
                        self.fresh += 1
                        return out
            raise TranslateError(f"unsupported hasattr test {ast.unparse(s.test)!r} at line {s.lineno}")
        # `if not isinstance(<Expr-valued>, Constant): return None`
        if (neg and isinstance(test, ast.Call) and isinstance(test.func, ast.Name) and test.func.id == "isinstance"
                and len(test.args) == 2 and ast.unparse(test.args[1]) == "Constant" and not s.orelse
                and len(s.body) == 1 and isinstance(s.body[0], ast.Return)):
            b = self.attr_path(test.args[0], env)
            if b is not None and b[1] == "Expr":
                key = ast.unparse(test.args[0])
                c = f"c{self.fresh}"; self.fresh += 1
                env2 = dict(env); env2[key + ".value"] = (c, "Cst")
                return (f"match {b[0]} with{nl}| .const {c} =>{nl}  " + self.block(rest, env2, ind + "  ")
                        + f"{nl}| _ => {self.ret(s.body[0].value, env)}")
        # `if not isinstance(<Cst>, numbers.Number): return None` — every constant of Optyx.Syntax is a number
        if (neg and isinstance(test, ast.Call) and isinstance(test.func, ast.Name) and test.func.id == "isinstance"
                and len(test.args) == 2 and ast.unparse(test.args[1]) == "numbers.Number" and not s.orelse):
            b = self.attr_path(test.args[0], env)
            if b is not None and b[1] in ("Cst", "Rat"):
                return self.block(rest, env, ind)
        # `if not x.is_integer() or x < 0: return None`  ==>  match on cstNat / ratNat, `int(x)` becomes the Nat
        if (isinstance(s.test, ast.BoolOp) and isinstance(s.test.op, ast.Or) and len(s.test.values) == 2 and not s.orelse
                and len(s.body) == 1 and isinstance(s.body[0], ast.Return) and self.ret(s.body[0].value, env) == "none"):
            a0, a1 = (ast.unparse(v) for v in s.test.values)
            if a0.startswith("not ") and a0.endswith(".is_integer()"):
                x = a0[4:-len(".is_integer()")]
                if a1 == f"{x} < 0" and x in env and env[x][1] in ("Cst", "Rat"):
                    fn = "cstNat" if env[x][1] == "Cst" else "ratNat"
                    n = f"n{self.fresh}"; self.fresh += 1
                    env2 = dict(env); env2[x] = (n, "NatOfFloat")
                    return (f"match {fn} {env[x][0]} with{nl}| none => none{nl}| some {n} =>{nl}  "
                            + self.block(rest, env2, ind + "  "))
        # `if a is None or b is None: return None` over results of recursive calls not yet tested
        parts = s.test.values if (isinstance(s.test, ast.BoolOp) and isinstance(s.test.op, ast.Or)) else [s.test]
        names = []
        for p_ in parts:
            if (isinstance(p_, ast.Compare) and len(p_.ops) == 1 and isinstance(p_.ops[0], ast.Is)
                    and isinstance(p_.left, ast.Name) and ast.unparse(p_.comparators[0]) == "None"
                    and env.get(p_.left.id, ("", ""))[1] == "DegPending"):
                names.append(p_.left.id)
        if names and len(names) == len(parts):
            if s.orelse or not (len(s.body) == 1 and isinstance(s.body[0], ast.Return) and self.ret(s.body[0].value, env) == "none"):
                raise TranslateError(f"unsupported `is None` test shape at line {s.lineno}")
            env2 = dict(env)
            pre, depth = "", ind
            for nm in names:
                pre += f"match {env[nm][0]} with\n{depth}| none => none\n{depth}| some {nm} =>\n{depth}  "
                env2[nm] = (nm, "Nat")
                depth += "  "
            return pre + self.block(rest, env2, depth)
        # plain conditions
        c = self.cond(test, env)
        if neg:
            c = f"(!{c})"
        if s.orelse:
            return (f"if {c} then{nl}  {self.block(s.body, env, ind + '  ')}{nl}else{nl}  "
                    f"{self.block(s.orelse, env, ind + '  ')}")
        if not always_returns(s.body):
            raise TranslateError(f"`if` without else whose body may fall through (line {s.lineno})")
        return (f"if {c} then{nl}  {self.block(s.body, env, ind + '  ')}{nl}else{nl}  "
                f"{self.block(rest, env, ind + '  ')}")


def find_func(tree: ast.AST, name: str) -> ast.FunctionDef:
    for n in ast.walk(tree):
        if isinstance(n, ast.FunctionDef) and n.name == name:
            return n
    raise TranslateError(f"function {name} not found")


def gen_degree_step(an: ast.AST) -> str:
    """`_compute_degree_impl` and `_vector_degree` as non-recursive step functionals"""
    fn = find_func(an, "_compute_degree_impl")
    if [a.arg for a in fn.args.args] != ["expr"]:
        raise TranslateError("_compute_degree_impl: unexpected signature")
    comp = OptNatCompiler("expr", {"_compute_degree_impl": ("recE", "Expr"), "_vector_degree": ("recV", "Vec")})
    branches: list[tuple[list[str], list[ast.stmt]]] = []
    tail = None
    for s in fn.body:
        if isinstance(s, (ast.ImportFrom, ast.Import)) or (isinstance(s, ast.Expr) and isinstance(s.value, ast.Constant)):
            continue
        if isinstance(s, ast.If) and not s.orelse:
            cl = classes_of(s.test, "expr")
            if cl is None:
                raise TranslateError(f"_compute_degree_impl: top-level test is not isinstance(expr, …): {ast.unparse(s.test)!r}")
            if not always_returns(s.body):
                raise TranslateError(f"_compute_degree_impl: branch {cl} may fall through (line {s.lineno})")
            branches.append((cl, s.body))
            continue
        if isinstance(s, ast.Return) and s is fn.body[-1]:
            tail = s
            continue
        raise TranslateError(f"_compute_degree_impl: unsupported top-level statement at line {s.lineno}")
    if tail is None:
        raise TranslateError("_compute_degree_impl: no final return")
    known = {c for c, _, _ in CTORS} | NON_SCALAR
    for cl, _ in branches:
        for c in cl:
            if c not in known:
                raise TranslateError(f"_compute_degree_impl: branch for a class unknown to the model: {c}")
    out = ["/-- `_compute_degree_impl`, one step: `recE` stands for the recursive calls, `recV` for `_vector_degree` -/",
           "def degreeStepG (recE : Expr → Deg) (recV : Vec → Deg) : Expr → Deg"]
    for cls, ctor, fields in CTORS:
        binders = " ".join(b for _, b, _ in fields)
        env = {}
        for attr, b, ty in fields:
            if attr:
                env[f"expr.{attr}"] = (b, ty)
                if ty == "ExprList":
                    env[f"expr.{attr}"] = (b, "ExprList")
        body = None
        for cl, stmts in branches:
            if cls in cl:
                body = comp.block(stmts, env, "      ")
                break
        if body is None:
            body = comp.ret(tail.value, env)
        out.append(f"  | .{ctor} {binders} =>\n      {body}")
    # _vector_degree
    fv = find_func(an, "_vector_degree")
    if [a.arg for a in fv.args.args] != ["vector"]:
        raise TranslateError("_vector_degree: unexpected signature")
    compv = OptNatCompiler("vector", {"_compute_degree_impl": ("recE", "Expr")})
    body = [s for s in fv.body if not (isinstance(s, ast.Expr) and isinstance(s.value, ast.Constant))]
    # final `return None` after the two hasattr tests is unreachable for the two kinds of vector
    if not (len(body) == 3 and isinstance(body[2], ast.Return)):
        raise TranslateError("_vector_degree: unexpected shape")
    vterm = compv.block(body[:2], {"vector": ("v", "Vec")}, "  ")
    out.append("")
    out.append("/-- `_vector_degree`, with `recE` for the calls of `_compute_degree_impl` -/")
    out.append("def vectorDegreeG (recE : Expr → Deg) (v : Vec) : Deg :=\n  " + vterm)
    return "\n".join(out) + "\n"


# ======================================================================================================
#  Expr-valued rule functions: the registered vector gradient rules of autodiff.py
# ======================================================================================================

SIMPL = {"_simplify_add": "sAdd", "_simplify_sub": "sSub", "_simplify_mul": "sMul",
         "_simplify_div": "sDiv", "_simplify_neg": "sNeg", "_simplify_pow": "sPow"}
FUNCS1 = {"abs_": "abs", "cos": "cos", "sin": "sin", "log": "log", "cosh": "cosh", "sinh": "sinh", "exp": "exp",
          "sqrt": "sqrt", "tan": "tan", "tanh": "tanh"}


def lean_rat(v) -> str:
    from fractions import Fraction
    f = Fraction(v)
    if f.denominator == 1:
        return f"({f.numerator} : Rat)"
    return f"(({f.numerator} : Rat) / {f.denominator})"


class Loop:
    def __init__(self, uid: int):
        self.uid = uid
        self.index = None            # python name of the enumerate index
        self.streams = {}            # key -> (lean list term, lean element type)
        self.names = {}              # python loop-variable name -> stream key
        self.deriv_of = {}           # python loop-variable name -> stream key of its derivative
        self.used = []               # keys in first-use order

    def ph(self, key: str) -> str:
        if key not in self.used:
            self.used.append(key)
        return f"⟪{self.uid}:{key}⟫"


class RuleCompiler:
    """statement blocks of type Expression -> Lean terms of type Expr"""

    ORDER = ["C", "R", "E", "E1", "E2", "D", "D1", "D2"]

    def __init__(self):
        self.fresh = 0
        self.loops: list[Loop] = []

    def new(self, base: str) -> str:
        self.fresh += 1
        return f"{base}{self.fresh}"

    # ---- look-ups ----------------------------------------------------------------------------------------
    def lookup(self, node: ast.AST, env):
        return env.get(ast.unparse(node))

    # ---- Rat-valued --------------------------------------------------------------------------------------
    def rat(self, node: ast.AST, env) -> str:
        b = self.lookup(node, env)
        if b is not None and b[1] in ("Rat",):
            return b[0]
        if b is not None and b[1] == "Nat":
            return f"(({b[0]} : Nat) : Rat)"
        if isinstance(node, ast.Constant) and isinstance(node.value, (int, float)) and not isinstance(node.value, bool):
            return lean_rat(node.value)
        if isinstance(node, ast.UnaryOp) and isinstance(node.op, ast.USub) and isinstance(node.operand, ast.Constant):
            return lean_rat(-node.operand.value)
        if isinstance(node, ast.Call) and isinstance(node.func, ast.Name) and node.func.id == "float" and len(node.args) == 1:
            return self.rat(node.args[0], env)
        if isinstance(node, ast.BinOp) and isinstance(node.op, (ast.Add, ast.Sub, ast.Mult)):
            op = {ast.Add: "+", ast.Sub: "-", ast.Mult: "*"}[type(node.op)]
            return f"({self.rat(node.left, env)} {op} {self.rat(node.right, env)})"
        if isinstance(node, ast.Subscript):
            base = self.lookup(node.value, env)
            sl = node.slice
            if base is not None and base[1] == "RatList" and isinstance(sl, ast.Name):
                # coeffs[i]: i the index of an enclosing loop over the vector the coefficients belong to
                for lp in reversed(self.loops):
                    if lp.index == sl.id and "C" in lp.streams and lp.streams["C"][0] == base[0]:
                        return lp.ph("C")
                ib = env.get(sl.id)
                if ib is not None and ib[1] == "Nat":
                    return f"({base[0]}.getD {ib[0]} 0)"
            if base is not None and base[1] == "RatMat" and isinstance(sl, ast.Tuple) and len(sl.elts) == 2 \
                    and all(isinstance(e, ast.Name) for e in sl.elts):
                i, j = sl.elts[0].id, sl.elts[1].id
                outer = next((lp for lp in self.loops if lp.index == i), None)
                inner = next((lp for lp in self.loops if lp.index == j), None)
                if outer is not None and inner is not None and outer is not inner:
                    outer.streams.setdefault("R", (base[0], "List Rat"))
                    if outer.streams["R"][0] != base[0]:
                        raise TranslateError(f"two different matrices indexed by one loop (line {node.lineno})")
                    row = outer.ph("R")
                    inner.streams.setdefault("C", (row, "Rat"))
                    if inner.streams["C"][0] != row:
                        raise TranslateError(f"inner loop indexes two different rows (line {node.lineno})")
                    return inner.ph("C")
        raise TranslateError(f"unsupported numeric expression {ast.unparse(node)!r} at line {getattr(node, 'lineno', '?')}")

    def ratlist(self, node: ast.AST, env) -> str:
        b = self.lookup(node, env)
        if b is not None and b[1] == "RatList":
            return b[0]
        # Q_sym[i, :]
        if isinstance(node, ast.Subscript) and isinstance(node.slice, ast.Tuple) and len(node.slice.elts) == 2:
            base = self.lookup(node.value, env)
            i, c = node.slice.elts
            if (base is not None and base[1] == "RatMat" and isinstance(i, ast.Name) and isinstance(c, ast.Slice)
                    and c.lower is None and c.upper is None and c.step is None):
                ib = env.get(i.id)
                if ib is not None and ib[1] == "Nat":
                    return f"({base[0]}.getD {ib[0]} [])"
        raise TranslateError(f"unsupported coefficient-list expression {ast.unparse(node)!r} at line {getattr(node, 'lineno', '?')}")

    # ---- Expr-valued -------------------------------------------------------------------------------------
    def ex(self, node: ast.AST, env) -> str:
        b = self.lookup(node, env)
        if b is not None:
            t, ty = b
            if ty == "Expr":
                return t
            if ty == "Var":
                return f"(Expr.var {t})"
            if ty == "Stream":      # loop variable: (loop, key)
                return t[0].ph(t[1])
            raise TranslateError(f"{ast.unparse(node)!r} has type {ty}, an expression was expected (line {node.lineno})")
        if isinstance(node, ast.Call) and isinstance(node.func, ast.Name):
            fn, args = node.func.id, node.args
            if fn in SIMPL:
                return "(" + SIMPL[fn] + " " + " ".join(self.ex(a, env) for a in args) + ")"
            if fn == "Constant" and len(args) == 1:
                return f"(Expr.c {self.rat(args[0], env)})"
            if fn in FUNCS1 and len(args) == 1:
                return f"(Expr.un .{FUNCS1[fn]} {self.ex(args[0], env)})"
            if fn == "UnaryOp" and len(args) == 2 and isinstance(args[1], ast.Constant):
                return f"(Expr.un .{args[1].value} {self.ex(args[0], env)})"
            if fn == "BinaryOp" and len(args) == 3 and isinstance(args[2], ast.Constant) and args[2].value in BINOP_NAMES:
                return f"(Expr.bin .{BINOP_NAMES[args[2].value]} {self.ex(args[0], env)} {self.ex(args[1], env)})"
            if fn == "LinearCombination" and len(args) == 2:
                vb = self.lookup(args[1], env)
                if vb is None or vb[1] != "Vec":
                    raise TranslateError(f"LinearCombination over something that is not a known vector (line {node.lineno})")
                return f"(Expr.linComb {self.ratlist(args[0], env)} {vb[0]})"
            if fn == "gradient" and len(args) == 2 and ast.unparse(args[1]) == "wrt" and isinstance(args[0], ast.Name):
                for lp in reversed(self.loops):
                    if args[0].id in lp.deriv_of:
                        return lp.ph(lp.deriv_of[args[0].id])
                raise TranslateError(f"gradient() of something that is not an element of a differentiated operand (line {node.lineno})")
        if isinstance(node, ast.Subscript) and isinstance(node.slice, ast.Name):
            base = self.lookup(node.value, env)
            ib = env.get(node.slice.id)
            if base is not None and base[1] == "ExprL" and ib is not None and ib[1] == "Nat":
                return f"({base[0]}.getD {ib[0]} (Expr.c 0))"
        raise TranslateError(f"unsupported expression {ast.unparse(node)!r} at line {getattr(node, 'lineno', '?')}")

    # ---- conditions --------------------------------------------------------------------------------------
    def cond(self, node: ast.AST, env) -> str:
        if isinstance(node, ast.Compare) and len(node.ops) == 1:
            l, r, o = node.left, node.comparators[0], node.ops[0]
            if isinstance(o, ast.Is):
                lb, rb = self.lookup(l, env), self.lookup(r, env)
                if lb and rb and lb[1] == rb[1] == "Vec" and "vv:" + ast.unparse(l) in env and "vv:" + ast.unparse(r) in env:
                    return f"({env['vv:' + ast.unparse(l)][0]}.oid == {env['vv:' + ast.unparse(r)][0]}.oid)"
            if isinstance(o, (ast.Eq, ast.NotEq)):
                sym = "==" if isinstance(o, ast.Eq) else "!="
                lb = self.lookup(l, env)
                rb_ = self.lookup(r, env)
                if lb is not None and rb_ is not None and lb[1] == rb_[1] == "Str":
                    return f"({lb[0]} {sym} {rb_[0]})"
                if lb is not None and lb[1] == "Nat" and isinstance(r, ast.Constant):
                    return f"({lb[0]} {sym} {r.value})"
                return f"({self.rat(l, env)} {sym} {self.rat(r, env)})"
        raise TranslateError(f"unsupported condition {ast.unparse(node)!r} at line {getattr(node, 'lineno', '?')}")

    # ---- blocks ------------------------------------------------------------------------------------------
    @staticmethod
    def skip(s: ast.stmt) -> bool:
        return isinstance(s, (ast.ImportFrom, ast.Import)) or (isinstance(s, ast.Expr) and isinstance(s.value, ast.Constant))

    def block(self, stmts, env, ind: str) -> str:
        stmts = [s for s in stmts if not self.skip(s)]
        if not stmts:
            raise TranslateError("control reaches the end of a rule without `return`")
        s, rest = stmts[0], stmts[1:]
        nl = "\n" + ind
        if isinstance(s, ast.Return):
            if s.value is None:
                raise TranslateError(f"bare return at line {s.lineno}")
            return self.ex(s.value, env)
        if isinstance(s, ast.Raise):
            return "unsupportedRule"
        tgt = val = None
        if isinstance(s, ast.Assign) and len(s.targets) == 1 and isinstance(s.targets[0], ast.Name):
            tgt, val = s.targets[0].id, s.value
        elif isinstance(s, ast.AnnAssign) and isinstance(s.target, ast.Name) and s.value is not None:
            tgt, val = s.target.id, s.value
        if tgt is not None:
            return self.assign(tgt, val, rest, env, ind)
        if isinstance(s, ast.If):
            return self.if_(s, rest, env, ind)
        if isinstance(s, ast.For):
            # accumulator initialised a few statements earlier (`result = Constant(0.0); elems = …; for …`)
            after = [x for x in rest if not self.skip(x)]
            if len(after) == 1 and isinstance(after[0], ast.Return) and isinstance(after[0].value, ast.Name) \
                    and ("acc0:" + after[0].value.id) in env:
                acc = after[0].value.id
                return self.fold(acc, env[acc][0], s, env, ind)
            return self.first_match(s, rest, env, ind)
        raise TranslateError(f"unsupported statement {ast.unparse(s)[:80]!r} at line {s.lineno}")

    def assign(self, name, val, rest, env, ind) -> str:
        u = ast.unparse(val)
        env2 = dict(env)
        b = self.lookup(val, env)
        if b is not None:                                   # alias
            env2[name] = b
            for k, v in list(env.items()):                  # carry refinements (x._variables, vv:x, …) over
                if k.startswith(u + ".") or k == "vv:" + u or k == "d:" + u or k.startswith("d:" + u + "."):
                    env2[k.replace(u, name, 1)] = v
            return self.block(rest, env2, ind)
        # Q_sym = Q + Q.T
        if isinstance(val, ast.BinOp) and isinstance(val.op, ast.Add):
            lb = self.lookup(val.left, env)
            if lb is not None and lb[1] == "RatMat" and ast.unparse(val.right) == ast.unparse(val.left) + ".T":
                env2[name] = (f"(qsym {lb[0]})", "RatMat")
                return self.block(rest, env2, ind)
        # elems = list(vec._expressions)
        if isinstance(val, ast.Call) and isinstance(val.func, ast.Name) and val.func.id == "list" and len(val.args) == 1:
            lb = self.lookup(val.args[0], env)
            if lb is not None and lb[1] == "ExprList":
                env2[name] = lb
                src = ast.unparse(val.args[0])
                if "d:" + src in env:
                    env2["d:" + name] = env["d:" + src]
                return self.block(rest, env2, ind)
        # left_elems = left._variables if isinstance(left, VectorVariable) else left._expressions
        if isinstance(val, ast.IfExp):
            cl = classes_of(val.test, ast.unparse(val.test.args[0])) if isinstance(val.test, ast.Call) and val.test.args else None
            if cl == ["VectorVariable"]:
                x = ast.unparse(val.test.args[0])
                xb = env.get(x)
                if (xb is not None and xb[1] == "Vec" and ast.unparse(val.body) == f"{x}._variables"
                        and ast.unparse(val.orelse) == f"{x}._expressions"):
                    env2[name] = (f"(Vec.elems {xb[0]})", "ExprL")
                    env2["d:" + name] = env["d:" + x]
                    return self.block(rest, env2, ind)
        # X_index = None   (assigned later by the search idiom below)
        if isinstance(val, ast.Constant) and val.value is None:
            env2[name] = ("none", "OptNat")
            return self.block(rest, env2, ind)
        # count = sum(1 for row in M._variables for var in row if var.name == wrt.name)
        if isinstance(val, ast.Call) and isinstance(val.func, ast.Name) and val.func.id == "sum" and len(val.args) == 1 \
                and isinstance(val.args[0], ast.GeneratorExp):
            ge = val.args[0]
            if (ast.unparse(ge.elt) == "1" and len(ge.generators) == 2 and ast.unparse(ge.generators[0].target) == "row"
                    and ast.unparse(ge.generators[1].iter) == "row" and not ge.generators[0].ifs
                    and [ast.unparse(i) for i in ge.generators[1].ifs] == [f"{ast.unparse(ge.generators[1].target)}.name == wrt.name"]):
                it = ast.unparse(ge.generators[0].iter)
                if it.endswith("._variables"):
                    mb = env.get(it[:-len("._variables")])
                    if mb is not None and mb[1] == "MVar":
                        env2[name] = (f"(countName wrt.name {mb[0]}.flat)", "Nat")
                        return self.block(rest, env2, ind)
        # accumulator:  acc = Constant(0.0); for …; return acc
        if u in ("Constant(0.0)", "Constant(0)") and rest and isinstance(rest[0], ast.For):
            term = self.fold(name, self.ex(val, env), rest[0], env, ind)
            after = [s for s in rest[1:] if not self.skip(s)]
            if len(after) == 1 and isinstance(after[0], ast.Return) and ast.unparse(after[0].value) == name:
                return term
            raise TranslateError(f"accumulator {name!r} is not returned directly after its loop (line {val.lineno})")
        # temporary Expr / Rat value
        if u in ("Constant(0.0)", "Constant(0)"):
            env2["acc0:" + name] = ("", "marker")
        for fn_, ty_ in ((self.ex, "Expr"), (self.rat, "Rat"), (self.ratlist, "RatList")):
            try:
                env2[name] = (fn_(val, env), ty_)
                break
            except TranslateError as e_:
                err = e_
        else:
            raise err
        return self.block(rest, env2, ind)

    # ---- `if` --------------------------------------------------------------------------------------------
    def if_(self, s: ast.If, rest, env, ind) -> str:
        nl = "\n" + ind
        test = s.test
        orelse = s.orelse if s.orelse else rest
        if s.orelse and rest:
            if not (always_returns(s.body) and always_returns(s.orelse)):
                raise TranslateError(f"`if`/`else` that may fall through (line {s.lineno})")
        # isinstance(x, VectorVariable) [and isinstance(y, VectorVariable)] / isinstance(m, MatrixVariable)
        parts = test.values if isinstance(test, ast.BoolOp) and isinstance(test.op, ast.And) else [test]
        insts = []
        for p in parts:
            if isinstance(p, ast.Call) and isinstance(p.func, ast.Name) and p.func.id == "isinstance" and len(p.args) == 2:
                insts.append((ast.unparse(p.args[0]), ast.unparse(p.args[1])))
        # if isinstance(X, VectorVariable): for i, var in enumerate(X._variables): if var.name == wrt.name: N = i; break
        if (len(insts) == 1 and insts[0][1] == "VectorVariable" and not s.orelse and len(s.body) == 1
                and isinstance(s.body[0], ast.For) and env.get(insts[0][0], ("", ""))[1] == "Vec"):
            x = insts[0][0]
            m = re.fullmatch(r"for i, var in enumerate\(" + re.escape(x) + r"\._variables\):\n    if var\.name == wrt\.name:\n"
                             r"        (\w+) = i\n        break", ast.unparse(s.body[0]))
            if m and env.get(m.group(1)) == ("none", "OptNat"):
                env2 = dict(env)
                env2[m.group(1)] = (f"(vecFind wrt.name {env[x][0]})", "OptNat")
                return self.block(rest, env2, ind)
        if not s.orelse and not always_returns(s.body):
            raise TranslateError(f"`if` without else whose body may fall through (line {s.lineno})")
        if insts and len(insts) == len(parts):
            if all(c == "VectorVariable" for _, c in insts) and all(env.get(x, ("", ""))[1] == "Vec" for x, _ in insts):
                enva = dict(env)
                pats = []
                for x, _ in insts:
                    vv = self.new("vv")
                    pats.append(f".vars {vv}")
                    enva["vv:" + x] = (vv, "VVar")
                    enva[x + "._variables"] = (f"{vv}.vars", "VarL")
                a = self.block(s.body, enva, ind + "  ")
                if len(insts) == 1:
                    x = insts[0][0]
                    es = self.new("es")
                    envb = dict(env)
                    envb[x + "._expressions"] = (es, "ExprList")
                    envb["d:" + x + "._expressions"] = env["d:" + x]
                    bterm = self.block(orelse, envb, ind + "  ")
                    return (f"match {env[x][0]} with{nl}| {pats[0]} =>{nl}  {a}{nl}| .exprs {es} =>{nl}  {bterm}")
                bterm = self.block(orelse, env, ind + "  ")
                scrut = ", ".join(env[x][0] for x, _ in insts)
                return (f"match {scrut} with{nl}| {', '.join(pats)} =>{nl}  {a}{nl}| {', '.join('_' for _ in insts)} =>{nl}  {bterm}")
            if len(insts) == 1 and insts[0][1] == "MatrixVariable":
                mb = env.get(insts[0][0])
                if mb is not None and mb[1] == "MVar":
                    return self.block(s.body, env, ind)
                if mb is not None and mb[1] == "ExprList":
                    return self.block(orelse, env, ind)
            raise TranslateError(f"unsupported isinstance test {ast.unparse(test)!r} at line {s.lineno}")
        # X is not None [and Y is not None]
        opts = []
        for p in parts:
            if (isinstance(p, ast.Compare) and len(p.ops) == 1 and isinstance(p.ops[0], ast.IsNot)
                    and ast.unparse(p.comparators[0]) == "None" and isinstance(p.left, ast.Name)
                    and env.get(p.left.id, ("", ""))[1] == "OptNat"):
                opts.append(p.left.id)
        if opts and len(opts) == len(parts):
            els = self.block(orelse, env, ind + "  " * len(opts))
            enva = dict(env)
            binders = []
            for x in opts:
                bnd = self.new("i")
                enva[x] = (bnd, "Nat")
                binders.append(bnd)
            a = self.block(s.body, enva, ind + "  " * len(opts))
            # nested matches; the `else` part is repeated in every `none` arm (it still sees the options untested)
            out, pad = "", ind
            for x, bnd in zip(opts, binders):
                out += f"match {env[x][0]} with\n{pad}| none =>\n{pad}  {els}\n{pad}| some {bnd} =>\n{pad}  "
                pad += "  "
            return out + a
        c = self.cond(test, env)
        return (f"if {c} then{nl}  {self.block(s.body, env, ind + '  ')}{nl}else{nl}  "
                f"{self.block(orelse, env, ind + '  ')}")

    # ---- first-match loops -------------------------------------------------------------------------------
    def first_match(self, f: ast.For, rest, env, ind) -> str:
        nl = "\n" + ind
        if f.orelse or len(f.body) != 1 or not isinstance(f.body[0], ast.If) or f.body[0].orelse:
            raise TranslateError(f"unsupported loop shape at line {f.lineno}")
        inner = f.body[0]
        idx = None
        it = f.iter
        if isinstance(f.target, ast.Tuple) and len(f.target.elts) == 2 and isinstance(it, ast.Call) \
                and ast.unparse(it.func) == "enumerate" and len(it.args) == 1:
            idx, var = f.target.elts[0].id, f.target.elts[1].id
            it = it.args[0]
        elif isinstance(f.target, ast.Name):
            var = f.target.id
        else:
            raise TranslateError(f"unsupported loop target at line {f.lineno}")
        if ast.unparse(inner.test) != f"{var}.name == wrt.name":
            raise TranslateError(f"loop is not a first-match search by name (line {f.lineno})")
        if not always_returns(inner.body):
            raise TranslateError(f"first-match body does not return (line {f.lineno})")
        vb = self.lookup(it, env)
        if vb is None or vb[1] != "VarL":
            raise TranslateError(f"first-match search over something that is not a known variable list: {ast.unparse(it)!r}")
        dflt = self.block(rest, env, ind + "  ")
        env2 = dict(env)
        uses_var = any(isinstance(n, ast.Name) and n.id == var for st in inner.body for n in ast.walk(st))
        if idx is not None:
            i = self.new("i")
            env2[idx] = (i, "Nat")
            if uses_var:
                raise TranslateError(f"indexed first-match loop whose result uses the element itself (line {f.lineno})")
            hit = self.block(inner.body, env2, ind + "  ")
            return f"match findName wrt.name {vb[0]} with{nl}| some {i} =>{nl}  {hit}{nl}| none =>{nl}  {dflt}"
        if uses_var:
            x = self.new("x")
            env2[var] = (x, "Var")
            # the per-operator table of gradient_vector_unary_sum is translated separately (unSumDeriv)
            body = [s for s in inner.body if not self.skip(s)]
            if (len(body) == 1 and isinstance(body[0], ast.If) and isinstance(body[0].test, ast.Compare)
                    and env.get(ast.unparse(body[0].test.left), ("", ""))[1] == "VOp"):
                hit = f"unSumDeriv {env[ast.unparse(body[0].test.left)][0]} (Expr.var {x})"
            else:
                hit = self.block(inner.body, env2, ind + "  ")
            return (f"match {vb[0]}.find? (·.name == wrt.name) with{nl}| some {x} =>{nl}  {hit}{nl}| none =>{nl}  {dflt}")
        hit = self.block(inner.body, env2, ind + "  ")
        return f"if hasName wrt.name {vb[0]} then{nl}  {hit}{nl}else{nl}  {dflt}"

    # ---- accumulating loops ------------------------------------------------------------------------------
    def fold(self, acc: str, init: str, f: ast.For, env, ind) -> str:
        if f.orelse:
            raise TranslateError(f"for/else at line {f.lineno}")
        lp = Loop(len(self.loops) + 1 + 10 * self.fresh)
        self.fresh += 1
        env2 = dict(env)
        it, tgt = f.iter, f.target
        body = f.body
        # for row in M._expressions: for elem in row:   (a MatrixExpression is kept row-major flattened)
        if (isinstance(tgt, ast.Name) and len(body) == 1 and isinstance(body[0], ast.For)
                and ast.unparse(body[0].iter) == tgt.id and isinstance(body[0].target, ast.Name)):
            lb = self.lookup(it, env)
            if lb is None or lb[1] != "ExprList" or not ast.unparse(it).endswith("._expressions"):
                raise TranslateError(f"nested loop over something that is not a known matrix expression (line {f.lineno})")
            tgt, body = body[0].target, body[0].body
            self.bind_elems(lp, env2, tgt.id, lb[0] + ".toList", env.get("d:" + ast.unparse(it)), "E", "D")
        elif isinstance(it, ast.Call) and ast.unparse(it.func) == "enumerate" and len(it.args) == 1 \
                and isinstance(tgt, ast.Tuple) and len(tgt.elts) == 2:
            lp.index = tgt.elts[0].id
            self.bind_iter(lp, env2, tgt.elts[1].id, it.args[0], env, "E", "D")
            # coefficient list that belongs to this vector (coeffs[i])
            for k, v in env.items():
                if v[1] == "RatList":
                    lp.streams.setdefault("C", (v[0], "Rat"))
        elif isinstance(it, ast.Call) and ast.unparse(it.func) == "zip" and len(it.args) == 2 \
                and isinstance(tgt, ast.Tuple) and len(tgt.elts) == 2:
            self.bind_iter(lp, env2, tgt.elts[0].id, it.args[0], env, "E1", "D1")
            self.bind_iter(lp, env2, tgt.elts[1].id, it.args[1], env, "E2", "D2")
        elif isinstance(tgt, ast.Name):
            self.bind_iter(lp, env2, tgt.id, it, env, "E", "D")
        else:
            raise TranslateError(f"unsupported loop header at line {f.lineno}")
        self.loops.append(lp)
        try:
            step = self.fold_body(acc, body, env2, ind)
        finally:
            self.loops.pop()
        keys = [k for k in self.ORDER if k in lp.used]
        if not keys:
            raise TranslateError(f"loop body does not depend on the loop (line {f.lineno})")
        lists = [lp.streams[k][0] for k in keys]
        tys = [lp.streams[k][1] for k in keys]
        if any(l is None for l in lists):
            raise TranslateError(f"derivative of an operand that is not differentiated (line {f.lineno})")
        if keys == ["E1", "E2", "D1", "D2"]:
            zipped = f"(({lists[0]}.zip {lists[1]}).zip ({lists[2]}.zip {lists[3]}))"
            proj = ["p.1.1", "p.1.2", "p.2.1", "p.2.2"]
            binder = "(p : (Expr × Expr) × (Expr × Expr))"
        elif len(keys) == 1:
            zipped, proj, binder = lists[0], ["d"], "d"
        elif len(keys) == 2:
            zipped, proj, binder = f"({lists[0]}.zip {lists[1]})", ["p.1", "p.2"], f"(p : {tys[0]} × {tys[1]})"
        elif len(keys) == 3:
            zipped = f"({lists[0]}.zip ({lists[1]}.zip {lists[2]}))"
            proj, binder = ["p.1", "p.2.1", "p.2.2"], f"(p : {tys[0]} × ({tys[1]} × {tys[2]}))"
        else:
            raise TranslateError(f"unsupported combination of per-element data {keys} (line {f.lineno})")
        for k, pr in zip(keys, proj):
            step = step.replace(f"⟪{lp.uid}:{k}⟫", pr)
        return f"{zipped}.foldl\n{ind}  (fun acc {binder} => {step}) {init}"

    def bind_iter(self, lp, env2, var, it, env, ekey, dkey):
        lb = self.lookup(it, env)
        if lb is None or lb[1] not in ("ExprList", "ExprL"):
            raise TranslateError(f"loop over something that is not a known element list: {ast.unparse(it)!r} (line {it.lineno})")
        lst = lb[0] + ".toList" if lb[1] == "ExprList" else lb[0]
        self.bind_elems(lp, env2, var, lst, env.get("d:" + ast.unparse(it)), ekey, dkey)

    def bind_elems(self, lp, env2, var, lst, dbind, ekey, dkey):
        lp.streams[ekey] = (lst, "Expr")
        lp.streams[dkey] = (dbind[0] if dbind else None, "Expr")
        lp.names[var] = ekey
        lp.deriv_of[var] = dkey
        env2[var] = ((lp, ekey), "Stream")

    def fold_body(self, acc, stmts, env, ind) -> str:
        """loop body: temporaries, at most one nested accumulator, and one update `acc = f(acc, …)` (possibly guarded)"""
        stmts = [s for s in stmts if not self.skip(s)]
        env2 = dict(env)
        env2[acc] = ("acc", "Expr")
        i = 0
        while i < len(stmts):
            s = stmts[i]
            last = i == len(stmts) - 1
            tgt = val = None
            if isinstance(s, ast.Assign) and len(s.targets) == 1 and isinstance(s.targets[0], ast.Name):
                tgt, val = s.targets[0].id, s.value
            elif isinstance(s, ast.AnnAssign) and isinstance(s.target, ast.Name) and s.value is not None:
                tgt, val = s.target.id, s.value
            if tgt == acc:
                if not last:
                    raise TranslateError(f"statements after the accumulator update (line {s.lineno})")
                return self.ex(val, env2)
            if tgt is not None:
                u = ast.unparse(val)
                if u in ("Constant(0.0)", "Constant(0)") and i + 1 < len(stmts) and isinstance(stmts[i + 1], ast.For):
                    # nested accumulator; inside it the outer accumulator must not be touched
                    inner_env = dict(env2); inner_env.pop(acc, None)
                    env2[tgt] = ("(" + self.fold(tgt, self.ex(val, env2), stmts[i + 1], inner_env, ind + "    ") + ")", "Expr")
                    i += 2
                    continue
                try:
                    env2[tgt] = (self.ex(val, env2), "Expr")
                except TranslateError:
                    env2[tgt] = (self.rat(val, env2), "Rat")
                i += 1
                continue
            if isinstance(s, ast.If) and last and not s.orelse and len(s.body) == 1:
                upd = self.fold_body(acc, s.body, env2, ind)
                return f"if {self.cond(s.test, env2)} then {upd} else acc"
            raise TranslateError(f"unsupported statement in a loop body: {ast.unparse(s)[:60]!r} (line {s.lineno})")
        raise TranslateError("loop body without an accumulator update")


# registered class -> (rule name, ctor in CTORS order resolved at use)
def registered_rules(ad: ast.AST) -> dict[str, ast.FunctionDef]:
    reg = find_func(ad, "_register_vector_gradient_rules")
    out = {}
    for s in reg.body:
        if isinstance(s, ast.FunctionDef):
            for d in s.decorator_list:
                if isinstance(d, ast.Call) and ast.unparse(d.func) == "register_gradient" and len(d.args) == 1:
                    c = ast.unparse(d.args[0])
                    if c in out:
                        raise TranslateError(f"two gradient rules registered for {c}")
                    out[c] = s
        elif isinstance(s, (ast.ImportFrom, ast.Import)) or (isinstance(s, ast.Expr) and isinstance(s.value, ast.Constant)):
            continue
        else:
            raise TranslateError(f"_register_vector_gradient_rules: unexpected statement at line {s.lineno}")
    return out


LEAN_TY = {"Cst": "Cst", "Var": "Var", "Par": "Par", "BinOp": "BinOp", "UnOp": "UnOp", "Expr": "Expr", "RatList": "List Rat",
           "Vec": "Vec", "VVar": "VVar", "ExprList": "ExprList", "RatMat": "List (List Rat)", "Rat": "Rat", "VOp": "VOp",
           "MVar": "MVar"}


def gen_vec_grad_rules(ad: ast.AST) -> str:
    rules = registered_rules(ad)
    known = {c for c, _, _ in CTORS}
    for c in rules:
        if c not in known:
            raise TranslateError(f"gradient rule registered for a class unknown to the model: {c}")
    out, arms = [], []
    for cls, ctor, fields in CTORS:
        if cls not in rules:
            continue
        fn = rules[cls]
        if [a.arg for a in fn.args.args] != ["expr", "wrt"]:
            raise TranslateError(f"{fn.name}: unexpected signature")
        comp = RuleCompiler()
        env = {"expr": ("self", "Expr"), "wrt": ("wrt", "Var")}
        params, call = ["(wrt : Var)"], ["wrt"]
        dparams, dcall = [], []
        for attr, b, ty in fields:
            params.append(f"({b} : {LEAN_TY[ty]})")
            call.append(b)
            key = f"expr.{attr}"
            env[key] = (b, ty)
            if ty == "Vec":
                dparams.append(f"(d{b} : List Expr)"); dcall.append(f"(vecD recE {b})")
                env["d:" + key] = (f"d{b}", "ExprL")
            elif ty == "ExprList":
                dparams.append(f"(d{b} : List Expr)"); dcall.append(f"({b}.toList.map recE)")
                env[key + "._expressions"] = (b, "ExprList")
                env["d:" + key + "._expressions"] = (f"d{b}", "ExprL")
            elif ty == "VVar":
                env[key + "._variables"] = (f"{b}.vars", "VarL")
            elif ty == "MVar":
                pass
        name = f"{ctor}RuleG"
        body = comp.block(fn.body, env, "  ")
        out.append(f"/-- `{fn.name}` (registered for `{cls}`" + (f", operand kind `{ctor}`" if cls == "MatrixSum" else "") + ") -/")
        out.append(f"def {name} {' '.join(params + dparams)} (self : Expr) : Expr :=\n  {body}\n")
        binders = " ".join(b for _, b, _ in fields)
        arms.append((ctor, binders, f"{name} {' '.join(call + dcall)} (.{ctor} {binders})"))
    return "\n".join(out), arms


def _paren(t: str) -> str:
    t2 = t.lstrip()
    return f"({t})" if t2.startswith(("match ", "if ")) else t


_orig_block = RuleCompiler.block
def _block_paren(self, stmts, env, ind):
    return _paren(_orig_block(self, stmts, env, ind))
RuleCompiler.block = _block_paren


def gen_grad_step(ad: ast.AST) -> str:
    """the registered vector rules (whole bodies) and the dispatch of `gradient` / `_gradient_cached` as one
    non-recursive step functional `gradStepG wrt recE`"""
    rules_txt, arms = gen_vec_grad_rules(ad)
    fn = find_func(ad, "_gradient_cached")
    if [a.arg for a in fn.args.args] != ["expr", "wrt"]:
        raise TranslateError("_gradient_cached: unexpected signature")
    # import aliases inside the function (Variable as Var)
    alias = {}
    for s in fn.body:
        if isinstance(s, ast.ImportFrom):
            for a in s.names:
                alias[a.asname or a.name] = a.name
    body = [s for s in fn.body if not RuleCompiler.skip(s)]
    # first statement: registered rules take precedence
    if not (body and ast.unparse(body[0]) == "if has_gradient_rule(expr):\n    return apply_gradient_rule(expr, wrt)"):
        raise TranslateError("_gradient_cached: does not start with the registered-rule dispatch")
    g = find_func(ad, "gradient")
    gb = [s for s in g.body if not RuleCompiler.skip(s)]
    want = ["if has_gradient_rule(expr):\n    return apply_gradient_rule(expr, wrt)",
            "depth = _estimate_tree_depth(expr)",
            "if depth >= _RECURSION_THRESHOLD:\n    return _gradient_iterative(expr, wrt)",
            # the recursive differentiator, with the explicit-stack one as fall-back when CPython's stack overflows (both
            # compute the same expression: C15.gradIter_eq)
            "try:\n    return _gradient_cached(expr, wrt)\nexcept RecursionError:\n    return _gradient_iterative(expr, wrt)"]
    if [ast.unparse(s) for s in gb] != want:
        raise TranslateError("gradient(): the three-tier dispatch has changed shape")
    branches = {}
    for s in body[1:]:
        if isinstance(s, ast.If) and not s.orelse:
            cl = classes_of(s.test, "expr")
            if cl is None or len(cl) != 1:
                raise TranslateError(f"_gradient_cached: unexpected top-level test {ast.unparse(s.test)!r}")
            c = alias.get(cl[0], cl[0])
            if c in branches:
                raise TranslateError(f"_gradient_cached: two branches for {c}")
            if not always_returns(s.body):
                raise TranslateError(f"_gradient_cached: branch {c} may fall through")
            branches[c] = s.body
        elif isinstance(s, ast.Raise) and s is body[-1]:
            pass
        else:
            raise TranslateError(f"_gradient_cached: unsupported top-level statement at line {s.lineno}")
    reg = {c for c in registered_rules(ad)}
    extra = set(branches) - {"Constant", "Parameter", "Variable", "BinaryOp", "UnaryOp"}
    if extra:
        raise TranslateError(f"_gradient_cached: branches for classes outside the model: {sorted(extra)}")
    if reg & set(branches):
        raise TranslateError(f"classes with both a registered rule and a branch: {sorted(reg & set(branches))}")
    pro_bin = ["left = expr.left", "right = expr.right", "d_left = _gradient_cached(left, wrt)",
               "d_right = _gradient_cached(right, wrt)"]
    pro_un = ["operand = expr.operand", "d_operand = _gradient_cached(operand, wrt)"]
    out = [rules_txt, "",
           "/-- one step of `gradient(expr, wrt)`: registered rule if the class has one, else the branch of",
           "    `_gradient_cached`; `recE` stands for every recursive call (`gradient`, `_gradient_cached`) -/",
           "def gradStepG (wrt : Var) (recE : Expr → Expr) : Expr → Expr"]
    by_ctor = {a[0]: a for a in arms}
    for cls, ctor, fields in CTORS:
        binders = " ".join(b for _, b, _ in fields)
        if ctor in by_ctor:
            out.append(f"  | .{ctor} {binders} => {by_ctor[ctor][2]}")
            continue
        if cls not in branches:
            out.append(f"  | .{ctor} {binders} => unsupportedRule")
            continue
        stmts = [s for s in branches[cls] if not RuleCompiler.skip(s)]
        if cls == "BinaryOp":
            if [ast.unparse(s) for s in stmts[:4]] != pro_bin:
                raise TranslateError("_gradient_cached: BinaryOp prologue (children and their derivatives) has changed")
            out.append(f"  | .bin op l r => binaryRule op l r (recE l) (recE r) (.bin op l r)")
        elif cls == "UnaryOp":
            if [ast.unparse(s) for s in stmts[:2]] != pro_un:
                raise TranslateError("_gradient_cached: UnaryOp prologue has changed")
            out.append(f"  | .un op a => unaryRule op a (recE a) (.un op a)")
        else:
            comp = RuleCompiler()
            env = {"expr": ("self", "Expr"), "wrt": ("wrt", "Var")}
            if cls == "Variable":
                env["expr.name"] = ("x.name", "Str")
                env["wrt.name"] = ("wrt.name", "Str")
            out.append(f"  | .{ctor} {binders} => " + comp.block(stmts, env, "      "))
    return "\n".join(out) + "\n"


# ======================================================================================================
#  analysis.py: the three recursive extractors of the LP route, in the Except monad
#     _extract_constant_impl(expr)                                   : Except Err Rat
#     _extract_coefficient_impl(expr, var)                           : Except Err Rat
#     _extract_all_coefficients_impl(expr, var_index, result, mult)  : Except Err (List Rat)   (state = result)
# ======================================================================================================

class MCompiler:
    def __init__(self, mode: str, rec: dict[str, str]):
        self.mode = mode          # "value" | "walk"
        self.rec = rec            # python function name -> lean parameter name
        self.fresh = 0

    def new(self, b):
        self.fresh += 1
        return f"{b}{self.fresh}"

    # ---- Rat-valued expressions: returns (bindings, term) -------------------------------------------------
    def rat(self, node, env):
        key = ast.unparse(node)
        if key in env and env[key][1] == "Rat":
            return [], env[key][0]
        if isinstance(node, ast.Constant) and isinstance(node.value, (int, float)) and not isinstance(node.value, bool):
            return [], lean_rat(node.value)
        if isinstance(node, ast.UnaryOp) and isinstance(node.op, ast.USub):
            b, t = self.rat(node.operand, env)
            return b, f"(-{t})"
        if isinstance(node, ast.IfExp):
            b1, t1 = self.rat(node.body, env)
            b2, t2 = self.rat(node.orelse, env)
            if b1 or b2:
                raise TranslateError(f"effects inside a conditional expression (line {node.lineno})")
            return [], f"(if {self.cond(node.test, env)} then {t1} else {t2})"
        if isinstance(node, ast.Call) and isinstance(node.func, ast.Name):
            fn = node.func.id
            if fn == "float" and len(node.args) == 1:
                a = node.args[0]
                ak = ast.unparse(a)
                if ak in env and env[ak][1] == "Cst":
                    q = self.new("q")
                    return [f"let {q} ← cstRat {env[ak][0]}"], q
                if isinstance(a, ast.Call) and ast.unparse(a.func) == "len" and len(a.args) == 1:
                    lk = ast.unparse(a.args[0])
                    if lk in env and env[lk][1] == "VarL":
                        return [], f"(({env[lk][0]}.length : Nat) : Rat)"
                return self.rat(a, env)
            if fn in self.rec and self.rec[fn][1] == "value":
                arg = ast.unparse(node.args[0])
                if arg not in env or env[arg][1] != "Expr":
                    raise TranslateError(f"recursive call on something that is not a known sub-expression: {ast.unparse(node)!r}")
                if len(node.args) == 2 and ast.unparse(node.args[1]) != "var":
                    raise TranslateError(f"recursive call with a different variable: {ast.unparse(node)!r}")
                v = self.new("a")
                return [f"let {v} ← {self.rec[fn][0]} {env[arg][0]}"], v
        if isinstance(node, ast.BinOp):
            bl, tl = self.rat(node.left, env)
            if isinstance(node.op, ast.Pow):
                rk = ast.unparse(node.right)
                if rk in env and env[rk][1] == "Int":
                    v = self.new("p")
                    return bl + [f"let {v} ← ratPowInt {tl} {env[rk][0]}"], v
                raise TranslateError(f"power with an exponent that is not a known int (line {node.lineno})")
            br, tr = self.rat(node.right, env)
            if isinstance(node.op, ast.Div):
                v = self.new("d")
                return bl + br + [f"let {v} ← ratDiv {tl} {tr}"], v
            op = {ast.Add: "+", ast.Sub: "-", ast.Mult: "*"}.get(type(node.op))
            if op:
                return bl + br, f"({tl} {op} {tr})"
        raise TranslateError(f"unsupported numeric expression {ast.unparse(node)!r} at line {getattr(node, 'lineno', '?')}")

    def cond(self, node, env) -> str:
        if isinstance(node, ast.Compare) and len(node.ops) == 1 and isinstance(node.ops[0], ast.Eq):
            l, r = node.left, node.comparators[0]
            lk = ast.unparse(l)
            if lk in env and env[lk][1] in ("BinOp", "UnOp") and isinstance(r, ast.Constant):
                tag = BINOP_NAMES[r.value] if env[lk][1] == "BinOp" else r.value
                return f"({env[lk][0]} == .{tag})"
            if lk in env and env[lk][1] in ("Rat", "Int") and isinstance(r, ast.Constant) and isinstance(r.value, int):
                return f"({env[lk][0]} == {r.value})"
            if lk.endswith(".degree") and lk[:-7] in env and env[lk[:-7]][1] == "Expr" and isinstance(r, ast.Constant):
                return f"(degree {env[lk[:-7]][0]} == some {r.value})"
            if lk.endswith(".name") and ast.unparse(r) == "var.name" and lk[:-5] in env and env[lk[:-5]][1] == "Var":
                return f"({env[lk[:-5]][0]}.name == x)"
        raise TranslateError(f"unsupported condition {ast.unparse(node)!r} at line {getattr(node, 'lineno', '?')}")

    # ---- blocks ------------------------------------------------------------------------------------------
    def do(self, binds, last, ind):
        if not binds:
            return last
        nl = "\n" + ind + "  "
        return "do" + nl + nl.join(binds) + nl + last

    def block(self, stmts, env, ind, r="r") -> str:
        stmts = [s for s in stmts if not RuleCompiler.skip(s)]
        nl = "\n" + ind
        if not stmts:
            if self.mode == "walk":          # falling off the end of the walker = `return`
                return f"pure {r}"
            raise TranslateError("control reaches the end of the function body")
        s, rest = stmts[0], stmts[1:]
        if isinstance(s, ast.Return):
            if self.mode == "walk":
                if s.value is not None:
                    raise TranslateError(f"the walker returns a value (line {s.lineno})")
                return f"pure {r}"
            b, t = self.rat(s.value, env)
            return self.do(b, f"pure {t}", ind)
        if isinstance(s, ast.Assign) and len(s.targets) == 1 and isinstance(s.targets[0], ast.Name):
            name, val = s.targets[0].id, s.value
            u = ast.unparse(val)
            env2 = dict(env)
            # exp = int(expr.right.value)
            if isinstance(val, ast.Call) and ast.unparse(val.func) == "int" and len(val.args) == 1:
                ak = ast.unparse(val.args[0])
                if ak in env and env[ak][1] == "Cst":
                    env2[name] = (f"(cstInt {env[ak][0]})", "Int")
                    return self.block(rest, env2, ind, r)
            # idx = var_index.get(X.name); if idx is not None: result[idx] += Q
            if self.mode == "walk" and isinstance(val, ast.Call) and ast.unparse(val.func) == "var_index.get" and len(val.args) == 1:
                t, q = self.add_name(name, val.args[0], rest, env)
                if t is not None:
                    r2 = self.new("res")
                    b, qt = q
                    return self.do(b + [f"let {r2} := addName V {r} {t} {qt}"], self.block(rest[1:], env, ind + "  ", r2), ind)
            # total = 0.0; for i, elem in enumerate(ES): total += float(cs[i]) * rec(elem[, var]); return total
            if self.mode == "value" and u in ("0.0", "0") and len(rest) == 2 and isinstance(rest[0], ast.For) \
                    and isinstance(rest[1], ast.Return) and ast.unparse(rest[1].value) == name:
                f = rest[0]
                m = re.fullmatch(r"for i, elem in enumerate\((.+)\):\n    " + re.escape(name)
                                 + r" \+= float\((.+)\[i\]\) \* (\w+)\(elem(, var)?\)", ast.unparse(f))
                if m and m.group(1) in env and env[m.group(1)][1] == "ExprList" and m.group(2) in env \
                        and env[m.group(2)][1] == "RatList" and m.group(3) in self.rec and self.rec[m.group(3)][1] == "value":
                    return f"lcLoop {self.rec[m.group(3)][0]} {env[m.group(1)][0]}.toList {env[m.group(2)][0]} 0"
            raise TranslateError(f"unsupported assignment {name} = {u[:60]!r} at line {s.lineno}")
        if isinstance(s, ast.Expr) and isinstance(s.value, ast.Call) and self.mode == "walk":
            c = s.value
            fn = ast.unparse(c.func)
            if fn in self.rec and self.rec[fn][1] == "walk" and len(c.args) == 4 \
                    and ast.unparse(c.args[1]) == "var_index" and ast.unparse(c.args[2]) == "result":
                ak = ast.unparse(c.args[0])
                if ak not in env or env[ak][1] != "Expr":
                    raise TranslateError(f"recursive call on something that is not a known sub-expression (line {s.lineno})")
                b, mt = self.rat(c.args[3], env)
                r2 = self.new("res")
                return self.do(b + [f"let {r2} ← {self.rec[fn][0]} {env[ak][0]} {r} {mt}"], self.block(rest, env, ind + "  ", r2), ind) \
                    if rest else self.do(b, f"{self.rec[fn][0]} {env[ak][0]} {r} {mt}", ind)
        if isinstance(s, ast.For):
            return self.loop(s, rest, env, ind, r)
        if isinstance(s, ast.If):
            return self.if_(s, rest, env, ind, r)
        if isinstance(s, (ast.ImportFrom, ast.Import)):
            return self.block(rest, env, ind, r)
        raise TranslateError(f"unsupported statement {ast.unparse(s)[:70]!r} at line {s.lineno}")

    def add_name(self, idx, namearg, rest, env):
        """the two-statement idiom `idx = var_index.get(X.name)` / `if idx is not None: result[idx] += Q`"""
        nk = ast.unparse(namearg)
        if not nk.endswith(".name") or nk[:-5] not in env or env[nk[:-5]][1] != "Var":
            return None, None
        if not rest or not isinstance(rest[0], ast.If) or rest[0].orelse or ast.unparse(rest[0].test) != f"{idx} is not None":
            return None, None
        body = rest[0].body
        if not (len(body) == 1 and isinstance(body[0], ast.AugAssign) and isinstance(body[0].op, ast.Add)
                and ast.unparse(body[0].target) == f"result[{idx}]"):
            return None, None
        return f"{env[nk[:-5]][0]}.name", self.rat(body[0].value, env)

    def loop(self, f: ast.For, rest, env, ind, r):
        if f.orelse:
            raise TranslateError(f"for/else at line {f.lineno}")
        text = ast.unparse(f)
        it = f.iter
        idx = None
        if isinstance(it, ast.Call) and ast.unparse(it.func) == "enumerate" and isinstance(f.target, ast.Tuple):
            idx, var = f.target.elts[0].id, f.target.elts[1].id
            it = it.args[0]
        elif isinstance(f.target, ast.Name):
            var = f.target.id
        else:
            raise TranslateError(f"unsupported loop target at line {f.lineno}")
        ik = ast.unparse(it)
        if ik not in env:
            raise TranslateError(f"loop over something unknown: {ik!r} (line {f.lineno})")
        lst, lty = env[ik]
        body = [s for s in f.body if not RuleCompiler.skip(s)]
        if self.mode == "walk":
            if lty == "VarL" and len(body) == 2 and isinstance(body[0], ast.Assign):
                env2 = dict(env); env2[var] = ("§v", "Var")
                cs = None
                if idx is not None:      # result[idx] += float(coeffs[i]) * multiplier
                    for k, v in env.items():
                        if v[1] == "RatList":
                            env2[f"float({k}[{idx}])"] = ("§c", "Rat")
                            env2[f"{k}[{idx}]"] = ("§c", "Rat")
                            cs = v[0]
                t, q = self.add_name(body[0].targets[0].id, body[0].value.args[0] if isinstance(body[0].value, ast.Call) and body[0].value.args else body[0].value, body[1:], env2) \
                    if isinstance(body[0].value, ast.Call) and ast.unparse(body[0].value.func) == "var_index.get" else (None, None)
                if t == "§v.name" and not q[0]:
                    r2 = self.new("res")
                    if idx is None and "§" not in q[1]:
                        return self.do([f"let {r2} := walkVars V {lst} {r} {q[1]}"], self.block(rest, env, ind + "  ", r2), ind)
                    m = re.fullmatch(r"\(§c \* (.+)\)", q[1])
                    if idx is not None and cs is not None and m and "§" not in m.group(1):
                        return self.do([f"let {r2} ← walkLcVars V {lst} {cs} {r} {m.group(1)}"], self.block(rest, env, ind + "  ", r2), ind)
            if lty == "ExprList" and idx is not None and len(body) == 2:
                # coeff = float(cs[i]) * multiplier; rec(elem, var_index, result, coeff)
                for k, v in env.items():
                    if v[1] != "RatList":
                        continue
                    for fn, (par, kind) in self.rec.items():
                        if kind != "walk":
                            continue
                        m = re.fullmatch(r"coeff = float\(" + re.escape(k) + r"\[" + idx + r"\]\) \* (\w+)\n"
                                         + re.escape(fn) + r"\(" + var + r", var_index, result, coeff\)",
                                         "\n".join(ast.unparse(b) for b in body))
                        if m and m.group(1) in env and env[m.group(1)][1] == "Rat":
                            r2 = self.new("res")
                            return self.do([f"let {r2} ← walkLcLoop {par} {lst}.toList {v[0]} {r} {env[m.group(1)][0]}"],
                                           self.block(rest, env, ind + "  ", r2), ind)
            raise TranslateError(f"unsupported loop in the walker at line {f.lineno}: {text[:80]!r}")
        # value mode: first-match searches
        if lty == "VarL" and len(body) == 1 and isinstance(body[0], ast.If) and not body[0].orelse \
                and ast.unparse(body[0].test) == f"{var}.name == var.name" and len(body[0].body) == 1 \
                and isinstance(body[0].body[0], ast.Return):
            ret = body[0].body[0].value
            after = self.block(rest, env, ind + "  ", r)
            if idx is None:
                b, t = self.rat(ret, env)
                if b:
                    raise TranslateError(f"effects in a first-match result (line {f.lineno})")
                return f"if {lst}.any (·.name == x) then pure {t} else\n{ind}  {after}"
            m = re.fullmatch(r"float\((.+)\[" + idx + r"\]\)", ast.unparse(ret))
            if m and m.group(1) in env and env[m.group(1)][1] == "RatList" and after == f"pure {lean_rat(0)}":
                return f"coeffLcVars x {lst} {env[m.group(1)][0]}"
        raise TranslateError(f"unsupported loop at line {f.lineno}: {text[:80]!r}")

    def if_(self, s: ast.If, rest, env, ind, r):
        nl = "\n" + ind
        test = s.test
        cont_body = s.body if always_returns(s.body) else s.body + rest
        cont_else = (s.orelse if s.orelse and always_returns(s.orelse) else (s.orelse or []) + rest)
        if isinstance(test, ast.Call) and isinstance(test.func, ast.Name) and test.func.id in ("isinstance", "hasattr") and len(test.args) == 2:
            xk = ast.unparse(test.args[0])
            what = ast.unparse(test.args[1]).strip("'\"")
            if xk in env:
                t, ty = env[xk]
                if ty == "Expr" and what == "Constant":
                    c = self.new("c")
                    env2 = dict(env); env2[xk + ".value"] = (c, "Cst")
                    return (f"match {t} with{nl}| .const {c} =>{nl}  {self.block(cont_body, env2, ind + '  ', r)}"
                            f"{nl}| _ =>{nl}  {self.block(cont_else, env, ind + '  ', r)}")
                if ty == "Vec" and what in ("VectorVariable", "_variables", "_expressions"):
                    vv, es = self.new("vv"), self.new("es")
                    envv = dict(env); envv[xk + "._variables"] = (f"{vv}.vars", "VarL")
                    enve = dict(env); enve[xk + "._expressions"] = (es, "ExprList")
                    if what == "_expressions":
                        a = self.block(cont_body, enve, ind + "  ", r)
                        b = self.block(cont_else, envv, ind + "  ", r)
                        return f"match {t} with{nl}| .exprs {es} =>{nl}  {a}{nl}| .vars {vv} =>{nl}  {b}"
                    a = self.block(cont_body, envv, ind + "  ", r)
                    b = self.block(cont_else, enve, ind + "  ", r)
                    return f"match {t} with{nl}| .vars {vv} =>{nl}  {a}{nl}| .exprs {es} =>{nl}  {b}"
            raise TranslateError(f"unsupported type test {ast.unparse(test)!r} at line {s.lineno}")
        c = self.cond(test, env)
        return (f"if {c} then{nl}  {self.block(cont_body, env, ind + '  ', r)}{nl}else{nl}  "
                f"{self.block(cont_else, env, ind + '  ', r)}")


def _flatten_for_ctor(fn: ast.FunctionDef, cls: str) -> list[ast.stmt]:
    """the statements of fn that a node of class `cls` executes: bodies of the top-level
    `if isinstance(expr, C):` tests with cls in C are inlined (as `if True`), the other tests dropped"""
    out = []
    for s in fn.body:
        if RuleCompiler.skip(s):
            continue
        if isinstance(s, ast.If) and not s.orelse:
            cl = classes_of(s.test, "expr")
            if cl is not None:
                for c in cl:
                    if c not in {k for k, _, _ in CTORS} | NON_SCALAR:
                        raise TranslateError(f"{fn.name}: branch for a class unknown to the model: {c}")
                if cls in cl:
                    if always_returns(s.body):
                        return out + list(s.body)
                    out += list(s.body)
                continue
        out.append(s)
    return out


def gen_lp_steps(an: ast.AST) -> str:
    specs = [
        ("_extract_constant_impl", "constStepG", "value", ["expr"],
         "(recK : Expr → Except Err Rat)", "Except Err Rat", ""),
        ("_extract_coefficient_impl", "coeffStepG", "value", ["expr", "var"],
         "(x : String) (recK : Expr → Except Err Rat) (recC : Expr → Except Err Rat)", "Except Err Rat", ""),
        ("_extract_all_coefficients_impl", "walkStepG", "walk", ["expr", "var_index", "result", "multiplier"],
         "(V : List String) (recK : Expr → Except Err Rat) (recW : Expr → List Rat → Rat → Except Err (List Rat))",
         "List Rat → Rat → Except Err (List Rat)", " r m"),
    ]
    rec = {"_extract_constant_impl": ("recK", "value"), "_extract_coefficient_impl": ("recC", "value"),
           "_extract_all_coefficients_impl": ("recW", "walk")}
    out = []
    for pyname, lname, mode, sig, params, rty, extra in specs:
        fn = find_func(an, pyname)
        if [a.arg for a in fn.args.args] != sig:
            raise TranslateError(f"{pyname}: unexpected signature")
        out.append(f"/-- `{pyname}`, one step (recursive calls are calls of the parameters) -/")
        out.append(f"def {lname} {params} : Expr → {rty}")
        for cls, ctor, fields in CTORS:
            binders = " ".join(b for _, b, _ in fields)
            env = {"multiplier": ("mult", "Rat")} if mode == "walk" else {}
            for attr, b, ty in fields:
                if attr:
                    env[f"expr.{attr}"] = (b, ty)
                if ty == "VVar":
                    env[f"expr.{attr}._variables"] = (f"{b}.vars", "VarL")
            if ctor == "var":
                env["expr"] = ("x0", "Var")
                binders = "x0"
            comp = MCompiler(mode, rec)
            stmts = _flatten_for_ctor(fn, cls)
            body = comp.block(stmts, env, "      ", "res")
            pat = f"| .{ctor} {binders}" + (", res, mult" if mode == "walk" else "")
            out.append(f"  {pat} =>\n      {body}")
        out.append("")
    return "\n".join(out)


# ======================================================================================================
#  analysis.py: `_compute_degree_iterative` — one iteration of the `while stack:` loop as a Lean function
#     degIterStepG recE (f : Frame) (stk : List Frame) (rs : List Deg) : Except MachErr St
# ======================================================================================================

class StackCompiler:
    """body of `while stack: node, phase, left_deg, right_deg = stack.pop(); …` with `continue`s"""

    def __init__(self):
        self.fresh = 0

    def new(self, b):
        self.fresh += 1
        return f"{b}{self.fresh}"

    # Nat / Deg valued expressions -------------------------------------------------------------------------
    def nat(self, node, env):
        k = ast.unparse(node)
        if k in env and env[k][1] == "Nat":
            return env[k][0]
        if isinstance(node, ast.Constant) and isinstance(node.value, int) and not isinstance(node.value, bool) and node.value >= 0:
            return str(node.value)
        if isinstance(node, ast.Call) and isinstance(node.func, ast.Name):
            if node.func.id == "max" and len(node.args) == 2:
                return f"(max {self.nat(node.args[0], env)} {self.nat(node.args[1], env)})"
            if node.func.id == "int" and len(node.args) == 1:
                ak = ast.unparse(node.args[0])
                if ak in env and env[ak][1] == "NatOfFloat":
                    return env[ak][0]
        if isinstance(node, ast.BinOp) and isinstance(node.op, (ast.Add, ast.Mult)):
            return f"({self.nat(node.left, env)} {'+' if isinstance(node.op, ast.Add) else '*'} {self.nat(node.right, env)})"
        raise TranslateError(f"unsupported Nat expression {ast.unparse(node)!r} at line {getattr(node, 'lineno', '?')}")

    def deg(self, node, env):
        k = ast.unparse(node)
        if isinstance(node, ast.Constant) and node.value is None:
            return "none"
        if k in env and env[k][1] == "Deg":
            return env[k][0]
        if isinstance(node, ast.Call) and ast.unparse(node.func) == "_compute_degree_impl" and len(node.args) == 1 \
                and ast.unparse(node.args[0]) in env and env[ast.unparse(node.args[0])][1] == "Expr":
            return f"recE {env[ast.unparse(node.args[0])][0]}"
        return f"some ({self.nat(node, env)})"

    def cond(self, node, env):
        if isinstance(node, ast.BoolOp):
            return "(" + (" && " if isinstance(node.op, ast.And) else " || ").join(self.cond(v, env) for v in node.values) + ")"
        if isinstance(node, ast.Compare) and len(node.ops) == 1:
            l, r, o = node.left, node.comparators[0], node.ops[0]
            lk = ast.unparse(l)
            if lk in env and env[lk][1] in ("BinOp", "UnOp"):
                tag = (lambda c: "." + (BINOP_NAMES[c.value] if env[lk][1] == "BinOp" else c.value))
                if isinstance(o, ast.Eq):
                    return f"({env[lk][0]} == {tag(r)})"
                if isinstance(o, ast.In) and isinstance(r, ast.Tuple):
                    return "(" + " || ".join(f"{env[lk][0]} == {tag(e)}" for e in r.elts) + ")"
            if lk in env and env[lk][1] == "Phase" and isinstance(o, ast.Eq) and isinstance(r, ast.Constant):
                return f"({env[lk][0]} == {r.value})"
            sym = {ast.Gt: ">", ast.Lt: "<", ast.GtE: "≥", ast.LtE: "≤"}.get(type(o))
            if sym:
                return f"(decide ({self.nat(l, env)} {sym} {self.nat(r, env)}))"
        raise TranslateError(f"unsupported condition {ast.unparse(node)!r} at line {getattr(node, 'lineno', '?')}")

    # statement blocks -------------------------------------------------------------------------------------
    def block(self, stmts, env, ind, stk, rs):
        stmts = [s for s in stmts if not RuleCompiler.skip(s)]
        nl = "\n" + ind
        if not stmts or isinstance(stmts[0], ast.Continue):
            return f".ok ⟨{stk}, {rs}⟩"
        s, rest = stmts[0], stmts[1:]
        if isinstance(s, ast.Expr) and isinstance(s.value, ast.Call):
            fn, args = ast.unparse(s.value.func), s.value.args
            if fn == "result_stack.append" and len(args) == 1:
                a = args[0]
                if ast.unparse(a) == "result_stack.pop()":
                    x, rs2 = self.new("x"), self.new("rs")
                    return (f"match {rs} with{nl}| [] => .error .popEmpty{nl}| {x} :: {rs2} =>{nl}  "
                            + self.block(rest, env, ind + "  ", stk, f"({x} :: {rs2})"))
                return self.block(rest, env, ind, stk, f"({self.deg(a, env)} :: {rs})")
            if fn == "stack.append" and len(args) == 1 and isinstance(args[0], ast.Tuple) and len(args[0].elts) == 4:
                e, ph, ld, rd = args[0].elts
                ek = ast.unparse(e)
                if ek not in env or env[ek][1] != "Expr" or ast.unparse(rd) != "None" or not isinstance(ph, ast.Constant):
                    raise TranslateError(f"unsupported stack entry {ast.unparse(args[0])!r} (line {s.lineno})")
                ldt = "none" if ast.unparse(ld) == "None" else self.deg(ld, env)
                return self.block(rest, env, ind, f"(⟨{env[ek][0]}, {ph.value}, {ldt}⟩ :: {stk})", rs)
        if isinstance(s, ast.Assign) and len(s.targets) == 1 and isinstance(s.targets[0], ast.Name):
            name, val = s.targets[0].id, s.value
            u = ast.unparse(val)
            env2 = dict(env)
            if u == "result_stack.pop()":
                x, rs2 = self.new("x"), self.new("rs")
                env2[name] = (x, "Deg")
                return (f"match {rs} with{nl}| [] => .error .popEmpty{nl}| {x} :: {rs2} =>{nl}  "
                        + self.block(rest, env2, ind + "  ", stk, rs2))
            if u in env:
                env2[name] = env[u]
                return self.block(rest, env2, ind, stk, rs)
            if isinstance(val, ast.Call) and ast.unparse(val.func) == "float" and ast.unparse(val.args[0]) in env \
                    and env[ast.unparse(val.args[0])][1] == "Cst":
                env2[name] = env[ast.unparse(val.args[0])]
                return self.block(rest, env2, ind, stk, rs)
            raise TranslateError(f"unsupported assignment {name} = {u[:50]!r} (line {s.lineno})")
        if isinstance(s, ast.If):
            return self.if_(s, rest, env, ind, stk, rs)
        raise TranslateError(f"unsupported statement {ast.unparse(s)[:70]!r} at line {s.lineno}")

    @staticmethod
    def ends(stmts):
        stmts = [s for s in stmts if not RuleCompiler.skip(s)]
        if not stmts:
            return False
        s = stmts[-1]
        if isinstance(s, ast.Continue):
            return True
        if isinstance(s, ast.If) and s.orelse:
            return StackCompiler.ends(s.body) and StackCompiler.ends(s.orelse)
        return False

    def if_(self, s, rest, env, ind, stk, rs):
        nl = "\n" + ind
        body = s.body if self.ends(s.body) else s.body + rest
        orelse = (s.orelse if s.orelse and self.ends(s.orelse) else (s.orelse or []) + rest)
        test, neg = s.test, False
        if isinstance(test, ast.UnaryOp) and isinstance(test.op, ast.Not):
            test, neg = test.operand, True
        go = lambda st, e: self.block(st, e, ind + "  ", stk, rs)
        if isinstance(test, ast.Call) and ast.unparse(test.func) == "isinstance" and len(test.args) == 2:
            xk, what = ast.unparse(test.args[0]), ast.unparse(test.args[1])
            if xk in env and env[xk][1] == "Expr" and what == "Constant":
                c = self.new("c")
                env2 = dict(env); env2[xk + ".value"] = (c, "Cst")
                yes, no = (orelse, body) if neg else (body, orelse)
                return f"match {env[xk][0]} with{nl}| .const {c} =>{nl}  {go(yes, env2)}{nl}| _ =>{nl}  {go(no, env)}"
            if xk in env and env[xk][1] in ("Cst",) and what == "numbers.Number":
                return self.block(orelse if neg else body, env, ind, stk, rs)
            raise TranslateError(f"unsupported type test {ast.unparse(s.test)!r} at line {s.lineno}")
        # `not x.is_integer() or x < 0`
        if isinstance(s.test, ast.BoolOp) and isinstance(s.test.op, ast.Or) and len(s.test.values) == 2:
            a0, a1 = (ast.unparse(v) for v in s.test.values)
            if a0.startswith("not ") and a0.endswith(".is_integer()"):
                x = a0[4:-len(".is_integer()")]
                if a1 == f"{x} < 0" and x in env and env[x][1] == "Cst":
                    n = self.new("n")
                    env2 = dict(env); env2[x] = (n, "NatOfFloat")
                    return f"match cstNat {env[x][0]} with{nl}| none =>{nl}  {go(body, env)}{nl}| some {n} =>{nl}  {go(orelse, env2)}"
        # `a is None [or b is None]`
        parts = s.test.values if isinstance(s.test, ast.BoolOp) and isinstance(s.test.op, ast.Or) else [s.test]
        names = []
        for p in parts:
            if isinstance(p, ast.Compare) and len(p.ops) == 1 and isinstance(p.ops[0], ast.Is) and ast.unparse(p.comparators[0]) == "None" \
                    and ast.unparse(p.left) in env and env[ast.unparse(p.left)][1] == "Deg":
                names.append(ast.unparse(p.left))
        if names and len(names) == len(parts):
            none_branch = self.block(body, env, ind + "  " * len(names), stk, rs)
            env2 = dict(env)
            out, pad = "", ind
            for nm in names:
                v = self.new("d")
                out += f"match {env[nm][0]} with\n{pad}| none =>\n{pad}  {none_branch}\n{pad}| some {v} =>\n{pad}  "
                env2[nm] = (v, "Nat")
                pad += "  "
            return out + self.block(orelse, env2, pad, stk, rs)
        c = self.cond(test, env)
        if neg:
            c = f"(!{c})"
        return f"if {c} then{nl}  {go(body, env)}{nl}else{nl}  {go(orelse, env)}"


def gen_degree_iter_step(an: ast.AST) -> str:
    fn = find_func(an, "_compute_degree_iterative")
    body = [s for s in fn.body if not RuleCompiler.skip(s)]
    texts = [" ".join(ast.unparse(s).split()) for s in body]
    if len(body) != 4 or not isinstance(body[2], ast.While) or ast.unparse(body[2].test) != "stack" or body[2].orelse:
        raise TranslateError("_compute_degree_iterative: unexpected frame around the `while stack:` loop")
    frame = [texts[0], texts[1], texts[3]]
    loop = [s for s in body[2].body if not RuleCompiler.skip(s)]
    if ast.unparse(loop[0]) != "node, phase, left_deg, right_deg = stack.pop()":
        raise TranslateError("_compute_degree_iterative: the loop does not start by popping (node, phase, left_deg, right_deg)")
    loop = loop[1:]
    for n in ast.walk(body[2]):
        if isinstance(n, ast.Name) and n.id == "right_deg" and isinstance(n.ctx, ast.Load):
            raise TranslateError("_compute_degree_iterative: right_deg is read (the model does not represent it)")
    out = ["/-- the statements around the loop: initial stack, empty result stack, final read-out -/",
           "def degIterFrame : List String := [" + ", ".join(json.dumps(t) for t in frame) + "]", "",
           "/-- one iteration of `while stack:` of `_compute_degree_iterative`, after `stack.pop()` returned `f`;",
           "    `recE` stands for `_compute_degree_impl` (the delegate for node kinds other than BinaryOp / UnaryOp) -/",
           "def degIterStepG (recE : Expr → Deg) (f : Frame) (stk : List Frame) (rs : List Deg) : Except MachErr St :=",
           "  match f.node with"]
    classes = {k for k, _, _ in CTORS}
    for cls, ctor, fields in CTORS:
        binders = " ".join(b for _, b, _ in fields)
        env = {"node": ("f.node", "Expr"), "phase": ("f.phase", "Phase"), "left_deg": ("f.leftDeg", "Deg")}
        for attr, b, ty in fields:
            if attr:
                env[f"node.{attr}"] = (b, ty)
        stmts = []
        done = False
        for s in loop:
            if isinstance(s, ast.If) and not s.orelse:
                t, neg = s.test, False
                if isinstance(t, ast.UnaryOp) and isinstance(t.op, ast.Not):
                    t, neg = t.operand, True
                cl = classes_of(t, "node")
                if cl is not None:
                    for c in cl:
                        if c not in classes | NON_SCALAR:
                            raise TranslateError(f"_compute_degree_iterative: class unknown to the model: {c}")
                    if (cls in cl) != neg:
                        stmts += list(s.body)
                        if StackCompiler.ends(s.body):
                            done = True
                            break
                    continue
            stmts.append(s)
        comp = StackCompiler()
        out.append(f"  | .{ctor} {binders} =>\n      " + comp.block(stmts, env, "      ", "stk", "rs"))
    return "\n".join(out) + "\n"


# ======================================================================================================
#  `jacobian_row` methods of the vector / matrix nodes (vectors.py, matrices.py): Option (List Expr)
# ======================================================================================================

class RowCompiler:
    def __init__(self):
        self.fresh = 0

    def new(self, b):
        self.fresh += 1
        return f"{b}{self.fresh}"

    def rat(self, node, env):
        k = ast.unparse(node)
        if k in env and env[k][1] == "Rat":
            return env[k][0]
        if isinstance(node, ast.Constant) and isinstance(node.value, (int, float)) and not isinstance(node.value, bool):
            return lean_rat(node.value)
        if isinstance(node, ast.UnaryOp) and isinstance(node.op, ast.USub) and isinstance(node.operand, ast.Constant):
            return lean_rat(-node.operand.value)
        if isinstance(node, ast.Call) and ast.unparse(node.func) == "float" and len(node.args) == 1:
            return self.rat(node.args[0], env)
        if isinstance(node, ast.BinOp) and isinstance(node.op, (ast.Add, ast.Sub, ast.Mult)):
            op = {ast.Add: "+", ast.Sub: "-", ast.Mult: "*"}[type(node.op)]
            return f"({self.rat(node.left, env)} {op} {self.rat(node.right, env)})"
        # d.get(v, default) on a dict of numbers / counts
        if isinstance(node, ast.Call) and isinstance(node.func, ast.Attribute) and node.func.attr == "get" and len(node.args) == 2:
            dk = ast.unparse(node.func.value)
            vk = ast.unparse(node.args[0])
            if dk in env and vk in env and env[vk][1] == "Var":
                d, ty = env[dk]
                if ty == "Dict:Rat":
                    return f"((dictGet {env[vk][0]}.name {d}).getD {self.rat(node.args[1], env)})"
                if ty == "Count" and ast.unparse(node.args[1]) == "0":
                    return f"((countName {env[vk][0]}.name {d} : Nat) : Rat)"
        raise TranslateError(f"unsupported numeric expression {ast.unparse(node)!r} at line {getattr(node, 'lineno', '?')}")

    def ratlist(self, node, env):
        # Q_plus_QT[i, :]
        if isinstance(node, ast.Subscript) and isinstance(node.slice, ast.Tuple) and len(node.slice.elts) == 2:
            bk = ast.unparse(node.value)
            i, c = node.slice.elts
            if bk in env and env[bk][1] == "RatMat" and isinstance(c, ast.Slice) and c.lower is None and c.upper is None \
                    and ast.unparse(i) in env and env[ast.unparse(i)][1] == "Nat":
                return f"({env[bk][0]}.getD {env[ast.unparse(i)][0]} [])"
        k = ast.unparse(node)
        if k in env and env[k][1] == "RatList":
            return env[k][0]
        raise TranslateError(f"unsupported coefficient list {ast.unparse(node)!r} at line {getattr(node, 'lineno', '?')}")

    def ex(self, node, env):
        k = ast.unparse(node)
        if k in env:
            t, ty = env[k]
            if ty == "Expr":
                return t
            if ty == "Var":
                return f"(Expr.var {t})"
        if isinstance(node, ast.Call) and isinstance(node.func, ast.Name):
            fn, args = node.func.id, node.args
            if fn == "Constant" and len(args) == 1:
                return f"(Expr.c {self.rat(args[0], env)})"
            if fn == "UnaryOp" and len(args) == 2 and isinstance(args[1], ast.Constant):
                return f"(Expr.un .{args[1].value} {self.ex(args[0], env)})"
            if fn == "BinaryOp" and len(args) == 3 and isinstance(args[2], ast.Constant) and args[2].value in BINOP_NAMES:
                return f"(Expr.bin .{BINOP_NAMES[args[2].value]} {self.ex(args[0], env)} {self.ex(args[1], env)})"
            if fn == "LinearCombination" and len(args) == 2:
                vk = "vecterm:" + ast.unparse(args[1])
                if vk in env and env[vk][1] == "VecTerm":
                    return f"(Expr.linComb {self.ratlist(args[0], env)} {env[vk][0]})"
        # d.get(v, default) on a dict of expressions
        if isinstance(node, ast.Call) and isinstance(node.func, ast.Attribute) and node.func.attr == "get" and len(node.args) == 2:
            dk, vk = ast.unparse(node.func.value), ast.unparse(node.args[0])
            if dk in env and env[dk][1] == "Dict:Expr" and vk in env and env[vk][1] == "Var":
                return f"((dictGet {env[vk][0]}.name {env[dk][0]}).getD {self.ex(node.args[1], env)})"
        # d[var] (guarded by `var in d`)
        if isinstance(node, ast.Subscript):
            dk, vk = ast.unparse(node.value), ast.unparse(node.slice)
            if dk in env and env[dk][1] == "Dict:Var" and vk in env and env[vk][1] == "Var":
                return f"(Expr.var ((dictGet {env[vk][0]}.name {env[dk][0]}).getD {env[vk][0]}))"
        raise TranslateError(f"unsupported expression {ast.unparse(node)!r} at line {getattr(node, 'lineno', '?')}")

    def cond(self, node, env):
        if isinstance(node, ast.BoolOp):
            return "(" + (" && " if isinstance(node.op, ast.And) else " || ").join(self.cond(v, env) for v in node.values) + ")"
        if isinstance(node, ast.Compare) and len(node.ops) == 1:
            l, r, o = node.left, node.comparators[0], node.ops[0]
            lk, rk = ast.unparse(l), ast.unparse(r)
            if isinstance(o, ast.In) and lk in env and env[lk][1] == "Var" and rk in env:
                t, ty = env[rk]
                if ty == "VarSet":
                    return f"(hasName {env[lk][0]}.name {t})"
                if ty.startswith("Dict:"):
                    return f"((dictGet {env[lk][0]}.name {t}).isSome)"
            if isinstance(o, ast.Is) and lk in env and rk in env and env[lk][1] == env[rk][1] == "VVarObj":
                return f"({env[lk][0]}.oid == {env[rk][0]}.oid)"
            if isinstance(o, ast.Eq) and lk in env and env[lk][1] == "Rat" and isinstance(r, ast.Constant):
                return f"({env[lk][0]} == {lean_rat(r.value)})"
        raise TranslateError(f"unsupported condition {ast.unparse(node)!r} at line {getattr(node, 'lineno', '?')}")

    # entry of the result list produced by one pass of `for var in variables:` -----------------------------
    def entry(self, stmts, env, ind):
        stmts = [s for s in stmts if not RuleCompiler.skip(s)]
        nl = "\n" + ind
        if not stmts:
            raise TranslateError("a pass of the result loop appends nothing")
        s, rest = stmts[0], stmts[1:]
        if isinstance(s, ast.Expr) and isinstance(s.value, ast.Call) and ast.unparse(s.value.func) == "result.append" and not rest:
            return self.ex(s.value.args[0], env)
        if isinstance(s, ast.Assign) and len(s.targets) == 1 and isinstance(s.targets[0], ast.Name):
            name, val = s.targets[0].id, s.value
            env2 = dict(env)
            # i = var_to_idx[var]
            if isinstance(val, ast.Subscript):
                dk, vk = ast.unparse(val.value), ast.unparse(val.slice)
                if dk in env and env[dk][1] == "Dict:Nat" and vk in env and env[vk][1] == "Var":
                    env2[name] = (f"((dictGet {env[vk][0]}.name {env[dk][0]}).getD 0)", "Nat")
                    return self.entry(rest, env2, ind)
            for fn_, ty_ in ((self.ex, "Expr"), (self.ratlist, "RatList")):
                try:
                    env2[name] = (fn_(val, env), ty_)
                except TranslateError:
                    continue
                return self.entry(rest, env2, ind)
            raise TranslateError(f"unsupported assignment in the result loop: {ast.unparse(s)[:60]!r} (line {s.lineno})")
        if isinstance(s, ast.If) and not rest:
            # per-operator table of VectorUnarySum.jacobian_row is translated separately (unSumJacRow)
            if isinstance(s.test, ast.Compare) and ast.unparse(s.test.left) in env and env[ast.unparse(s.test.left)][1] == "VOp":
                return f"(unSumJacRow {env[ast.unparse(s.test.left)][0]} (Expr.var {env['var'][0]}))"
            if not s.orelse:
                raise TranslateError(f"`if` without else in the result loop (line {s.lineno})")
            return (f"(if {self.cond(s.test, env)} then{nl}  {self.entry(s.body, env, ind + '  ')}{nl}else{nl}  "
                    f"{self.entry(s.orelse, env, ind + '  ')})")
        raise TranslateError(f"unsupported statement in the result loop: {ast.unparse(s)[:60]!r} (line {s.lineno})")

    # method body ------------------------------------------------------------------------------------------
    def block(self, stmts, env, ind):
        stmts = [s for s in stmts if not RuleCompiler.skip(s)]
        nl = "\n" + ind
        if not stmts:
            raise TranslateError("control reaches the end of jacobian_row")
        s, rest = stmts[0], stmts[1:]
        if isinstance(s, ast.Return):
            v = s.value
            if v is None or ast.unparse(v) == "None":
                return "none"
            if ast.unparse(v) == "result" and "result" in env and env["result"][1] == "Row":
                return f"some ({env['result'][0]})"
            if isinstance(v, ast.ListComp) and len(v.generators) == 1 and ast.unparse(v.generators[0].iter) == "variables" \
                    and isinstance(v.generators[0].target, ast.Name) and not v.generators[0].ifs:
                x = self.new("x")
                env2 = dict(env); env2[v.generators[0].target.id] = (x, "Var")
                return f"some (V.map fun {x} => {self.ex(v.elt, env2)})"
            raise TranslateError(f"unsupported return {ast.unparse(s)[:60]!r} (line {s.lineno})")
        if isinstance(s, ast.If):
            test, neg = s.test, False
            if isinstance(test, ast.UnaryOp) and isinstance(test.op, ast.Not):
                test, neg = test.operand, True
            if neg and isinstance(test, ast.Call) and ast.unparse(test.func) == "isinstance" and not s.orelse \
                    and len(s.body) == 1 and isinstance(s.body[0], ast.Return) and ast.unparse(s.body[0].value) == "None":
                xk, what = ast.unparse(test.args[0]), ast.unparse(test.args[1])
                if xk in env and env[xk][1] == "Vec" and what == "VectorVariable":
                    vv = self.new("vv")
                    env2 = dict(env)
                    env2[xk] = (vv, "VVarObj")
                    env2[xk + "._variables"] = (f"{vv}.vars", "VarL")
                    env2["vecterm:" + xk] = (f"(.vars {vv})", "VecTerm")
                    return f"match {env[xk][0]} with{nl}| .exprs _ => none{nl}| .vars {vv} =>{nl}  {self.block(rest, env2, ind + '  ')}"
                if xk in env and what == "MatrixVariable":
                    if env[xk][1] == "MVar":
                        return self.block(rest, env, ind)
                    if env[xk][1] == "ExprList":
                        return "none"
            c = self.cond(s.test, env)
            if not s.orelse and always_returns(s.body):
                return f"if {c} then{nl}  {self.block(s.body, env, ind + '  ')}{nl}else{nl}  {self.block(rest, env, ind + '  ')}"
            raise TranslateError(f"unsupported `if` in jacobian_row (line {s.lineno})")
        tgt = val = None
        if isinstance(s, ast.Assign) and len(s.targets) == 1 and isinstance(s.targets[0], ast.Name):
            tgt, val = s.targets[0].id, s.value
        elif isinstance(s, ast.AnnAssign) and isinstance(s.target, ast.Name) and s.value is not None:
            tgt, val = s.target.id, s.value
        if tgt is not None:
            u = ast.unparse(val)
            env2 = dict(env)
            if u in env:
                env2[tgt] = env[u]
                if "vecterm:" + u in env:
                    env2["vecterm:" + tgt] = env["vecterm:" + u]
                return self.block(rest, env2, ind)
            m = re.fullmatch(r"set\((.+)\)", u)
            if m and m.group(1) in env and env[m.group(1)][1] == "VarL":
                env2[tgt] = (env[m.group(1)][0], "VarSet")
                return self.block(rest, env2, ind)
            if isinstance(val, ast.BinOp) and isinstance(val.op, ast.Add) and ast.unparse(val.right) == ast.unparse(val.left) + ".T" \
                    and ast.unparse(val.left) in env and env[ast.unparse(val.left)][1] == "RatMat":
                env2[tgt] = (f"(qsym {env[ast.unparse(val.left)][0]})", "RatMat")
                return self.block(rest, env2, ind)
            if isinstance(val, ast.DictComp) and len(val.generators) == 1 and not val.generators[0].ifs:
                g = val.generators[0]
                it, tg = ast.unparse(g.iter), ast.unparse(g.target)
                # {v: E(v) for v in L}
                if it in env and env[it][1] == "VarL" and isinstance(g.target, ast.Name) and ast.unparse(val.key) == tg:
                    x = self.new("v")
                    e2 = dict(env); e2[tg] = (x, "Var")
                    env2[tgt] = (f"({env[it][0]}.map fun {x} => ({x}, {self.ex(val.value, e2)}))", "Dict:Expr")
                    return self.block(rest, env2, ind)
                # {A[i]: B[i] for i in range(len(A))}
                m = re.fullmatch(r"range\(len\((\w+)\)\)", it)
                if m and tg == "i":
                    a = m.group(1)
                    mk, mv = re.fullmatch(r"(\w+)\[i\]", ast.unparse(val.key)), re.fullmatch(r"(\w+)\[i\]", ast.unparse(val.value))
                    if mk and mv and mk.group(1) == a and a in env and mv.group(1) in env \
                            and env[a][1] == env[mv.group(1)][1] == "VarL":
                        env2[tgt] = (f"({env[a][0]}.zip {env[mv.group(1)][0]})", "Dict:Var")
                        return self.block(rest, env2, ind)
                # {v: i for i, v in enumerate(L)}
                m = re.fullmatch(r"enumerate\((\w+)\)", it)
                if m and m.group(1) in env and env[m.group(1)][1] == "VarL" and tg == "(i, v)" \
                        and ast.unparse(val.key) == "v" and ast.unparse(val.value) == "i":
                    env2[tgt] = (f"{env[m.group(1)][0]}.zipIdx", "Dict:Nat")
                    return self.block(rest, env2, ind)
                raise TranslateError(f"unsupported dict comprehension {u[:70]!r} (line {s.lineno})")
            if u == "{}" and rest and isinstance(rest[0], ast.For):
                f = rest[0]
                ft = ast.unparse(f)
                # for i, var in enumerate(L): d[var] = float(cs[i])
                for lk, (lt, lty) in env.items():
                    if lty != "VarL":
                        continue
                    for ck, (ct, cty) in env.items():
                        if cty == "RatList" and ft == f"for i, var in enumerate({lk}):\n    {tgt}[var] = float({ck}[i])":
                            env2[tgt] = (f"({lt}.zip {ct})", "Dict:Rat")
                            return self.block(rest[1:], env2, ind)
                # for row in M._variables: for var in row: d[var] = d.get(var, 0) + 1
                for mk_, (mt, mty) in env.items():
                    if mty == "MVar" and ft == (f"for row in {mk_}._variables:\n    for var in row:\n"
                                                f"        {tgt}[var] = {tgt}.get(var, 0) + 1"):
                        env2[tgt] = (f"{mt}.flat", "Count")
                        return self.block(rest[1:], env2, ind)
                raise TranslateError(f"unsupported dict-building loop at line {f.lineno}")
            if u == "[]" and tgt == "result" and rest and isinstance(rest[0], ast.For):
                f = rest[0]
                if ast.unparse(f.iter) != "variables" or not isinstance(f.target, ast.Name) or f.orelse:
                    raise TranslateError(f"the result loop does not run over `variables` (line {f.lineno})")
                x = self.new("x")
                e2 = dict(env); e2[f.target.id] = (x, "Var")
                if f.target.id != "var":
                    e2["var"] = (x, "Var")
                env2["result"] = (f"V.map fun {x} =>{nl}  {self.entry(f.body, e2, ind + '  ')}", "Row")
                return self.block(rest[1:], env2, ind)
            raise TranslateError(f"unsupported assignment {tgt} = {u[:60]!r} (line {s.lineno})")
        raise TranslateError(f"unsupported statement {ast.unparse(s)[:70]!r} at line {s.lineno}")


def gen_jacrow_vec(vec: ast.AST, mat: ast.AST, ex: ast.AST) -> str:
    """the `jacobian_row` methods of every node class except BinaryOp (which is Generated/JacRow.lean), and the dispatch"""
    def cls_of(tree, name):
        return next((n for n in ast.walk(tree) if isinstance(n, ast.ClassDef) and n.name == name), None)
    base = cls_of(ex, "Expression")
    bj = next((n for n in base.body if isinstance(n, ast.FunctionDef) and n.name == "jacobian_row"), None)
    if bj is None or [ast.unparse(s) for s in bj.body if not RuleCompiler.skip(s)] != ["return None"]:
        raise TranslateError("Expression.jacobian_row: the default is no longer `return None`")
    out, arms = [], {}
    for cls, ctor, fields in CTORS:
        if cls in ("Constant", "Variable", "BinaryOp", "UnaryOp", "Parameter"):
            tree = ex if cls != "Parameter" else None
        else:
            tree = mat if cls in ("MatrixSum", "QuadraticForm", "FrobeniusNorm") else vec
        c = cls_of(tree, cls) if tree is not None else None
        if cls == "BinaryOp":
            continue
        fn = next((n for n in c.body if isinstance(n, ast.FunctionDef) and n.name == "jacobian_row"), None) if c is not None else None
        if c is not None and fn is None:
            bases = [ast.unparse(b) for b in c.bases]
            if bases != ["Expression"]:
                raise TranslateError(f"{cls}: unexpected base classes {bases}")
        if fn is None:
            continue
        if [a.arg for a in fn.args.args] != ["self", "variables"]:
            raise TranslateError(f"{cls}.jacobian_row: unexpected signature")
        comp = RowCompiler()
        env = {}
        params = ["(V : List Var)"]
        for attr, b, ty in fields:
            params.append(f"({b} : {LEAN_TY[ty]})")
            key = f"self.{attr}"
            if ty == "VVar":
                env[key] = (b, "VVarObj")
                env[key + "._variables"] = (f"{b}.vars", "VarL")
            elif ty in ("Vec", "MVar", "ExprList", "RatMat", "Rat", "VOp", "RatList"):
                env[key] = (b, ty)
        # `LinearCombination(coeffs, self.vector)` needs the vector as a term
        for attr, b, ty in fields:
            if ty == "Vec":
                env["vecterm:self." + attr] = (b, "VecTerm")
        body = comp.block(fn.body, _VecTermEnv(env), "  ")
        out.append(f"/-- `{cls}.jacobian_row`" + (f" (operand kind `{ctor}`)" if cls == "MatrixSum" else "") + " -/")
        out.append(f"def {ctor}RowG {' '.join(params)} : Option (List Expr) :=\n  {body}\n")
        arms[ctor] = f"{ctor}RowG V {' '.join(b for _, b, _ in fields)}"
    out.append("/-- `expr.jacobian_row(variables)`: the method of the node's class (`recRow` stands for the calls on the operands")
    out.append("    of a BinaryOp, whose method is `Generated.binJacRow`); classes without a method inherit `return None` -/")
    out.append("def jacRowStepG (V : List Var) (recRow : Expr → Option (List Expr)) : Expr → Option (List Expr)")
    for cls, ctor, fields in CTORS:
        binders = " ".join(b for _, b, _ in fields)
        if ctor == "bin":
            out.append("  | .bin op l r => binJacRow op l r (recRow l) (recRow r)")
        elif ctor in arms:
            out.append(f"  | .{ctor} {binders} => {arms[ctor]}")
        else:
            out.append(f"  | .{ctor} {binders} => none")
    return "\n".join(out) + "\n"


class _VecTermEnv(dict):
    """`self.vector` used as an *expression operand* (LinearCombination(coeffs, self.vector)) resolves to the Vec term"""
    def __contains__(self, k):
        return dict.__contains__(self, k)
