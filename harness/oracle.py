"""Independent reference semantics used as property oracle (never the Lean model, never
optyx's own evaluate/gradient): a small interpreter over optyx expression *objects* in
plain Python floats and in forward-mode dual numbers (first and nested second order).

`NotRegular` is raised at points that are not regular for the expression (a denominator,
log/sqrt argument, ... within `MARGIN` of its singular set): properties C02/C03/C17 only
speak about regular points, so such points are skipped (and counted) by the callers.
"""
from __future__ import annotations

import math

import numpy as np

MARGIN = 1e-3


class NotRegular(Exception):
    pass


class Dual:
    """a + b·ε over a base field that may itself be Dual (nested for second derivatives)"""
    __slots__ = ("v", "d")

    def __init__(self, v, d=0.0):
        self.v, self.d = v, d

    @staticmethod
    def lift(x):
        return x if isinstance(x, Dual) else Dual(x, 0.0)

    def __add__(s, o): o = Dual.lift(o); return Dual(s.v + o.v, s.d + o.d)
    __radd__ = __add__
    def __sub__(s, o): o = Dual.lift(o); return Dual(s.v - o.v, s.d - o.d)
    def __rsub__(s, o): return Dual.lift(o) - s
    def __mul__(s, o): o = Dual.lift(o); return Dual(s.v * o.v, s.v * o.d + s.d * o.v)
    __rmul__ = __mul__
    def __truediv__(s, o):
        o = Dual.lift(o)
        return Dual(s.v / o.v, (s.d * o.v - s.v * o.d) / (o.v * o.v))
    def __rtruediv__(s, o): return Dual.lift(o) / s
    def __neg__(s): return Dual(-s.v, -s.d)


def prim(x):
    """innermost real value"""
    while isinstance(x, Dual):
        x = x.v
    return x


def _chain(x, f, df):
    """f(x) for x possibly Dual; df maps a (possibly Dual) value to f'(value)"""
    if isinstance(x, Dual):
        return Dual(_chain(x.v, f, df), df(x.v) * x.d)
    return f(x)


def d_sin(x): return _chain(x, math.sin, d_cos)
def d_cos(x): return _chain(x, math.cos, lambda v: -d_sin(v))
def d_exp(x): return _chain(x, math.exp, d_exp)
def d_log(x):
    if prim(x) <= MARGIN: raise NotRegular("log")
    return _chain(x, math.log, lambda v: 1.0 / v)
def d_sqrt(x):
    if prim(x) <= MARGIN: raise NotRegular("sqrt")
    return _chain(x, math.sqrt, lambda v: 0.5 / d_sqrt(v))
def d_abs(x):
    if abs(prim(x)) <= MARGIN: raise NotRegular("abs")
    sgn = 1.0 if prim(x) > 0 else -1.0
    return x * sgn
def d_tan(x):
    if abs(math.cos(prim(x))) <= MARGIN: raise NotRegular("tan")
    return d_sin(x) / d_cos(x)
def d_sinh(x): return _chain(x, math.sinh, d_cosh)
def d_cosh(x): return _chain(x, math.cosh, d_sinh)
def d_tanh(x): return d_sinh(x) / d_cosh(x)
def d_asin(x):
    if abs(prim(x)) >= 1 - MARGIN: raise NotRegular("asin")
    return _chain(x, math.asin, lambda v: 1.0 / d_sqrt(1.0 - v * v))
def d_acos(x):
    if abs(prim(x)) >= 1 - MARGIN: raise NotRegular("acos")
    return _chain(x, math.acos, lambda v: -1.0 / d_sqrt(1.0 - v * v))
def d_atan(x): return _chain(x, math.atan, lambda v: 1.0 / (1.0 + v * v))
def d_asinh(x): return _chain(x, math.asinh, lambda v: 1.0 / d_sqrt(1.0 + v * v))
def d_acosh(x):
    if prim(x) <= 1 + MARGIN: raise NotRegular("acosh")
    return _chain(x, math.acosh, lambda v: 1.0 / d_sqrt(v * v - 1.0))
def d_atanh(x):
    if abs(prim(x)) >= 1 - MARGIN: raise NotRegular("atanh")
    return _chain(x, math.atanh, lambda v: 1.0 / (1.0 - v * v))
def d_log2(x): return d_log(x) / math.log(2.0)
def d_log10(x): return d_log(x) / math.log(10.0)

UN = {"neg": lambda x: -x, "abs": d_abs, "sin": d_sin, "cos": d_cos, "tan": d_tan, "exp": d_exp,
      "log": d_log, "log2": d_log2, "log10": d_log10, "sqrt": d_sqrt, "tanh": d_tanh, "sinh": d_sinh,
      "cosh": d_cosh, "asin": d_asin, "acos": d_acos, "atan": d_atan, "asinh": d_asinh,
      "acosh": d_acosh, "atanh": d_atanh}


def d_pow(a, b):
    """a ** b with NumPy's real-power domain; regular points only"""
    pb = prim(b)
    b_const = not isinstance(b, Dual) or _is_const(b)
    if b_const and float(pb).is_integer() and abs(pb) <= 64:
        n = int(pb)
        if n == 0:
            return a * 0.0 + 1.0
        if n < 0:
            if abs(prim(a)) <= MARGIN: raise NotRegular("negative power at 0")
            return 1.0 / d_pow(a, float(-n))
        r = a
        for _ in range(n - 1):
            r = r * a
        return r
    if prim(a) <= MARGIN:
        raise NotRegular("non-integer / variable exponent with base <= 0")
    return d_exp(b * d_log(a))


def _is_const(x):
    while isinstance(x, Dual):
        if _nz(x.d): return False
        x = x.v
    return True


def _nz(x):
    while isinstance(x, Dual):
        if _nz(x.d): return True
        x = x.v
    return x != 0.0


def ref_eval(e, values: dict, memo=None):
    """reference value of optyx expression object `e`; values: name -> float | Dual.
    Iterative over BinaryOp/UnaryOp spines (deep chains), recursive elsewhere."""
    from optyx.core.expressions import BinaryOp, Constant, UnaryOp, Variable
    from optyx.core.parameters import Parameter
    from optyx.core import vectors as V
    from optyx.core import matrices as M

    def vec_vals(v):
        if isinstance(v, V.VectorVariable):
            return [values[x.name] for x in v._variables]
        return [ref_eval(x, values) for x in v._expressions]

    def leafish(n):
        if isinstance(n, Constant):
            val = n.value
            if isinstance(val, np.ndarray):
                if val.ndim != 0:
                    raise NotRegular("array constant")
                val = val.item()
            return float(val)
        if isinstance(n, Variable):
            return values[n.name]
        if isinstance(n, Parameter):
            return float(n.value)
        if isinstance(n, V.LinearCombination):
            xs = vec_vals(n.vector)
            return sum((float(c) * x for c, x in zip(n.coefficients, xs)), 0.0)
        if isinstance(n, V.VectorSum):
            return sum((values[x.name] for x in n.vector._variables), 0.0)
        if isinstance(n, V.VectorExpressionSum):
            return sum((ref_eval(x, values) for x in n.expression._expressions), 0.0)
        if isinstance(n, V.DotProduct):
            return sum((a * b for a, b in zip(vec_vals(n.left), vec_vals(n.right))), 0.0)
        if isinstance(n, V.L2Norm):
            xs = vec_vals(n.vector)
            return d_sqrt(sum((a * a for a in xs), 0.0))
        if isinstance(n, V.L1Norm):
            return sum((d_abs(a) for a in vec_vals(n.vector)), 0.0)
        if isinstance(n, M.QuadraticForm):
            xs = vec_vals(n.vector)
            Q = np.asarray(n.matrix)
            tot = 0.0
            for i, xi in enumerate(xs):
                for j, xj in enumerate(xs):
                    if Q[i, j] != 0:
                        tot = tot + float(Q[i, j]) * xi * xj
            return tot
        if isinstance(n, V.VectorPowerSum):
            return sum((d_pow(values[x.name], float(n.power)) for x in n.vector._variables), 0.0)
        if isinstance(n, V.VectorUnarySum):
            return sum((UN[n.op](values[x.name]) for x in n.vector._variables), 0.0)
        if isinstance(n, M.MatrixSum):
            if isinstance(n.matrix, M.MatrixVariable):
                return sum((values[x.name] for row in n.matrix._variables for x in row), 0.0)
            return sum((ref_eval(x, values) for row in n.matrix._expressions for x in row), 0.0)
        if isinstance(n, M.FrobeniusNorm):
            xs = [values[x.name] for row in n.matrix._variables for x in row]
            return d_sqrt(sum((a * a for a in xs), 0.0))
        raise NotRegular(f"unsupported node {type(n).__name__}")

    # post-order over the Binary/Unary skeleton
    out = []
    stack = [(e, 0)]
    while stack:
        n, ph = stack.pop()
        if isinstance(n, BinaryOp):
            if ph == 0:
                stack.append((n, 1)); stack.append((n.right, 0)); stack.append((n.left, 0))
            else:
                r = out.pop(); l = out.pop()
                if n.op == "+": out.append(l + r)
                elif n.op == "-": out.append(l - r)
                elif n.op == "*": out.append(l * r)
                elif n.op == "/":
                    if abs(prim(r)) <= MARGIN: raise NotRegular("division")
                    out.append(l / r)
                elif n.op == "**": out.append(d_pow(l, r))
                else: raise NotRegular("operator " + n.op)
        elif isinstance(n, UnaryOp):
            if ph == 0:
                stack.append((n, 1)); stack.append((n.operand, 0))
            else:
                out.append(UN[n.op](out.pop()))
        else:
            out.append(leafish(n))
    res = out[-1]
    if not math.isfinite(prim(res)):
        raise NotRegular("non-finite value")
    return res


def ref_grad(e, point: dict, wrt: str) -> float:
    vals = {k: (Dual(v, 1.0) if k == wrt else v) for k, v in point.items()}
    r = ref_eval(e, vals)
    return prim(r.d) if isinstance(r, Dual) else 0.0


def ref_hess(e, point: dict, wi: str, wj: str) -> float:
    """d²e / dwi dwj by nested duals: every variable is an outer dual (ε2) over an inner
    dual (ε1), so the two perturbation levels can never be confused"""
    vals = {}
    for k, v in point.items():
        inner = Dual(v, 1.0 if k == wi else 0.0)
        vals[k] = Dual(inner, Dual(1.0 if k == wj else 0.0, 0.0))
    r = ref_eval(e, vals)
    if not isinstance(r, Dual):
        return 0.0
    d = r.d  # coefficient of ε2: an inner dual whose ε1 part is the mixed second derivative
    return float(d.d) if isinstance(d, Dual) else 0.0


def close(a: float, b: float, rtol=1e-6, atol=1e-8) -> bool:
    if math.isnan(a) or math.isnan(b):
        return False
    return abs(a - b) <= atol + rtol * max(abs(a), abs(b))
