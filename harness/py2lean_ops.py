"""py2lean_ops — the operator overloads of `Expression` (core/expressions.py) as a table: which node each builds, with which
operator, and whether `self` is the left operand (`Generated/Operators.lean`).  Each method body must be exactly one
`return BinaryOp(<a>, <b>, "<op>")` with {a, b} = {self, _ensure_expr(other)}, `return UnaryOp(self, "<op>")`, `return self`, or
(comparisons) `return _make_constraint(self, "<sense>", other)`; anything else — a rewrite at construction time, a folded
constant, a swapped operand — is a translation error.  `Props/OperatorsTie.lean` states what the table must be."""
from __future__ import annotations

import ast
import json


class TranslateError(Exception):
    pass


def _u(n):
    return ast.unparse(n)


ARITH = ["__add__", "__radd__", "__sub__", "__rsub__", "__mul__", "__rmul__", "__truediv__", "__rtruediv__", "__pow__", "__rpow__",
         "__neg__", "__pos__"]
COMPARE = ["__le__", "__ge__", "eq"]


def _body(fn):
    return [s for s in fn.body if not (isinstance(s, ast.Expr) and isinstance(s.value, ast.Constant))
            and not isinstance(s, (ast.Import, ast.ImportFrom))]


def gen_operators(ex: ast.AST) -> str:
    cls = next((n for n in ast.walk(ex) if isinstance(n, ast.ClassDef) and n.name == "Expression"), None)
    if cls is None:
        raise TranslateError("class Expression not found")
    meth = {n.name: n for n in cls.body if isinstance(n, ast.FunctionDef)}
    rows = []
    for nm in ARITH:
        if nm not in meth:
            raise TranslateError(f"Expression.{nm} not found")
        b = _body(meth[nm])
        if len(b) != 1 or not isinstance(b[0], ast.Return):
            raise TranslateError(f"Expression.{nm}: body is not a single return: {[_u(x)[:60] for x in b]}")
        v = b[0].value
        if _u(v) == "self":
            rows.append((nm, "self", "", True))
            continue
        if not (isinstance(v, ast.Call) and isinstance(v.func, ast.Name) and not v.keywords):
            raise TranslateError(f"Expression.{nm}: {_u(v)[:80]!r}")
        if v.func.id == "BinaryOp" and len(v.args) == 3 and isinstance(v.args[2], ast.Constant):
            a, c = _u(v.args[0]), _u(v.args[1])
            other = [x.arg for x in meth[nm].args.args if x.arg != "self"]
            wrapped = f"_ensure_expr({other[0]})" if other else None
            if (a, c) == ("self", wrapped):
                rows.append((nm, "BinaryOp", v.args[2].value, True))
            elif (a, c) == (wrapped, "self"):
                rows.append((nm, "BinaryOp", v.args[2].value, False))
            else:
                raise TranslateError(f"Expression.{nm}: operands {a!r}, {c!r}")
        elif v.func.id == "UnaryOp" and len(v.args) == 2 and _u(v.args[0]) == "self" and isinstance(v.args[1], ast.Constant):
            rows.append((nm, "UnaryOp", v.args[1].value, True))
        else:
            raise TranslateError(f"Expression.{nm}: {_u(v)[:80]!r}")
    cmps = []
    for nm in COMPARE:
        if nm not in meth:
            raise TranslateError(f"Expression.{nm} not found")
        b = _body(meth[nm])
        other = [x.arg for x in meth[nm].args.args if x.arg != "self"]
        if len(b) != 1 or not isinstance(b[0], ast.Return) or not isinstance(b[0].value, ast.Call) \
                or _u(b[0].value.func) != "_make_constraint" or len(b[0].value.args) != 3 \
                or _u(b[0].value.args[0]) != "self" or _u(b[0].value.args[2]) != other[0] \
                or not isinstance(b[0].value.args[1], ast.Constant):
            raise TranslateError(f"Expression.{nm}: {[_u(x)[:80] for x in b]}")
        cmps.append((nm, b[0].value.args[1].value))
    # _ensure_expr: numbers become Constant, expressions pass through
    ee = next((n for n in ast.walk(ex) if isinstance(n, ast.FunctionDef) and n.name == "_ensure_expr"), None)
    if ee is None:
        raise TranslateError("_ensure_expr not found")
    ee_text = "; ".join(" ".join(_u(s).split()) for s in _body(ee))
    out = ["structure OpRowG where", "  method : String", "  node : String", "  op : String", "  selfLeft : Bool",
           "  deriving DecidableEq, Repr",
           "/-- the arithmetic operator overloads of `Expression` -/",
           "def exprOperatorsG : List OpRowG := ["
           + ", ".join(f"⟨{json.dumps(m)}, {json.dumps(n)}, {json.dumps(o)}, {'true' if s else 'false'}⟩" for m, n, o, s in rows) + "]",
           "/-- the comparison methods: all go through `_make_constraint(self, sense, other)` -/",
           "def exprComparisonsG : List (String × String) := [" + ", ".join(f"({json.dumps(m)}, {json.dumps(s)})" for m, s in cmps) + "]",
           "/-- `_ensure_expr` -/",
           "def ensureExprTextG : String := " + json.dumps(ee_text)]
    return "\n".join(out) + "\n"


if __name__ == "__main__":
    import sys
    print(gen_operators(ast.parse(open(sys.argv[1]).read())))
