"""py2lean_dispatch — *which closure is returned under which condition*: the dispatch skeletons of `compile_gradient`,
`_compile_vectorized_power_gradient`, `_compile_vectorized_unary_gradient` (core/compiler.py), `compile_jacobian` and
`compile_hessian` (core/autodiff.py), translated into decision functions that return the NAME of the nested function the source
returns (`Generated/ClosurePaths.lean`).  Conditions are mapped through a table of atoms (class of the expression, `k == 1`,
`is_full`, the operator name, `m == 1`, "all entries constant", "scaled-variable pattern"); locals used as conditions are resolved
through their defining assignment; every other statement is skipped only if it is an assignment, a nested `def`, an import or a
docstring.  `Props/ClosurePathTie.lean` proves that the closure the model selects has that name.
"""
from __future__ import annotations

import ast
import json


class TranslateError(Exception):
    pass


def _u(n):
    return ast.unparse(n)


ATOMS = {
    "isinstance(expr, VectorPowerSum)": '(kind == "powSum")',
    "isinstance(expr, VectorUnarySum)": '(kind == "unSum")',
    "k == 1": "(k == 1)",
    "k == 2": "(k == 2)",
    "len(indices) == n and np.array_equal(indices, np.arange(n))": "isFull",
    "m == 1": "(m == 1)",
    "all((isinstance(jacobian_exprs[i][j], Constant) for i in range(m) for j in range(n)))": "allConstant",
    "_is_scaled_variable_pattern(jacobian_exprs[0], variables) is not None": "scaled",
}


def find_func(tree, name):
    for n in ast.walk(tree):
        if isinstance(n, ast.FunctionDef) and n.name == name:
            return n
    raise TranslateError(f"{name} not found")


class Disp:
    def __init__(self, fn: ast.FunctionDef):
        self.fn = fn
        self.where = fn.name
        self.defs: dict[str, str] = {}
        self.locals: dict[str, str] = {}

    def fail(self, node, why):
        raise TranslateError(f"{self.where}: {why}: {_u(node)[:100]!r} (line {getattr(node, 'lineno', '?')})")

    def atom(self, t) -> str:
        u = _u(t)
        if u in ATOMS:
            return ATOMS[u]
        if isinstance(t, ast.Name) and t.id in self.locals and self.locals[t.id] in ATOMS:
            return ATOMS[self.locals[t.id]]
        if isinstance(t, ast.Compare) and len(t.ops) == 1 and isinstance(t.ops[0], ast.IsNot) and _u(t.comparators[0]) == "None" \
                and isinstance(t.left, ast.Name) and t.left.id in self.locals:
            k = self.locals[t.left.id] + " is not None"
            if k in ATOMS:
                return ATOMS[k]
        if isinstance(t, ast.Compare) and len(t.ops) == 1 and isinstance(t.ops[0], ast.Eq) and _u(t.left) == "op" \
                and isinstance(t.comparators[0], ast.Constant) and isinstance(t.comparators[0].value, str):
            return f"(op == {json.dumps(t.comparators[0].value)})"
        if isinstance(t, ast.UnaryOp) and isinstance(t.op, ast.Not):
            return f"(!{self.atom(t.operand)})"
        if isinstance(t, ast.BoolOp):
            return "(" + (" && " if isinstance(t.op, ast.And) else " || ").join(self.atom(v) for v in t.values) + ")"
        self.fail(t, "condition outside the atom table")

    def term(self, stmts, k=None) -> str | None:
        """Lean String term for the name of the returned closure; `k` = the term of what follows this statement list
        (None: nothing follows)"""
        stmts = list(stmts)
        if not stmts:
            return k
        st, rest = stmts[0], stmts[1:]
        if isinstance(st, ast.Expr) and isinstance(st.value, ast.Constant):
            return self.term(rest, k)
        if isinstance(st, (ast.Import, ast.ImportFrom)):
            return self.term(rest, k)
        if isinstance(st, ast.FunctionDef):
            body = [s for s in st.body if not (isinstance(s, ast.Expr) and isinstance(s.value, ast.Constant))]
            self.defs[st.name] = "; ".join(" ".join(_u(s).split()) for s in body)
            return self.term(rest, k)
        if isinstance(st, (ast.Assign, ast.AnnAssign)):
            tg = st.targets[0] if isinstance(st, ast.Assign) else st.target
            if isinstance(tg, ast.Name) and st.value is not None:
                self.locals[tg.id] = _u(st.value)
            return self.term(rest, k)
        if isinstance(st, ast.For):
            if any(isinstance(n, ast.Return) for n in ast.walk(st)):
                self.fail(st, "return inside a loop")
            return self.term(rest, k)
        if isinstance(st, ast.Return):
            v = st.value
            if isinstance(v, ast.Name) and v.id in self.defs:
                return json.dumps(v.id)
            if isinstance(v, ast.Call) and isinstance(v.func, ast.Name) and v.func.id.startswith("_compile_vectorized_"):
                return json.dumps("->" + v.func.id)
            self.fail(st, "return of something that is not a nested function")
        if isinstance(st, ast.If):
            c = self.atom(st.test)
            saved = dict(self.locals)
            sdefs = dict(self.defs)
            r = self.term(rest, k)
            self.locals = dict(saved)
            a = self.term(st.body, r)
            self.locals = dict(saved)
            b = self.term(st.orelse, r) if st.orelse else r
            self.locals = dict(saved)
            if a is None or b is None:
                self.fail(st, "a branch neither returns nor is followed by a return")
            return a if a == b else f"(if {c} then {a} else {b})"
        self.fail(st, "unsupported statement")


def gen_closure_paths(cmp_: ast.AST, ad: ast.AST) -> str:
    out = []
    sig = "(kind : String) (k : Rat) (op : String) (isFull : Bool) (m : Nat) (allConstant scaled : Bool) : String"
    bodies = []
    for tree, name, lean in ((cmp_, "compile_gradient", "compileGradientPathG"),
                             (cmp_, "_compile_vectorized_power_gradient", "powerGradientPathG"),
                             (cmp_, "_compile_vectorized_unary_gradient", "unaryGradientPathG"),
                             (ad, "compile_jacobian", "compileJacobianPathG"),
                             (ad, "compile_hessian", "compileHessianPathG")):
        d = Disp(find_func(tree, name))
        t = d.term(d.fn.body)
        if t is None:
            raise TranslateError(f"{name}: no return")
        out += [f"/-- the nested function `{name}` returns (`->f` = the result of calling `f`) -/",
                f"def {lean} {sig} :=", "  " + t]
        bodies += [(name + "." + k, v) for k, v in d.defs.items()]
    out += ["/-- the bodies of the nested functions, as text -/",
            "def closureBodiesG : List (String × String) := [" + ", ".join(f"({json.dumps(a)}, {json.dumps(b)})" for a, b in bodies) + "]"]
    return "\n".join(out) + "\n"


if __name__ == "__main__":
    import sys
    print(gen_closure_paths(ast.parse(open(sys.argv[1] + "/core/compiler.py").read()),
                            ast.parse(open(sys.argv[1] + "/core/autodiff.py").read())))
