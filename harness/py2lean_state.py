"""py2lean_state — the editing methods of `Problem` (problem.py) as *effect scripts*, and `_is_linear_problem` as a function.

`Problem.__init__`, `_invalidate_caches`, `minimize`, `maximize`, `subject_to` are sequences of writes to the eight
fields of a Problem.  Each method body is translated, statement by statement, into a list of effects
(`Generated/ProblemEdit.lean`); `Props/StateTie.lean` interprets those lists on the state of the C13 model and proves
that the hand-written `Py.State.step` (the function `inv_step` / `solve_eq_fresh` are about) is that interpretation:
an edit method that forgets to invalidate one cache, invalidates before it writes, appends constraints before the
whole list is validated, or sets the wrong sense, produces a different script and the equalities are re-checked
against it.  `_is_linear_problem` (memo slot, early exits, loop over the constraints) becomes the Lean function
`isLinearProblemG`.

Everything outside the statement forms listed below raises TranslateError (a broken tie, never skipped).
"""
from __future__ import annotations

import ast
import json


class TranslateError(Exception):
    pass


def _u(n) -> str:
    return ast.unparse(n)


FIELDS = {"name": "name", "_objective": "objective", "_sense": "sense", "_constraints": "constraints",
          "_variables": "variables", "_solver_cache": "solverCache", "_lp_cache": "lpCache",
          "_is_linear_cache": "isLinearCache"}


def _body(fn: ast.FunctionDef) -> list[ast.stmt]:
    return [st for st in fn.body
            if not (isinstance(st, ast.Expr) and isinstance(st.value, ast.Constant) and isinstance(st.value.value, str))]


def _self_field(node: ast.AST) -> str | None:
    if isinstance(node, ast.Attribute) and isinstance(node.value, ast.Name) and node.value.id == "self":
        return node.attr
    return None


def effects(fn: ast.FunctionDef, where: str, param: str | None) -> list[str]:
    """straight-line method body -> effect terms"""
    out: list[str] = []
    stmts = _body(fn)
    validated_name = None
    for i, st in enumerate(stmts):
        u = _u(st)
        tgt = val = None
        if isinstance(st, ast.Assign) and len(st.targets) == 1:
            tgt, val = st.targets[0], st.value
        elif isinstance(st, ast.AnnAssign) and st.value is not None:
            tgt, val = st.target, st.value
        if tgt is not None:
            f = _self_field(tgt)
            if f is not None:
                if f not in FIELDS:
                    raise TranslateError(f"{where}: write to unknown field self.{f}")
                lf = FIELDS[f]
                v = _u(val)
                if v == "None":
                    out.append(f".clear .{lf}")
                elif f == "name" and v == "name":
                    out.append(".setName")
                elif f == "_objective" and param and v.startswith(f"self._validate_expression({param}, "):
                    out.append(".setObjective")
                elif f == "_sense" and isinstance(val, ast.Constant) and isinstance(val.value, str):
                    out.append(f".setSense {json.dumps(val.value)}")
                elif f == "_constraints" and v == "[]":
                    out.append(".emptyConstraints")
                else:
                    raise TranslateError(f"{where}: unsupported write {u[:80]!r}")
                continue
            if isinstance(tgt, ast.Name) and param and _u(val) == f"[self._validate_constraint(c) for c in {param}]":
                validated_name = tgt.id
                out.append(".validateAll")
                continue
            raise TranslateError(f"{where}: unsupported assignment {u[:80]!r}")
        if isinstance(st, ast.Expr) and isinstance(st.value, ast.Call):
            if u == "self._invalidate_caches()":
                out.append(".invalidate")
                continue
            if validated_name and u == f"self._constraints.extend({validated_name})":
                out.append(".extendValidated")
                continue
            if param and u == f"self._constraints.append(self._validate_constraint({param}))":
                out.append(".appendValidated")
                continue
            raise TranslateError(f"{where}: unsupported call {u[:80]!r}")
        if isinstance(st, ast.For) and param and _u(st.iter) == param and not st.orelse and len(st.body) == 1 \
                and _u(st.body[0]) == f"self._constraints.append(self._validate_constraint({_u(st.target)}))":
            out.append(".appendEachValidated")
            continue
        if isinstance(st, ast.Return):
            if i != len(stmts) - 1 or _u(st) not in ("return self", "return"):
                raise TranslateError(f"{where}: return {u!r} (not the last statement / not `self`)")
            continue
        raise TranslateError(f"{where}: unsupported statement {u[:80]!r}")
    return out


def lean_list(xs: list[str]) -> str:
    return "[" + ", ".join(xs) + "]"


def gen_is_linear(fn: ast.FunctionDef) -> str:
    """`_is_linear_problem` -> `isLinearProblemG cache objLin conLin : Option Bool × Bool`
    (new content of the memo slot, returned value)"""
    where = "Problem._is_linear_problem"
    stmts = [st for st in _body(fn) if not isinstance(st, (ast.Import, ast.ImportFrom))]

    def ret(st: ast.Return, cache: str, env: dict) -> str:
        v = _u(st.value)
        if v in ("True", "False"):
            return f"({cache}, {v.lower()})"
        if v == "self._is_linear_cache" and "cached" in env:
            return f"({cache}, {env['cached']})"
        raise TranslateError(f"{where}: return {v!r}")

    def blk(ss: list[ast.stmt], cache: str, env: dict) -> str:
        if not ss:
            raise TranslateError(f"{where}: a path falls off the end")
        st, rest = ss[0], ss[1:]
        if isinstance(st, ast.Return):
            return ret(st, cache, env)
        if isinstance(st, ast.Assign) and _u(st.targets[0]) == "self._is_linear_cache" and _u(st.value) in ("True", "False"):
            return blk(rest, f"some {_u(st.value).lower()}", env)
        if isinstance(st, ast.If) and not st.orelse:
            t = _u(st.test)
            if t == "self._is_linear_cache is not None":
                e2 = dict(env)
                e2["cached"] = "b"
                return f"(match cache with\n  | some b => {blk(st.body, cache, e2)}\n  | none => {blk(rest, cache, env)})"
            if t == "self._objective is None":
                e2 = dict(env)
                e2["obj"] = "l"
                return f"(match objLin with\n  | none => {blk(st.body, cache, env)}\n  | some l => {blk(rest, cache, e2)})"
            if t == "not is_linear(self._objective)" and "obj" in env:
                return f"(if !{env['obj']} then {blk(st.body, cache, env)} else {blk(rest, cache, env)})"
            raise TranslateError(f"{where}: test {t!r}")
        if isinstance(st, ast.For) and not st.orelse and _u(st.iter) == "self._constraints" and len(st.body) == 1 \
                and isinstance(st.body[0], ast.If) and not st.body[0].orelse:
            v = _u(st.target)
            inner = st.body[0]
            if _u(inner.test) != f"not is_linear({v}.expr)":
                raise TranslateError(f"{where}: loop test {_u(inner.test)!r}")
            if any(isinstance(n, ast.Name) and n.id == v for s in inner.body for n in ast.walk(s)):
                raise TranslateError(f"{where}: the loop body reads the loop variable")
            return f"(if conLin.any (fun l => !l) then {blk(inner.body, cache, env)} else {blk(rest, cache, env)})"
        raise TranslateError(f"{where}: unsupported statement {_u(st)[:80]!r}")

    return ("/-- `Problem._is_linear_problem`: `cache` = the memo slot, `objLin` = `is_linear(objective)` (none: no objective),\n"
            "    `conLin` = `is_linear(c.expr)` for the constraints in order; returns (new memo slot, result) -/\n"
            "def isLinearProblemG (cache : Option Bool) (objLin : Option Bool) (conLin : List Bool) : Option Bool × Bool :=\n  "
            + blk(stmts, "cache", {}))


def gen_problem_edit(pb: ast.AST) -> str:
    cls = next((n for n in ast.walk(pb) if isinstance(n, ast.ClassDef) and n.name == "Problem"), None)
    if cls is None:
        raise TranslateError("class Problem not found")
    meth = {n.name: n for n in cls.body if isinstance(n, ast.FunctionDef)}
    for nm in ("__init__", "_invalidate_caches", "minimize", "maximize", "subject_to", "_is_linear_problem",
               "n_variables", "get_bounds"):
        if nm not in meth:
            raise TranslateError(f"Problem.{nm} not found")

    def first_param(fn):
        a = [x.arg for x in fn.args.args if x.arg != "self"]
        return a[0] if a else None

    out = ["inductive FieldG | name | objective | sense | constraints | variables | solverCache | lpCache | isLinearCache",
           "  deriving DecidableEq, Repr",
           "/-- one statement of an editing method of `Problem` -/",
           "inductive EffG",
           "  | clear (f : FieldG)            -- `self.<f> = None`",
           "  | setName                       -- `self.name = name`",
           "  | setObjective                  -- `self._objective = self._validate_expression(expr, …)`",
           "  | setSense (s : String)         -- `self._sense = \"…\"`",
           "  | emptyConstraints              -- `self._constraints = []`",
           "  | invalidate                    -- `self._invalidate_caches()`",
           "  | validateAll                   -- `validated = [self._validate_constraint(c) for c in constraint]`",
           "  | extendValidated               -- `self._constraints.extend(validated)`",
           "  | appendValidated               -- `self._constraints.append(self._validate_constraint(constraint))`",
           "  | appendEachValidated           -- `for c in constraint: self._constraints.append(self._validate_constraint(c))`",
           "  deriving DecidableEq, Repr", ""]
    out.append(f"def problemInitG : List EffG := {lean_list(effects(meth['__init__'], 'Problem.__init__', 'name'))}")
    inv = effects(meth["_invalidate_caches"], "Problem._invalidate_caches", None)
    if ".invalidate" in inv:
        raise TranslateError("Problem._invalidate_caches calls itself")
    out.append(f"def invalidateCachesG : List EffG := {lean_list(inv)}")
    for nm, lean in (("minimize", "minimizeG"), ("maximize", "maximizeG")):
        out.append(f"def {lean} : List EffG := {lean_list(effects(meth[nm], 'Problem.' + nm, first_param(meth[nm])))}")
    # subject_to: `if isinstance(constraint, list): A else: B` followed by a common tail
    st_fn = meth["subject_to"]
    p = first_param(st_fn)
    body = _body(st_fn)
    if not (body and isinstance(body[0], ast.If) and _u(body[0].test) == f"isinstance({p}, list)" and body[0].orelse):
        raise TranslateError(f"Problem.subject_to: first statement {_u(body[0])[:80]!r}")

    def variant(branch):
        fake = ast.FunctionDef(name="subject_to", args=st_fn.args, body=list(branch) + body[1:], decorator_list=[], lineno=0)
        return effects(fake, "Problem.subject_to", p)
    out.append(f"def subjectToListG : List EffG := {lean_list(variant(body[0].body))}")
    out.append(f"def subjectToOneG : List EffG := {lean_list(variant(body[0].orelse))}")
    out.append("")
    out.append(gen_is_linear(meth["_is_linear_problem"]))
    # the two read-only helpers, as text
    for nm in ("n_variables", "get_bounds"):
        b = _body(meth[nm])
        out.append(f"def {nm.replace('_v', 'V').replace('_b', 'B')}TextG : String := {json.dumps('; '.join(_u(s) for s in b))}")
    # the remaining read-only accessors and the two small predicates, as (name, text) pairs
    pairs = []
    for nm in ("objective", "sense", "constraints", "n_constraints", "_has_equality_constraints", "_only_simple_bounds"):
        if nm not in meth:
            raise TranslateError(f"Problem.{nm} not found")
        pairs.append((nm, "; ".join(" ".join(_u(s).split()) for s in _body(meth[nm]) if not isinstance(s, (ast.Import, ast.ImportFrom)))))
    out.append("/-- read-only accessors of `Problem`, statement by statement -/")
    out.append("def problemReadersG : List (String × String) := [" + ", ".join(f"({json.dumps(a)}, {json.dumps(b)})" for a, b in pairs) + "]")
    return "\n".join(out) + "\n"


# ======================================================================================================
#  `_try_get_single_vector_source` (problem.py): the body of its `while stack:` loop, per node class
# ======================================================================================================

def gen_svs(pb: ast.AST) -> str:
    """-> `svsVisitG found cur : Option (Option VVar × List Expr)`: `none` = `return None`, `some (found', pushed)` = the
    iteration ends with `found_source = found'` after pushing `pushed` (in push order); plus the frame as text"""
    import py2lean
    CTORS, NON_SCALAR, classes_of = py2lean.CTORS, py2lean.NON_SCALAR, py2lean.classes_of
    where = "_try_get_single_vector_source"
    fn = next((n for n in ast.walk(pb) if isinstance(n, ast.FunctionDef) and n.name == where), None)
    if fn is None:
        raise TranslateError(f"{where} not found")
    body = [st for st in _body(fn) if not isinstance(st, (ast.Import, ast.ImportFrom))]
    body = [st for st in body]
    loop = next((st for st in body if isinstance(st, ast.While)), None)
    if loop is None or _u(loop.test) != "stack" or loop.orelse:
        raise TranslateError(f"{where}: no `while stack:` loop")
    frame = [" ".join(_u(st).split()) for st in body if st is not loop]
    lb = [st for st in loop.body if not (isinstance(st, ast.Expr) and isinstance(st.value, ast.Constant))]
    if not lb or _u(lb[0]) != "current = stack.pop()":
        raise TranslateError(f"{where}: the loop does not start with `current = stack.pop()`")
    lb = lb[1:]
    known = {k for k, _, _ in CTORS} | set(NON_SCALAR)
    counter = [0]

    def new(b):
        counter[0] += 1
        return f"{b}{counter[0]}"

    def ends(stmts):
        if not stmts:
            return False
        s = stmts[-1]
        if isinstance(s, (ast.Continue, ast.Return)):
            return True
        if isinstance(s, ast.If) and s.orelse:
            return ends(s.body) and ends(s.orelse)
        return False

    def static(test, env):
        """value of a condition over bool locals that are known after the case splits, else None"""
        if isinstance(test, ast.Name) and test.id in env and env[test.id][1] == "KnownBool":
            return env[test.id][0]
        if isinstance(test, ast.BoolOp):
            vals = [static(v, env) for v in test.values]
            if any(v is None for v in vals):
                return None
            return all(vals) if isinstance(test.op, ast.And) else any(vals)
        if isinstance(test, ast.UnaryOp) and isinstance(test.op, ast.Not):
            v = static(test.operand, env)
            return None if v is None else (not v)
        return None

    def is_vecvar(node):
        """`isinstance(X, VectorVariable)` -> X"""
        if isinstance(node, ast.Call) and _u(node.func) == "isinstance" and len(node.args) == 2 and _u(node.args[1]) == "VectorVariable":
            return _u(node.args[0])
        return None

    def lookup(key, env):
        if key not in env:
            raise TranslateError(f"{where}: unbound {key!r}")
        return env[key]

    def blk(stmts, env, found, pushed):
        # found: ("none",) | ("some", term) | ("var", term of type Option VVar)
        def result():
            ft = {"none": "none", "some": f"some {found[1]}" if found[0] == "some" else "", "var": found[1] if found[0] == "var" else ""}[found[0]]
            return f"some ({ft}, [{', '.join(pushed)}])"
        if not stmts:
            raise TranslateError(f"{where}: a path falls off the end of the loop body")
        st, rest = stmts[0], stmts[1:]
        if isinstance(st, ast.Continue):
            return result()
        if isinstance(st, ast.Return):
            if _u(st) != "return None":
                raise TranslateError(f"{where}: {_u(st)!r} inside the loop")
            return "none"
        if isinstance(st, ast.Assign) and len(st.targets) == 1 and isinstance(st.targets[0], ast.Name):
            nm, val = st.targets[0].id, st.value
            x = is_vecvar(val)
            if x is not None:
                t, ty = lookup(x, env)
                if ty == "VVar":
                    e2 = dict(env); e2[nm] = (True, "KnownBool")
                    return blk(rest, e2, found, pushed)
                if ty == "Vec":
                    v = new("w")
                    e_yes = dict(env); e_yes[nm] = (True, "KnownBool"); e_yes[x] = (v, "VVar")
                    e_no = dict(env); e_no[nm] = (False, "KnownBool"); e_no[x] = (t, "VecNotVars")
                    return (f"(match {t} with | .vars {v} => {blk(rest, e_yes, found, pushed)} "
                            f"| .exprs _ => {blk(rest, e_no, found, pushed)})")
                raise TranslateError(f"{where}: isinstance(…, VectorVariable) on a {ty}")
            if nm == "found_source":
                t, ty = lookup(_u(val), env)
                if ty != "VVar":
                    raise TranslateError(f"{where}: found_source = a {ty}")
                return blk(rest, env, ("some", t), pushed)
            u = _u(val)
            if u in env:
                e2 = dict(env); e2[nm] = env[u]
                return blk(rest, e2, found, pushed)
            raise TranslateError(f"{where}: assignment {_u(st)[:70]!r}")
        if isinstance(st, ast.Expr) and isinstance(st.value, ast.Call):
            f, args = _u(st.value.func), st.value.args
            if f == "stack.append" and len(args) == 1:
                t, ty = lookup(_u(args[0]), env)
                if ty != "Expr":
                    raise TranslateError(f"{where}: pushes a {ty}")
                return blk(rest, env, found, pushed + [t])
            if f == "stack.extend" and len(args) == 1 and _u(args[0]).endswith("._expressions"):
                t, ty = lookup(_u(args[0])[:-len("._expressions")], env)
                if ty != "ExprList" or pushed:
                    raise TranslateError(f"{where}: stack.extend of a {ty} / after pushes")
                ft = {"none": "none", "some": f"some {found[1]}" if found[0] == "some" else "", "var": found[1] if found[0] == "var" else ""}[found[0]]
                if not (rest and isinstance(rest[0], ast.Continue)):
                    raise TranslateError(f"{where}: statements after stack.extend")
                return f"some ({ft}, {t}.toList)"
            raise TranslateError(f"{where}: call {_u(st)[:70]!r}")
        if isinstance(st, ast.If):
            body_ = st.body if ends(st.body) else st.body + rest
            orelse = st.orelse if (st.orelse and ends(st.orelse)) else (st.orelse or []) + rest
            sv = static(st.test, env)
            if sv is not None:
                return blk(body_ if sv else orelse, env, found, pushed)
            x = is_vecvar(st.test)
            if x is not None:
                t, ty = lookup(x, env)
                if ty == "VVar":
                    return blk(body_, env, found, pushed)
                if ty == "Vec":
                    v = new("w")
                    e_yes = dict(env); e_yes[x] = (v, "VVar")
                    return f"(match {t} with | .vars {v} => {blk(body_, e_yes, found, pushed)} | .exprs _ => {blk(orelse, env, found, pushed)})"
                raise TranslateError(f"{where}: isinstance(…, VectorVariable) on a {ty}")
            u = _u(st.test)
            if u == "found_source is None":
                if found[0] == "none":
                    return blk(body_, env, found, pushed)
                if found[0] == "some":
                    return blk(orelse, env, found, pushed)
                f = new("f")
                return (f"(match {found[1]} with | none => {blk(body_, env, ('none',), pushed)} "
                        f"| some {f} => {blk(orelse, env, ('some', f), pushed)})")
            if isinstance(st.test, ast.Compare) and len(st.test.ops) == 1 and isinstance(st.test.ops[0], (ast.Is, ast.IsNot)):
                l, r = _u(st.test.left), _u(st.test.comparators[0])
                neg = isinstance(st.test.ops[0], ast.IsNot)

                def vv(k):
                    if k == "found_source":
                        if found[0] != "some":
                            raise TranslateError(f"{where}: identity test on found_source while it may be None")
                        return found[1]
                    t, ty = lookup(k, env)
                    if ty != "VVar":
                        raise TranslateError(f"{where}: identity test on a {ty}")
                    return t
                c = f"({vv(l)}.oid == {vv(r)}.oid)"
                yes, no = (orelse, body_) if neg else (body_, orelse)
                return f"(if {c} then {blk(yes, env, found, pushed)} else {blk(no, env, found, pushed)})"
            raise TranslateError(f"{where}: test {u!r}")
        raise TranslateError(f"{where}: statement {_u(st)[:70]!r}")

    out = ["/-- the statements around the loop of `_try_get_single_vector_source` -/",
           "def svsFrameG : List String := [" + ", ".join(json.dumps(t) for t in frame) + "]", "",
           "/-- one iteration of `while stack:` after `current = stack.pop()` -/",
           "def svsVisitG (found : Option VVar) : Expr → Option (Option VVar × List Expr)"]
    for cls, ctor, fields in CTORS:
        env = {}
        for attr, b, ty in fields:
            env[f"current.{attr}" if attr else "current"] = (b, ty)
        stmts = []
        for s in lb:
            if isinstance(s, ast.If) and not s.orelse:
                cl = classes_of(s.test, "current")
                if cl is not None:
                    for c in cl:
                        if c not in known and c != "VectorVariable":
                            raise TranslateError(f"{where}: class unknown to the model: {c}")
                    if cls in cl:
                        stmts += list(s.body)
                        if ends(s.body):
                            break
                    continue
            stmts.append(s)
        binders = " ".join(b for _, b, _ in fields)
        out.append(f"  | .{ctor} {binders} => {blk(stmts, env, ('var', 'found'), [])}")
    return "\n".join(out) + "\n"


# ======================================================================================================
#  `Problem.variables` (problem.py): memo slot, shortcut test, general path
# ======================================================================================================

def gen_problem_variables(pb: ast.AST) -> str:
    where = "Problem.variables"
    cls = next((n for n in ast.walk(pb) if isinstance(n, ast.ClassDef) and n.name == "Problem"), None)
    fn = next((n for n in cls.body if isinstance(n, ast.FunctionDef) and n.name == "variables"), None) if cls else None
    if fn is None:
        raise TranslateError(f"{where} not found")
    body = [st for st in _body(fn) if not isinstance(st, (ast.Import, ast.ImportFrom))]
    # (1) memo read
    if not (body and isinstance(body[0], ast.If) and _u(body[0].test) == "self._variables is not None"
            and [_u(x) for x in body[0].body] == ["return self._variables"] and not body[0].orelse):
        raise TranslateError(f"{where}: memo read {_u(body[0])[:80]!r}")
    # every other return is `return self._variables` directly after an assignment to it
    for node in ast.walk(fn):
        blk = getattr(node, "body", None)
        for lst in (blk, getattr(node, "orelse", None)):
            if isinstance(lst, list):
                for i, st in enumerate(lst):
                    if isinstance(st, ast.Return) and not (node is body[0]):
                        if _u(st) != "return self._variables" or i == 0 or not (
                                isinstance(lst[i - 1], ast.Assign) and _u(lst[i - 1].targets[0]) == "self._variables"):
                            raise TranslateError(f"{where}: a return that does not store the result in the memo slot first")
    # (2) shortcut block
    sc = body[1]
    if not (isinstance(sc, ast.If) and _u(sc.test) == "self._objective is not None" and not sc.orelse and len(sc.body) == 2):
        raise TranslateError(f"{where}: shortcut block {_u(sc)[:80]!r}")
    a0, a1 = sc.body
    if not (isinstance(a0, ast.Assign) and _u(a0.value) == "_try_get_single_vector_source(self._objective)"):
        raise TranslateError(f"{where}: {_u(a0)!r}")
    src = _u(a0.targets[0])
    if not (isinstance(a1, ast.If) and _u(a1.test) == f"{src} is not None" and not a1.orelse and len(a1.body) == 3):
        raise TranslateError(f"{where}: {_u(a1)[:80]!r}")
    f0, loop, fin = a1.body
    flag = _u(f0.targets[0]) if isinstance(f0, ast.Assign) else None
    if flag is None or _u(f0.value) != "True":
        raise TranslateError(f"{where}: flag initialisation {_u(f0)!r}")
    if not (isinstance(loop, ast.For) and _u(loop.iter) == "self._constraints" and not loop.orelse and len(loop.body) == 2):
        raise TranslateError(f"{where}: constraint loop")
    cv = _u(loop.target)
    l0, l1 = loop.body
    if not (isinstance(l0, ast.Assign) and _u(l0.value) == f"_try_get_single_vector_source({cv}.expr)"):
        raise TranslateError(f"{where}: {_u(l0)!r}")
    csrc = _u(l0.targets[0])
    if not (isinstance(l1, ast.If) and not l1.orelse and [_u(x) for x in l1.body] == [f"{flag} = False", "break"]):
        raise TranslateError(f"{where}: loop body {_u(l1)[:80]!r}")

    def cond(t):
        if isinstance(t, ast.BoolOp):
            op = " || " if isinstance(t.op, ast.Or) else " && "
            return "(" + op.join(cond(v) for v in t.values) + ")"
        u = _u(t)
        if u == f"{csrc} is None":
            return "isNone"
        if u == f"{csrc} is not None":
            return "(!isNone)"
        if u == f"{csrc} is not {src}":
            return "differs"
        if u == f"{csrc} is {src}":
            return "(!differs)"
        raise TranslateError(f"{where}: loop test {u!r}")
    ctest = cond(l1.test)
    if not (isinstance(fin, ast.If) and _u(fin.test) == flag and not fin.orelse and len(fin.body) == 2
            and _u(fin.body[0]) == f"self._variables = sorted({src}._variables, key=_natural_sort_key)"):
        raise TranslateError(f"{where}: shortcut result {_u(fin)[:120]!r}")
    out = ["/-- the shortcut test of `Problem.variables`: `svs` = `_try_get_single_vector_source`; the result is the vector whose",
           "    elements are returned (sorted by `_natural_sort_key`), `none` = general path.  For one constraint: `isNone` = its",
           "    source is None, `differs` = its source is not the objective's (object identity) -/",
           "def shortcutG (svs : Expr → Option VVar) (obj : Option Expr) (cons : List Expr) : Option VVar :=",
           "  match obj with",
           "  | none => none",
           "  | some o =>",
           "    match svs o with",
           "    | none => none",
           "    | some src =>",
           "      if cons.all (fun c =>",
           "          let isNone := (svs c).isNone",
           "          let differs := match svs c with | some s => s.oid != src.oid | none => true",
           f"          !{ctest})",
           "      then some src else none"]
    gen = [" ".join(_u(st).split()) for st in body[2:]]
    out += ["/-- the general path, statement by statement -/",
            "def generalPathG : List String := [" + ", ".join(json.dumps(t) for t in gen) + "]"]
    return "\n".join(out) + "\n"


if __name__ == "__main__":
    import sys
    print(gen_problem_edit(ast.parse(open(sys.argv[1]).read())))
    print(gen_svs(ast.parse(open(sys.argv[1]).read())))
    print(gen_problem_variables(ast.parse(open(sys.argv[1]).read())))
