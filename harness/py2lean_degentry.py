"""py2lean_degentry — the entry points of the degree classification (analysis.py `compute_degree`, `is_linear`, `is_quadratic`,
`_compute_degree_cached`; core/expressions.py `Expression.degree`, `Expression.is_linear`): the depth switch, the `deg is not None
and deg <= k` tests and the sentinel logic of the `_degree` slot, translated into small functions (`Generated/DegreeEntry.lean`).
`Props/DegreeEntryTie.lean`: the model's `computeDegree`, `isLinear`, `isQuadratic`, `readDegree`, `encodeDeg` are these functions."""
from __future__ import annotations

import ast
import re


class TranslateError(Exception):
    pass


def _u(n):
    return ast.unparse(n)


def _body(fn):
    return [s for s in fn.body if not (isinstance(s, ast.Expr) and isinstance(s.value, ast.Constant))
            and not isinstance(s, (ast.Import, ast.ImportFrom))]


def find_func(tree, name):
    for n in tree.body:
        if isinstance(n, ast.FunctionDef) and n.name == name:
            return n
    raise TranslateError(f"{name} not found")


def le_test(fn, where) -> int:
    b = [_u(s) for s in _body(fn)]
    if len(b) != 2 or not re.fullmatch(r"deg = (expr|self)\.degree", b[0]):
        raise TranslateError(f"{where}: body {b}")
    m = re.fullmatch(r"return deg is not None and deg <= (\d+)", b[1])
    if not m:
        raise TranslateError(f"{where}: test {b[1]!r}")
    return int(m.group(1))


def gen_degree_entry(an: ast.AST, ex: ast.AST) -> str:
    k1 = le_test(find_func(an, "is_linear"), "is_linear")
    k2 = le_test(find_func(an, "is_quadratic"), "is_quadratic")
    cls = next((n for n in ex.body if isinstance(n, ast.ClassDef) and n.name == "Expression"), None)
    if cls is None:
        raise TranslateError("class Expression not found")
    meth = {n.name: n for n in cls.body if isinstance(n, ast.FunctionDef)}
    k1m = le_test(meth["is_linear"], "Expression.is_linear")
    cd = [_u(s) for s in _body(find_func(an, "compute_degree"))]
    if cd != ["depth = _estimate_tree_depth(expr)",
              "if depth >= _RECURSION_THRESHOLD:\n    return _compute_degree_iterative(expr)",
              "return _compute_degree_cached(id(expr), expr)"]:
        raise TranslateError(f"compute_degree: {cd}")
    cc = find_func(an, "_compute_degree_cached")
    if [_u(s) for s in _body(cc)] != ["return _compute_degree_impl(expr)"] or [a.arg for a in cc.args.args] != ["expr_id", "expr"]:
        raise TranslateError("_compute_degree_cached: body / key")
    dg = [_u(s) for s in _body(meth["degree"])]
    want = ["if hasattr(self, '_degree') and self._degree is not None:\n    return None if self._degree == -1 else self._degree",
            "result = compute_degree(self)",
            "self._degree = result if result is not None else -1",
            "return result"]
    if dg != want:
        raise TranslateError(f"Expression.degree: {dg}")
    out = [f"/-- `is_linear`: `deg is not None and deg <= {k1}` (function and method) -/",
           f"def isLinearG (deg : Option Nat) : Bool := match deg with | some d => decide (d ≤ {k1}) | none => false",
           f"def isLinearMethodG (deg : Option Nat) : Bool := match deg with | some d => decide (d ≤ {k1m}) | none => false",
           f"/-- `is_quadratic`: `deg is not None and deg <= {k2}` -/",
           f"def isQuadraticG (deg : Option Nat) : Bool := match deg with | some d => decide (d ≤ {k2}) | none => false",
           "/-- `compute_degree`: `depth >= _RECURSION_THRESHOLD` selects the explicit-stack classifier, otherwise the cached recursive",
           "    one (`_compute_degree_cached(id(expr), expr)` = `_compute_degree_impl(expr)`) -/",
           "def degreeUsesIterativeG (depth threshold : Nat) : Bool := decide (depth ≥ threshold)",
           "/-- `Expression.degree`, reading: the slot holds an int (`hasattr … and … is not None`) → `None if slot == -1 else slot` -/",
           "def degreeSlotReadG (slot : Int) : Option Nat := if slot == -1 then none else some slot.toNat",
           "/-- `Expression.degree`, writing: `self._degree = result if result is not None else -1` -/",
           "def degreeSlotWriteG (result : Option Nat) : Int := match result with | some d => (d : Int) | none => -1"]
    return "\n".join(out) + "\n"


if __name__ == "__main__":
    import sys
    print(gen_degree_entry(ast.parse(open(sys.argv[1] + "/analysis.py").read()), ast.parse(open(sys.argv[1] + "/core/expressions.py").read())))
