"""py2lean_entry — the entry wrappers of the closure compiler (core/compiler.py): `compile_expression`, `compile_to_dict_function`
(with its nested `dict_fn`), the class `CompiledExpression` and `_param_value`, translated statement by statement into
`Generated/CompileEntry.lean`.  These are straight-line functions; every right-hand side must be one of a small table of idioms
over the function's arguments and earlier locals (`{var.name: i for i, var in enumerate(variables)}` ↦ `idxOf V`, a call of the
builder / the cached compiler ↦ an application of the corresponding parameter, …); an `if isinstance(expr, Parameter): return …`
becomes a match on the node.  Anything else is a translation error.  `Props/CompileEntryTie.lean`: the hand-written
`Py.compileExpression`, `Py.dictFn`, `Py.compiledValue` (what `C01.compileExpression_sound / dictFn_sound / compiledValue_sound`
are about) are these functions.
"""
from __future__ import annotations

import ast
import json

from py2lean import TranslateError


def _u(n):
    return ast.unparse(n)


def _strip(stmts):
    return [s for s in stmts if not (isinstance(s, ast.Expr) and isinstance(s.value, ast.Constant))
            and not isinstance(s, (ast.Import, ast.ImportFrom))]


def find_func(tree, name):
    for n in tree.body:
        if isinstance(n, ast.FunctionDef) and n.name == name:
            return n
    raise TranslateError(f"{name} not found")


class Straight:
    """straight-line code over typed locals; env: python name -> (lean term, type)"""

    def __init__(self, where):
        self.where = where

    def fail(self, node, why):
        raise TranslateError(f"{self.where}: {why}: {_u(node)[:110]!r} (line {getattr(node, 'lineno', '?')})")

    def expr(self, v, env):
        u = _u(v)
        if u in env:
            return env[u]
        if u == "{var.name: i for i, var in enumerate(variables)}" and env.get("variables", ("", ""))[1] == "Vars":
            return (f"(idxOf {env['variables'][0]})", "Idx")
        if u in ("[v.name for v in variables]",) and env.get("variables", ("", ""))[1] == "Vars":
            return (f"({env['variables'][0]}.map (·.name))", "Names")
        if isinstance(v, ast.Call):
            f = _u(v.func)
            args = [self.expr(a, env) if not self.is_names_tuple(a, env) and not self.is_items_tuple(a, env) else ("", "_") for a in v.args]
            if f == "_build_evaluator" and [t for _, t in args] == ["Expr", "Idx"]:
                return (f"(build {args[1][0]} {args[0][0]})", "Clo")
            if f == "_compile_cached" and len(v.args) == 3 and args[0][1] == "Expr" and self.is_names_tuple(v.args[1], env) \
                    and self.is_items_tuple(v.args[2], env):
                # the cache key (expr, names, items) determines var_indices = dict(items): the items of the SAME dict
                idx = env[_u(v.args[2])[len("tuple("):-len(".items())")]][0]
                return (f"(cached {idx} {args[0][0]})", "Clo")
            if f == "compile_expression" and [t for _, t in args] == ["Expr", "Vars"]:
                return (f"(compileExpr {args[1][0]} {args[0][0]})", "Clo")
            if f == "compile_gradient" and [t for _, t in args] == ["Expr", "Vars"]:
                return (f"(compileGrad {args[1][0]} {args[0][0]})", "GClo")
        self.fail(v, "right-hand side outside the idiom table")

    def is_names_tuple(self, a, env):
        return _u(a) == "tuple((var.name for var in variables))" and env.get("variables", ("", ""))[1] == "Vars"

    def is_items_tuple(self, a, env):
        u = _u(a)
        return u.startswith("tuple(") and u.endswith(".items())") and env.get(u[len("tuple("):-len(".items())")], ("", ""))[1] == "Idx"

    def block(self, stmts, env):
        stmts = _strip(stmts)
        if not stmts:
            raise TranslateError(f"{self.where}: control reaches the end without `return`")
        st, rest = stmts[0], stmts[1:]
        if isinstance(st, ast.Return):
            t, ty = self.expr(st.value, env)
            return t
        if isinstance(st, ast.Assign) and len(st.targets) == 1 and isinstance(st.targets[0], ast.Name):
            e2 = dict(env); e2[st.targets[0].id] = self.expr(st.value, env)
            return self.block(rest, e2)
        if isinstance(st, ast.If) and not st.orelse and _u(st.test) == "isinstance(expr, Parameter)" and env["expr"][1] == "Expr":
            e_yes = dict(env); e_yes["expr"] = ("(.param p)", "Expr")
            return (f"(match {env['expr'][0]} with | .param p => {self.block(st.body, e_yes)} "
                    f"| _ => {self.block(rest, env)})")
        self.fail(st, "unsupported statement")


def gen_compile_entry(cmp_: ast.AST) -> str:
    out = []
    # compile_expression
    fn = find_func(cmp_, "compile_expression")
    if [a.arg for a in fn.args.args] != ["expr", "variables"]:
        raise TranslateError("compile_expression: signature changed")
    body = Straight("compile_expression").block(fn.body, {"expr": ("e", "Expr"), "variables": ("V", "Vars")})
    out += ["/-- `compile_expression(expr, variables)`; `build` = `_build_evaluator`, `cached` = `_compile_cached` (whose key",
            "    determines its `var_indices`) -/",
            "def compileExpressionG {β : Type} (build cached : (String → Option Nat) → Expr → β) (V : List Var) (e : Expr) : β :=",
            "  " + body, ""]
    # compile_to_dict_function
    fn = find_func(cmp_, "compile_to_dict_function")
    b = _strip(fn.body)
    nested = [s for s in b if isinstance(s, ast.FunctionDef)]
    flat = [_u(s) for s in b if not isinstance(s, ast.FunctionDef)]
    if flat != ["array_fn = compile_expression(expr, variables)", "var_names = [v.name for v in variables]", "return dict_fn"] \
            or len(nested) != 1 or nested[0].name != "dict_fn" or [a.arg for a in nested[0].args.args] != ["values"]:
        raise TranslateError(f"compile_to_dict_function: {flat}")
    inner = [_u(s) for s in _strip(nested[0].body)]
    if inner != ["arr = np.array([values[name] for name in var_names])", "return array_fn(arr)"]:
        raise TranslateError(f"compile_to_dict_function.dict_fn: {inner}")
    out += ["/-- `dict_fn(values)` of `compile_to_dict_function(expr, variables)`: `values[name]` for every name of `variables` in order",
            "    (`KeyError` for the first missing one), then `array_fn = compile_expression(expr, variables)` on that array -/",
            "def dictFnG {α ε : Type} (keyError : String → ε) (arrayFn : List α → Except ε α) (V : List Var) (values : String → Option α) :",
            "    Except ε α := do",
            "  let arr ← (V.map (·.name)).mapM (fun name => match values name with | some a => pure a | none => .error (keyError name))",
            "  arrayFn arr", ""]
    # CompiledExpression
    cls = next((n for n in cmp_.body if isinstance(n, ast.ClassDef) and n.name == "CompiledExpression"), None)
    if cls is None:
        raise TranslateError("CompiledExpression not found")
    meths = {n.name: n for n in cls.body if isinstance(n, ast.FunctionDef)}
    want = {
        "__init__": ["self._expr = expr", "self._variables = variables", "self._var_names = [v.name for v in variables]",
                     "self._value_fn = compile_expression(expr, variables)", "self._gradient_fn = compile_gradient(expr, variables)"],
        "n_variables": ["return len(self._variables)"],
        "variable_names": ["return self._var_names.copy()"],
        "value": ["result = self._value_fn(x)", "return float(np.asarray(result).item())"],
        "gradient": ["return self._gradient_fn(x)"],
        "value_and_gradient": ["return (self.value(x), self.gradient(x))"],
    }
    for m, w in want.items():
        if m not in meths:
            raise TranslateError(f"CompiledExpression.{m} not found")
        got = [_u(s) for s in _strip(meths[m].body)]
        if got != w:
            raise TranslateError(f"CompiledExpression.{m}: {got}")
    extra = sorted(set(meths) - set(want) - {"__repr__"})
    if extra:
        raise TranslateError(f"CompiledExpression has methods the translation does not know: {extra}")
    out += ["/-- `CompiledExpression(expr, variables)`: the two callables it stores and what its methods return -/",
            "structure CompiledExpressionG (γ δ : Type) where",
            "  nVariables : Nat",
            "  variableNames : List String",
            "  value : γ",
            "  gradient : δ",
            "def compiledExpressionG {γ δ : Type} (compileExpr : List Var → Expr → γ) (compileGrad : List Var → Expr → δ) (V : List Var) (e : Expr) :",
            "    CompiledExpressionG γ δ :=",
            "  { nVariables := V.length, variableNames := V.map (·.name), value := compileExpr V e, gradient := compileGrad V e }", ""]
    # _param_value
    pv = [_u(s) for s in _strip(find_func(cmp_, "_param_value").body)]
    if pv != ["value = param.value", "if isinstance(value, (int, float)):\n    return np.float64(value)", "return value"]:
        raise TranslateError(f"_param_value: {pv}")
    out += ["/-- `_param_value(param)`: the parameter's CURRENT value (read at call time), a Python number as float64 -/",
            "def paramValueG {α : Type} (σ : Nat → α) (p : Par) : α := σ p.oid"]
    return "\n".join(out) + "\n"


if __name__ == "__main__":
    import sys
    print(gen_compile_entry(ast.parse(open(sys.argv[1] + "/core/compiler.py").read())))
