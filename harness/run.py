#!/usr/bin/env python3
"""Entry point of every check:  run.py <Cxx> [--tier quick|thorough] [--replay file]

Contract (DESIGN.md §2.3): exit 0 = property held on everything explored; exit 1 with
`VIOLATION property=<id> replay=<path>` = violation; exit 2 = internal error / timeout.
A broken proof obligation or a model/implementation disagreement is *not yet* a violation:
the property module's search looks for a concrete failing input on the real code first.
"""
from __future__ import annotations

import argparse
import importlib
import json
import os
import sys
import time
import subprocess
import traceback

sys.path.insert(0, os.path.dirname(os.path.abspath(__file__)))
import core  # noqa: E402


def main() -> int:
    ap = argparse.ArgumentParser()
    ap.add_argument("prop")
    ap.add_argument("--tier", default=os.environ.get("VERIF_TIER", "quick"), choices=["quick", "thorough"])
    ap.add_argument("--replay", default=None)
    args = ap.parse_args()
    prop = args.prop.upper()
    seed = int(os.environ.get("VERIF_SEED", "0") or 0)
    t0 = time.time()
    core.use_repo()
    mod = importlib.import_module(f"props.{prop.lower()}")

    if args.replay:
        payload = json.load(open(args.replay))
        ok = mod.replay(payload)
        print("replay:", "property holds on this input" if ok else "REPRODUCED: property fails on this input")
        return 0 if ok else 1

    st = core.lean_prepare(mod.LEAN_MODULE, mod.THEOREMS, extra_modules=tuple(getattr(mod, 'EXTRA_MODULES', ())))
    if args.tier == "thorough" and st.proofs_ok:
        core.run_leanchecker(st, mod.LEAN_MODULE)
    ctx = {"tier": args.tier, "seed": seed, "rng": core.Rng(seed), "build": st, "escalate": False}
    # a changed generated file / broken build means the source changed exactly there:
    # escalate the correspondence run for this invocation
    broken_lean = (not st.gen_ok) or (not st.model_ok) or (not st.proofs_ok) or (not st.axioms_ok) or bool(st.grep_hits)
    ctx["escalate"] = broken_lean

    rep = core.Report()
    run_crashed = None
    if st.model_ok:
        try:
            rep = mod.run(ctx)
        except (KeyboardInterrupt, SystemExit, MemoryError, OSError, subprocess.SubprocessError):
            raise          # infrastructure: exit 2
        except Exception:
            # The harness itself fell over while driving the code under test (an output it cannot serialise, a variable the
            # code no longer reports, …).  That is a broken correspondence, not yet a violation: the widened search runs; a
            # VIOLATION is printed only if it finds a concrete failing input, or if a proof obligation / translation / anchor
            # of this property is broken anyway (then `no-failing-input-found`); otherwise this is an internal error (exit 2).
            run_crashed = traceback.format_exc()
            rep = core.Report()
            rep.notes.append("correspondence run crashed: " + run_crashed[-1500:])
    else:
        rep.notes.append("Lean model did not build: correspondence run impossible, implementation-only oracle used")
        if hasattr(mod, "oracle_only"):
            rep = mod.oracle_only(ctx)

    violations = []
    known_hits = []
    for f in rep.oracle_failures:
        k = core.match_known(prop, f)
        if k is not None:
            known_hits.append((k, f))
        else:
            violations.append(f)

    out_lines = []
    for k, f in {k["id"]: (k, f) for k, f in known_hits}.values():
        out_lines.append(f"KNOWN-FINDING: property={prop} {k['id']}: {k['what']}")

    exit_code = 0
    if violations:
        f = violations[0]
        path = core.write_replay(prop, {"property": prop, "kind": "failing-input", "failure": f,
                                        "seed": seed, "tier": args.tier,
                                        "how_to_replay": f"./check {prop} --replay <this file>"})
        out_lines.append(f"VIOLATION property={prop} replay={path}")
        exit_code = 1
    elif broken_lean or rep.corr_mismatches or run_crashed:
        # nothing failed yet on the cases of this run: widen the search on the real code
        found = None
        if hasattr(mod, "search"):
            try:
                found = mod.search(ctx, rep)
            except Exception:
                rep.notes.append("search crashed: " + traceback.format_exc()[-600:])
        if found is not None and core.match_known(prop, found) is None:
            path = core.write_replay(prop, {"property": prop, "kind": "failing-input", "failure": found,
                                            "seed": seed, "tier": args.tier})
            out_lines.append(f"VIOLATION property={prop} replay={path}")
        elif run_crashed and not broken_lean and not rep.corr_mismatches:
            # a harness crash with every obligation intact and no failing input: an internal error, never an alarm
            sys.stderr.write(run_crashed)
            sys.exit(2)
        else:
            what = {
                "property": prop,
                "kind": "unchecked-obligation",
                "generated_translation_error": st.gen_error,
                "lean_model_builds": st.model_ok,
                "lean_proofs_build": st.proofs_ok,
                "failed_modules": st.failed_modules,
                "failed_at": st.failed_decls,
                "theorems_no_longer_checked": [t for t in st.theorems if t not in st.axioms],
                "axioms": st.axioms,
                "forbidden_tokens": st.grep_hits,
                "proof_log_tail": st.proofs_log[-3000:],
                "model_log_tail": st.model_log[-2000:],
                "correspondence_mismatches": rep.corr_mismatches[:5],
                "correspondence_run_crashed": (run_crashed or "")[-1500:],
                "note": "no concrete failing input was found; the property is no longer shown to hold",
            }
            path = core.write_replay(prop, what)
            out_lines.append(f"VIOLATION property={prop} replay={path} no-failing-input-found")
        exit_code = 1

    wall = time.time() - t0
    core.write_evidence(prop, args.tier, seed, st, rep, wall, 0 if exit_code == 0 else 1,
                        checker_cmd=f"cd lean && lake build {mod.LEAN_MODULE} && #print axioms on {len(mod.THEOREMS)} theorems",
                        extra_assumptions=getattr(mod, "ASSUMPTIONS", []),
                        level=getattr(mod, "LEVEL", "proof"), known_hits=len(known_hits),
                        known_ids=sorted({k["id"] for k, _ in known_hits}))
    for l in out_lines:
        print(l)
    print(f"{prop} tier={args.tier} seed={seed}: theorems {st.discharged}/{len(st.theorems)} "
          f"cases={rep.evaluations} nontrivial={len(rep.nontrivial)} mismatches={len(rep.corr_mismatches)} "
          f"oracle_failures={len(rep.oracle_failures) - len(known_hits)} known_finding_hits={len(known_hits)} "
          f"wall={wall:.1f}s -> exit {exit_code}")
    return exit_code


if __name__ == "__main__":
    try:
        sys.exit(main())
    except SystemExit:
        raise
    except BaseException:
        traceback.print_exc()
        sys.exit(2)
