"""Serialiser: optyx expression objects  <->  the S-expression syntax of lean/Optyx/Sexp.lean.

Part of the trusted correspondence machinery.  Numbers are exact rationals
(`float.as_integer_ratio`); `np.log(2.0)` / `np.log(10.0)` are the symbols ln2 / ln10.
Anything the Lean syntax has no constructor for raises `Unsupported` (never a default).
"""
from __future__ import annotations

import math
from fractions import Fraction

import numpy as np


class Unsupported(Exception):
    pass


LN2 = float(np.log(2.0))
LN10 = float(np.log(10.0))


def rat(x) -> str:
    """exact rational text of a Python/NumPy real scalar"""
    if isinstance(x, Fraction):
        f = x
    else:
        if isinstance(x, np.ndarray):
            if x.ndim != 0:
                raise Unsupported("array constant")
            x = x.item()
        if isinstance(x, (bool, np.bool_)):
            raise Unsupported("bool constant")
        if isinstance(x, (int, np.integer)):
            f = Fraction(int(x))
        else:
            xf = float(x)
            if not math.isfinite(xf):
                raise Unsupported("non-finite constant")
            f = Fraction(xf)
    return str(f.numerator) if f.denominator == 1 else f"{f.numerator}/{f.denominator}"


def cst(x) -> str:
    if isinstance(x, np.ndarray) and x.ndim != 0:
        raise Unsupported("array constant")
    if not isinstance(x, (int, np.integer, Fraction)):
        try:
            xf = float(x)
        except (TypeError, ValueError) as ex:
            raise Unsupported(f"non-numeric constant {type(x).__name__}") from ex
        if xf == LN2:
            return "(c ln2)"
        if xf == LN10:
            return "(c ln10)"
    return f"(c {rat(x)})"


class Ids:
    """object identity -> small stable integers (keeps the objects alive)"""

    def __init__(self):
        self._m: dict[int, int] = {}
        self._keep = []

    def of(self, obj) -> int:
        k = id(obj)
        if k not in self._m:
            self._m[k] = len(self._m) + 1
            self._keep.append(obj)
        return self._m[k]


def q(s: str) -> str:
    if '"' in s:
        raise Unsupported("quote in name")
    return '"' + s + '"'


class Ser:
    def __init__(self, ids: Ids | None = None, with_ids: bool = True):
        self.ids = ids or Ids()
        self.with_ids = with_ids

    # -- leaves
    def var(self, v) -> str:
        return f"(v {q(v.name)} {self.ids.of(v)})" if self.with_ids else f"(v {q(v.name)})"

    def vvar(self, vv) -> str:
        inner = " ".join(self.var(v) for v in vv._variables)
        if self.with_ids:
            return f"(vv {q(vv.name)} {self.ids.of(vv)} ({inner}))"
        return f"(vv {q(vv.name)} ({inner}))"

    def mvar(self, m) -> str:
        rows = " ".join("(" + " ".join(self.var(v) for v in row) + ")" for row in m._variables)
        if self.with_ids:
            return f"(mv {q(m.name)} {self.ids.of(m)} ({rows}))"
        return f"(mv {q(m.name)} ({rows}))"

    def vec(self, v) -> str:
        from optyx.core.vectors import VectorVariable, VectorExpression

        if isinstance(v, VectorVariable):
            return self.vvar(v)
        if isinstance(v, VectorExpression):
            return "(ve (" + " ".join(self.expr(e) for e in v._expressions) + "))"
        raise Unsupported(f"vector operand {type(v).__name__}")

    def rats(self, arr) -> str:
        return "(" + " ".join(rat(x) for x in np.asarray(arr).tolist()) + ")"

    # -- expressions (iterative for BinaryOp/UnaryOp spines so that deep chains serialise)
    def expr(self, e) -> str:
        from optyx.core.expressions import BinaryOp, UnaryOp

        out: list[str] = []
        stack: list = [e]
        # explicit stack: items are expression objects or literal strings to emit
        while stack:
            it = stack.pop()
            if isinstance(it, str):
                out.append(it)
            elif isinstance(it, BinaryOp):
                out.append(f"(b {it.op} ")
                stack.append(")")
                stack.append(it.right)
                stack.append(" ")
                stack.append(it.left)
            elif isinstance(it, UnaryOp):
                out.append(f"(u {it.op} ")
                stack.append(")")
                stack.append(it.operand)
            else:
                out.append(self.node(it))
        return "".join(out)

    def node(self, e) -> str:
        from optyx.core.expressions import Constant, Variable
        from optyx.core.parameters import Parameter
        from optyx.core import vectors as V
        from optyx.core import matrices as M

        if isinstance(e, Constant):
            return cst(e.value)
        if isinstance(e, Variable):
            return self.var(e)
        if isinstance(e, Parameter):
            return f"(p {q(e.name)} {self.ids.of(e)})" if self.with_ids else f"(p {q(e.name)})"
        if isinstance(e, V.LinearCombination):
            return f"(lc {self.rats(e.coefficients)} {self.vec(e.vector)})"
        if isinstance(e, V.VectorSum):
            return f"(vs {self.vvar(e.vector)})"
        if isinstance(e, V.VectorExpressionSum):
            return "(es (" + " ".join(self.expr(x) for x in e.expression._expressions) + "))"
        if isinstance(e, V.DotProduct):
            return f"(dot {self.vec(e.left)} {self.vec(e.right)})"
        if isinstance(e, V.L2Norm):
            return f"(l2 {self.vec(e.vector)})"
        if isinstance(e, V.L1Norm):
            return f"(l1 {self.vec(e.vector)})"
        if isinstance(e, M.QuadraticForm):
            rows = " ".join(self.rats(r) for r in np.asarray(e.matrix))
            return f"(qf {self.vec(e.vector)} ({rows}))"
        if isinstance(e, V.VectorPowerSum):
            return f"(ps {self.vvar(e.vector)} {rat(e.power)})"
        if isinstance(e, V.VectorUnarySum):
            return f"(us {self.vvar(e.vector)} {e.op})"
        if isinstance(e, M.MatrixSum):
            if isinstance(e.matrix, M.MatrixVariable):
                return f"(msv {self.mvar(e.matrix)})"
            flat = [x for row in e.matrix._expressions for x in row]
            return "(mse (" + " ".join(self.expr(x) for x in flat) + "))"
        if isinstance(e, M.FrobeniusNorm):
            return f"(fro {self.mvar(e.matrix)})"
        raise Unsupported(f"expression node {type(e).__name__}")


def ser(e, ids: Ids | None = None, with_ids: bool = True) -> str:
    return Ser(ids, with_ids).expr(e)


def env_text(values: dict) -> str:
    return "(" + " ".join(f"({q(k)} {rat(v)})" for k, v in values.items()) + ")"


def store_text(params, ids: Ids) -> str:
    return "(" + " ".join(f"({ids.of(p)} {rat(p.value)})" for p in params) + ")"


def bits_to_float(s: str) -> float:
    import struct

    return struct.unpack("<d", struct.pack("<Q", int(s)))[0]


# ------------------------------------------------------------------ reading S-expressions back


def parse_sexp(text: str):
    """text -> nested Python lists; strings become ('str', s) tuples, atoms plain str"""
    toks = []
    i, n = 0, len(text)
    while i < n:
        ch = text[i]
        if ch in "()":
            toks.append(ch); i += 1
        elif ch == '"':
            j = text.index('"', i + 1)
            toks.append(("str", text[i + 1:j])); i = j + 1
        elif ch.isspace():
            i += 1
        else:
            j = i
            while j < n and not text[j].isspace() and text[j] not in '()"':
                j += 1
            toks.append(text[i:j]); i = j
    pos = 0

    def rd():
        nonlocal pos
        t = toks[pos]; pos += 1
        if t == "(":
            out = []
            while toks[pos] != ")":
                out.append(rd())
            pos += 1
            return out
        return t

    res = []
    while pos < len(toks):
        res.append(rd())
    return res


class Deser:
    """S-expression -> optyx objects of the tree under test (object identity restored from
    the oids; bounds/domains are not part of the syntax and default to unbounded continuous)"""

    def __init__(self):
        self.objs = {}

    def var(self, s):
        from optyx import Variable

        name = s[1][1]
        key = ("v", s[2] if len(s) > 2 else name)
        if key not in self.objs:
            self.objs[key] = Variable(name)
        return self.objs[key]

    def vvar(self, s):
        from optyx.core.vectors import VectorVariable

        key = ("vv", s[2]) if len(s) == 4 else ("vv", repr(s))
        if key not in self.objs:
            self.objs[key] = VectorVariable._from_variables(s[1][1], [self.var(v) for v in s[-1]])
        return self.objs[key]

    def mvar(self, s):
        from optyx.core.matrices import MatrixVariable

        key = ("mv", s[2]) if len(s) == 4 else ("mv", repr(s))
        if key not in self.objs:
            self.objs[key] = MatrixVariable._from_variables(s[1][1], [[self.var(v) for v in row] for row in s[-1]])
        return self.objs[key]

    def vec(self, s):
        from optyx.core.vectors import VectorExpression

        if s[0] == "ve":
            return VectorExpression([self.expr(e) for e in s[1]])
        return self.vvar(s)

    @staticmethod
    def num(a):
        f = Fraction(a)
        return float(f)

    def expr(self, s):
        from optyx.core.expressions import BinaryOp, Constant, UnaryOp
        from optyx.core.parameters import Parameter
        from optyx.core import vectors as V
        from optyx.core import matrices as M

        k = s[0]
        if k == "c":
            if s[1] == "ln2":
                return Constant(np.log(2.0))
            if s[1] == "ln10":
                return Constant(np.log(10.0))
            return Constant(self.num(s[1]))
        if k == "v":
            return self.var(s)
        if k == "p":
            key = ("p", s[2] if len(s) > 2 else s[1][1])
            if key not in self.objs:
                self.objs[key] = Parameter(s[1][1], 0.0)
            return self.objs[key]
        if k == "b":
            # iterative on the left spine would be needed for very deep replays; recursion is fine here
            return BinaryOp(self.expr(s[2]), self.expr(s[3]), s[1])
        if k == "u":
            return UnaryOp(self.expr(s[2]), s[1])
        if k == "lc":
            return V.LinearCombination(np.array([self.num(a) for a in s[1]]), self.vec(s[2]))
        if k == "vs":
            return V.VectorSum(self.vvar(s[1]))
        if k == "es":
            return V.VectorExpressionSum(V.VectorExpression([self.expr(e) for e in s[1]]))
        if k == "dot":
            return V.DotProduct(self.vec(s[1]), self.vec(s[2]))
        if k == "l2":
            return V.L2Norm(self.vec(s[1]))
        if k == "l1":
            return V.L1Norm(self.vec(s[1]))
        if k == "qf":
            return M.QuadraticForm(self.vec(s[1]), np.array([[self.num(a) for a in row] for row in s[2]]))
        if k == "ps":
            return V.VectorPowerSum(self.vvar(s[1]), self.num(s[2]))
        if k == "us":
            return V.VectorUnarySum(self.vvar(s[1]), s[2])
        if k == "msv":
            return M.MatrixSum(self.mvar(s[1]))
        if k == "fro":
            return M.FrobeniusNorm(self.mvar(s[1]))
        if k == "mse":
            es = [self.expr(e) for e in s[1]]
            return M.MatrixSum(M.MatrixExpression([es]))
        raise Unsupported(f"cannot rebuild {k}")


def deser(text: str, d: Deser | None = None):
    return (d or Deser()).expr(parse_sexp(text)[0])
