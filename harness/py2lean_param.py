"""py2lean_param — the scalar `Parameter` class and `_as_parameter_value` (core/parameters.py), translated into decision functions
(`Generated/ParamClass.lean`):

  asParameterValueG   which conversion `_as_parameter_value` applies, by the kind of the argument (Python number / NumPy dtype
                      kind and item size)
  paramSetG           `Parameter.set`: given whether the stored and the new value are ndarrays and their shapes, whether the
                      method raises `ParameterError` or reaches `self._value = new_value` — and that this assignment stores exactly
                      `_as_parameter_value(value)` (the local it assigns is resolved through its definition)
  paramReadsG         what `value`, `evaluate`, `get_variables`, `__hash__`, `__eq__`, `__init__` do, statement by statement

Conditions are mapped through a table of atoms; `if / elif / else`, `raise`, assignment to `self._value` and `return` are the only
statements accepted.  `Props/ParamTie.lean` proves the specification of these functions (when `set` stores, what it stores, that
every read returns the slot `set` wrote).
"""
from __future__ import annotations

import ast
import json

from py2lean import TranslateError


def _u(n):
    return ast.unparse(n)


def _strip(stmts):
    return [s for s in stmts if not (isinstance(s, ast.Expr) and isinstance(s.value, ast.Constant))
            and not isinstance(s, (ast.Import, ast.ImportFrom))]


ATOMS = {
    "isinstance(self._value, np.ndarray)": "curArr",
    "isinstance(new_value, np.ndarray)": "newArr",
    "self._value.shape != new_value.shape": "(curShape != newShape)",
    "new_value.ndim > 0": "(newShape.length > 0)",
    "isinstance(self._value, np.ndarray) != isinstance(new_value, np.ndarray)": "(curArr != newArr)",
}


def cond(t, where):
    u = _u(t)
    if u in ATOMS:
        return ATOMS[u]
    if isinstance(t, ast.BoolOp):
        return "(" + (" && " if isinstance(t.op, ast.And) else " || ").join(cond(v, where) for v in t.values) + ")"
    if isinstance(t, ast.UnaryOp) and isinstance(t.op, ast.Not):
        return f"(!{cond(t.operand, where)})"
    raise TranslateError(f"{where}: condition outside the atom table: {u[:100]!r}")


def flow(stmts, k, where, locals_):
    """-> Lean term of type Option String: `none` = ParameterError raised, `some src` = `self._value = <src>` reached"""
    stmts = _strip(stmts)
    if not stmts:
        return k
    st, rest = stmts[0], stmts[1:]
    if isinstance(st, ast.Raise):
        if not _u(st.exc).startswith("ParameterError("):
            raise TranslateError(f"{where}: raises something else: {_u(st)[:80]!r}")
        return "none"
    if isinstance(st, (ast.Assign, ast.AnnAssign)):
        tg = st.targets[0] if isinstance(st, ast.Assign) else st.target
        if isinstance(tg, ast.Name):
            locals_[tg.id] = _u(st.value)
            return flow(rest, k, where, locals_)
        if _u(tg) == "self._value":
            src = _u(st.value)
            src = locals_.get(src, src)
            if rest:
                raise TranslateError(f"{where}: statements after the assignment of self._value")
            return f"some {json.dumps(src)}"
    if isinstance(st, ast.If):
        r = flow(rest, k, where, locals_)
        a = flow(st.body, r, where, dict(locals_))
        b = flow(st.orelse, r, where, dict(locals_)) if st.orelse else r
        if a is None or b is None:
            raise TranslateError(f"{where}: a path ends without storing or raising")
        return f"(if {cond(st.test, where)} then {a} else {b})"
    raise TranslateError(f"{where}: unsupported statement {_u(st)[:80]!r}")


def gen_param_class(par: ast.AST) -> str:
    cls = next((n for n in par.body if isinstance(n, ast.ClassDef) and n.name == "Parameter"), None)
    if cls is None:
        raise TranslateError("class Parameter not found")
    meths = {n.name: n for n in cls.body if isinstance(n, ast.FunctionDef)}
    slots = next((_u(s.value) for s in cls.body if isinstance(s, ast.Assign) and _u(s.targets[0]) == "__slots__"), None)
    if slots != "('name', '_value')":
        raise TranslateError(f"Parameter.__slots__ = {slots}: the model has exactly the slots name and _value")
    reads = {
        "__init__": ["self.name = name", "self._value: float | NDArray[np.floating] = _as_parameter_value(value)"],
        "value": ["return self._value"],
        "evaluate": ["return self._value"],
        "get_variables": ["return set()"],
        "__hash__": ["return hash(('Parameter', self.name))"],
        "__eq__": ["if isinstance(other, Parameter):\n    return self.name == other.name", "return False"],
    }
    for m, want in reads.items():
        if m not in meths:
            raise TranslateError(f"Parameter.{m} not found")
        got = [_u(s) for s in _strip(meths[m].body)]
        if got != want:
            raise TranslateError(f"Parameter.{m}: {got}")
    extra = sorted(set(meths) - set(reads) - {"set", "__repr__"})
    if extra:
        raise TranslateError(f"Parameter has methods the translation does not know: {extra}")
    if [a.arg for a in meths["set"].args.args] != ["self", "value"]:
        raise TranslateError("Parameter.set: signature changed")
    t = flow(meths["set"].body, None, "Parameter.set", {})
    if t is None:
        raise TranslateError("Parameter.set: no path stores a value")
    out = ["/-- `Parameter.set(value)`: `none` = ParameterError; `some src` = the method ends with `self._value = src` (a local is",
           "    replaced by the expression it was assigned).  `curArr` / `newArr`: the stored / the converted new value is an ndarray -/",
           "def paramSetG (curArr newArr : Bool) (curShape newShape : List Nat) : Option String :=", "  " + t, "",
           "/-- the reading methods of `Parameter`, statement by statement (checked by the translator to be these) -/",
           "def paramReadsG : List (String × List String) := [" + ", ".join(
               f"({json.dumps(m)}, [{', '.join(json.dumps(x) for x in w)}])" for m, w in reads.items()) + "]", ""]
    # _as_parameter_value
    fn = next((n for n in par.body if isinstance(n, ast.FunctionDef) and n.name == "_as_parameter_value"), None)
    if fn is None:
        raise TranslateError("_as_parameter_value not found")
    got = [_u(s) for s in _strip(fn.body)]
    want = ["if isinstance(value, (int, float)):\n    return float(value)", "arr = np.asarray(value)",
            "if arr.dtype.kind in 'biu' or (arr.dtype.kind == 'f' and arr.dtype.itemsize < 8):\n    arr = arr.astype(np.float64)",
            "return arr"]
    if got != want:
        raise TranslateError(f"_as_parameter_value: {got}")
    out += ["/-- `_as_parameter_value(value)`: which conversion is applied -/",
            "inductive PConvG | pyFloat | astypeFloat64 | asArray deriving DecidableEq, Repr",
            "def asParameterValueG (isPyNumber : Bool) (dtypeKind : Char) (itemsize : Nat) : PConvG :=",
            "  if isPyNumber then .pyFloat",
            "  else if (dtypeKind == 'b' || dtypeKind == 'i' || dtypeKind == 'u') || (dtypeKind == 'f' && itemsize < 8) then .astypeFloat64",
            "  else .asArray"]
    # VectorParameter / MatrixParameter: the update methods
    vcls = next((n for n in par.body if isinstance(n, ast.ClassDef) and n.name == "VectorParameter"), None)
    mcls = next((n for n in par.body if isinstance(n, ast.ClassDef) and n.name == "MatrixParameter"), None)
    if vcls is None or mcls is None:
        raise TranslateError("VectorParameter / MatrixParameter not found")
    vm = {n.name: n for n in vcls.body if isinstance(n, ast.FunctionDef)}
    mm = {n.name: n for n in mcls.body if isinstance(n, ast.FunctionDef)}
    vslots = next((_u(s.value) for s in vcls.body if isinstance(s, ast.Assign) and _u(s.targets[0]) == "__slots__"), None)
    if vslots != "('name', 'size', '_parameters')":
        raise TranslateError(f"VectorParameter.__slots__ = {vslots}: the model keeps the element Parameters and nothing else that holds values")
    vset = _strip(vm["set"].body)
    if not (len(vset) == 3 and _u(vset[0]) == "val_array = np.asarray(values)"
            and isinstance(vset[1], ast.If) and not vset[1].orelse and _u(vset[1].test) == "val_array.shape != (self.size,)"
            and len(vset[1].body) == 1 and isinstance(vset[1].body[0], ast.Raise) and _u(vset[1].body[0].exc).startswith("ShapeMismatchError(")
            and _u(vset[2]) == "for i, param in enumerate(self._parameters):\n    param.set(val_array[i])"):
        raise TranslateError(f"VectorParameter.set: {[_u(x)[:70] for x in vset]}")
    vreads = {"__getitem__": None, "get_values": ["return np.array([p.value for p in self._parameters])"], "to_numpy": ["return self.get_values()"],
              "__iter__": ["return iter(self._parameters)"], "__len__": ["return self.size"]}
    for m, want in vreads.items():
        if m not in vm:
            raise TranslateError(f"VectorParameter.{m} not found")
        got = [_u(x) for x in _strip(vm[m].body)]
        if want is not None and got != want:
            raise TranslateError(f"VectorParameter.{m}: {got}")
    init_tail = _u(_strip(vm["__init__"].body)[-1])
    if init_tail != "self._parameters: list[Parameter] = [Parameter(f'{name}[{i}]', val_array[i]) for i in range(size)]":
        raise TranslateError(f"VectorParameter.__init__ does not end by creating one Parameter per element: {init_tail[:120]!r}")
    out += ["", "/-- `VectorParameter.set(values)`: `none` = ShapeMismatchError (nothing was changed: the guard precedes the loop);",
            "    `some k` = element i receives `val_array[i]` through `Parameter.set`, for i = 0 … k-1 in order -/",
            "def vectorParamSetG (size : Nat) (shape : List Nat) : Option Nat := if shape != [size] then none else some size",
            "/-- the readers of `VectorParameter` (checked): every value is read from the element Parameters -/",
            "def vectorParamReadsG : List (String × String) := [(\"get_values\", \"return np.array([p.value for p in self._parameters])\"), "
            "(\"to_numpy\", \"return self.get_values()\"), (\"__iter__\", \"return iter(self._parameters)\")]"]
    mset = [_u(x) for x in _strip(mm["set"].body)]
    want = ["arr = np.asarray(values, dtype=np.float64)",
            None, None, "self._values = arr.copy()"]
    ok = len(mset) == 4 and mset[0] == want[0] and mset[3] == want[3] \
        and mset[1].startswith("if arr.shape != self._shape:\n    raise ShapeMismatchError(") \
        and mset[2].startswith("if self._symmetric:\n    if not np.allclose(arr, arr.T, rtol=1e-10, atol=1e-14):\n        raise SymmetryError(")
    if not ok:
        raise TranslateError(f"MatrixParameter.set: {[x[:70] for x in mset]}")
    out += ["/-- `MatrixParameter.set(values)`: `none` = ShapeMismatchError / SymmetryError (nothing changed); `some src` = ends with",
            "    `self._values = src` (a private float64 COPY of the new array) -/",
            "def matrixParamSetG (shapeOk symmetricFlag isSymmetric : Bool) : Option String :=",
            "  if !shapeOk then none else if symmetricFlag && !isSymmetric then none else some \"np.asarray(values, dtype=np.float64).copy()\""]
    return "\n".join(out) + "\n"


if __name__ == "__main__":
    import sys
    print(gen_param_class(ast.parse(open(sys.argv[1] + "/core/parameters.py").read())))
