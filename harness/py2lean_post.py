"""py2lean_post — translation of the *post-processing* of `solve_scipy` (solvers/scipy_solver.py) into Lean functions.

Everything `solve_scipy` does between the return of `scipy.optimize.minimize` and the `Solution(...)` it builds is
straight-line code over numbers, booleans and strings with two flag-setting loops:

    atol / rtol                      -> postAtolG, postRtolG
    accepted_point                   -> acceptedG
    the constraint loop              -> conLoopGuardG, conViolatedG        (does one iteration set `constraints_violated`?)
    the bounds loop                  -> bndLoopGuardG, bndViolatedG
    the SLSQP -> trust-constr retry  -> retryG, retryKwargsG
    the status chain                 -> statusG
    the reported objective value     -> objValueG

The segment is translated *statement by statement*: every top-level statement between `solve_time = …` and the
message / `return Solution(...)` tail must be consumed by one of the rules below, otherwise TranslateError (a broken
tie, reported for the properties whose theorems stand on `Generated/ScipyPost.lean`).  Expressions are compiled by a
small typed expression compiler (Rat / Bool / Str / OptRat); names are bound by their source text.

`Props/SolveTie.lean` proves that the hand-written `Py.Solve.conViolated`, `bndViolated`, `accepted`, `violatedAt`,
`statusOf`, `postPass`, `finish` — the functions C06 / C07 are about — are these functions.
"""
from __future__ import annotations

import ast
import json


class TranslateError(Exception):
    pass


def _u(n) -> str:
    return ast.unparse(n)


def lean_rat(v) -> str:
    if isinstance(v, bool):
        raise TranslateError("bool where a number is expected")
    if isinstance(v, int):
        return f"({v} : Rat)"
    n, d = float(v).as_integer_ratio()
    if d == 1:
        return f"({n} : Rat)"
    return f"(({n} : Rat) / {d})"


DIAGNOSTIC = {"max_violation", "violation"}      # only feed the text of the retry warning


class Ex:
    """typed expression compiler; env: source text -> (lean term, type)"""

    def __init__(self, where: str):
        self.where = where

    def fail(self, node, why="unsupported expression"):
        raise TranslateError(f"{self.where}: {why}: {_u(node)!r} (line {getattr(node, 'lineno', '?')})")

    def ex(self, n: ast.AST, env: dict) -> tuple[str, str]:
        key = _u(n)
        if key in env:
            return env[key]
        if isinstance(n, ast.Constant):
            if isinstance(n.value, bool):
                return ("true" if n.value else "false", "Bool")
            if isinstance(n.value, (int, float)):
                return (lean_rat(n.value), "Rat")
            if isinstance(n.value, str):
                return (json.dumps(n.value), "Str")
            self.fail(n)
        if isinstance(n, ast.Name):
            if n.id in DIAGNOSTIC:
                self.fail(n, "a diagnostic variable is read by translated code")
            self.fail(n, "unbound name")
        if isinstance(n, ast.UnaryOp):
            t, ty = self.ex(n.operand, env)
            if isinstance(n.op, ast.USub) and ty == "Rat":
                return (f"(-{t})", "Rat")
            if isinstance(n.op, ast.Not) and ty == "Bool":
                return (f"(!{t})", "Bool")
            self.fail(n)
        if isinstance(n, ast.BinOp) and type(n.op) in (ast.Add, ast.Sub, ast.Mult, ast.Div):
            (a, ta), (b, tb) = self.ex(n.left, env), self.ex(n.right, env)
            if ta != "Rat" or tb != "Rat":
                self.fail(n, f"arithmetic on {ta} / {tb}")
            o = {ast.Add: "+", ast.Sub: "-", ast.Mult: "*", ast.Div: "/"}[type(n.op)]
            return (f"({a} {o} {b})", "Rat")
        if isinstance(n, ast.Call) and not n.keywords:
            f = _u(n.func)
            if f == "abs" and len(n.args) == 1:
                t, ty = self.ex(n.args[0], env)
                if ty != "Rat":
                    self.fail(n)
                return (f"(postAbs {t})", "Rat")
            if f in ("max", "min") and len(n.args) == 2:
                (a, ta), (b, tb) = self.ex(n.args[0], env), self.ex(n.args[1], env)
                if ta != "Rat" or tb != "Rat":
                    self.fail(n)
                return (f"({'postMax' if f == 'max' else 'postMin'} {a} {b})", "Rat")
            if f == "float" and len(n.args) == 1:
                t, ty = self.ex(n.args[0], env)
                if ty != "Rat":
                    self.fail(n)
                return (t, "Rat")
            self.fail(n)
        if isinstance(n, ast.Compare) and len(n.ops) == 1:
            l, r, o = n.left, n.comparators[0], n.ops[0]
            if isinstance(o, ast.In):
                # "<literal>" in <lower-cased message>
                if isinstance(l, ast.Constant) and isinstance(l.value, str) and env.get(_u(r), ("", ""))[1] == "Msg":
                    return (f"(has {json.dumps(l.value)})", "Bool")
                self.fail(n, "substring test outside the message")
            (a, ta), (b, tb) = self.ex(l, env), self.ex(r, env)
            if ta != tb:
                self.fail(n, f"comparison of {ta} with {tb}")
            if ta == "Rat" and type(o) in (ast.Lt, ast.Gt, ast.LtE, ast.GtE, ast.Eq, ast.NotEq):
                s = {ast.Lt: "<", ast.Gt: ">", ast.LtE: "≤", ast.GtE: "≥", ast.Eq: "=", ast.NotEq: "≠"}[type(o)]
                return (f"(decide ({a} {s} {b}))", "Bool")
            if ta == "Str" and isinstance(o, (ast.Eq, ast.NotEq)):
                return (f"({a} == {b})" if isinstance(o, ast.Eq) else f"({a} != {b})", "Bool")
            self.fail(n)
        if isinstance(n, ast.BoolOp):
            return (self.boolop(n.values, isinstance(n.op, ast.And), env, n), "Bool")
        self.fail(n)

    def boolop(self, values, is_and: bool, env: dict, whole) -> str:
        v, rest = values[0], values[1:]
        # `np.isfinite(b) and REST`: REST sees b as a number
        if is_and and isinstance(v, ast.Call) and _u(v.func) == "np.isfinite" and len(v.args) == 1:
            t, ty = self.ex(v.args[0], env)
            if ty == "OptRat":
                if not rest:
                    return f"({t}).isSome"
                inner = dict(env)
                inner[_u(v.args[0])] = (f"{t}_fin", "Rat")
                return f"(match {t} with | some {t}_fin => {self.boolop(rest, True, inner, whole)} | none => false)"
            self.fail(v, "np.isfinite of something that is not a bound")
        t, ty = self.ex(v, env)
        if ty == "Truthy":          # truthiness of a list: non-empty
            ty = "Bool"
        if ty != "Bool":
            self.fail(v, f"{ty} used as a condition")
        if not rest:
            return t
        return f"({t} {'&&' if is_and else '||'} {self.boolop(rest, is_and, env, whole)})"

    def cond(self, n, env) -> str:
        t, ty = self.ex(n, env)
        if ty == "Truthy":
            ty = "Bool"
        if ty != "Bool":
            self.fail(n, f"{ty} used as a condition")
        return t


def flag_term(c: Ex, stmts: list[ast.stmt], env: dict, flag: str) -> str:
    """Bool term: does executing `stmts` execute `<flag> = True`?  Locals become `let`s; assignments to the
    diagnostic variables are skipped (their reads are rejected by the expression compiler)."""
    if not stmts:
        return "false"
    st, rest = stmts[0], stmts[1:]
    if isinstance(st, ast.Assign) and len(st.targets) == 1 and isinstance(st.targets[0], ast.Name):
        nm = st.targets[0].id
        if nm == flag:
            if _u(st.value) != "True":
                raise TranslateError(f"{c.where}: `{flag}` assigned {_u(st.value)!r} inside a loop")
            return "true"
        if nm in DIAGNOSTIC:
            return flag_term(c, rest, env, flag)
        t, ty = c.ex(st.value, env)
        lty = {"Rat": "Rat", "Bool": "Bool", "Str": "String"}.get(ty)
        if lty is None:
            raise TranslateError(f"{c.where}: local {nm} of type {ty}")
        inner = dict(env)
        inner[nm] = (nm, ty)
        return f"(let {nm} : {lty} := {t}; {flag_term(c, rest, inner, flag)})"
    if isinstance(st, ast.If):
        a = f"(if {c.cond(st.test, env)} then {flag_term(c, st.body, env, flag)} else {flag_term(c, st.orelse, env, flag)})"
        r = flag_term(c, rest, env, flag)
        return a if r == "false" else f"({a} || {r})"
    raise TranslateError(f"{c.where}: statement {_u(st)[:70]!r}")


def find_func(tree: ast.AST, name: str) -> ast.FunctionDef:
    for n in ast.walk(tree):
        if isinstance(n, ast.FunctionDef) and n.name == name:
            return n
    raise TranslateError(f"function {name} not found")


def post_segment(fn: ast.FunctionDef) -> tuple[int, int]:
    """indices [a, b) of the top-level statements of solve_scipy that form the translated segment: from the first
    statement after `solve_time = …` that follows the `try`, up to (excluding) `message = …`"""
    body = fn.body
    it = next((i for i, st in enumerate(body) if isinstance(st, ast.Try)), None)
    if it is None:
        raise TranslateError("solve_scipy: no try statement")
    a = it + 1
    if a < len(body) and _u(body[a]).startswith("solve_time ="):
        a += 1
    b = next((i for i in range(a, len(body)) if isinstance(body[i], ast.Assign) and _u(body[i].targets[0]) == "message"), None)
    if b is None:
        raise TranslateError("solve_scipy: `message = …` (start of the tail) not found")
    return a, b


def gen_scipy_post(sc: ast.AST) -> str:
    fn = find_func(sc, "solve_scipy")
    a, b = post_segment(fn)
    seg = fn.body[a:b]
    c = Ex("solve_scipy post-processing")
    out: list[str] = []
    done: set[str] = set()
    # names of the enclosing function that the segment may read
    base = {"tol": ("tol", "OptRat"), "method": ("method", "Str"), "result.success": ("success", "Bool"),
            "scipy_constraints": ("hasCons", "Truthy")}
    msg_names = {"result.message.lower()", "str(result.message).lower()"}
    env = dict(base)
    for m in msg_names:
        env[m] = ("msg", "Msg")
    i = 0
    status_assigned = False
    while i < len(seg):
        st = seg[i]
        u = _u(st)
        tgt = _u(st.targets[0]) if isinstance(st, ast.Assign) and len(st.targets) == 1 else None
        # ---- atol = tol if tol is not None else <lit>
        if tgt == "atol":
            v = st.value
            if not (isinstance(v, ast.IfExp) and _u(v.test) == "tol is not None" and _u(v.body) == "tol"
                    and isinstance(v.orelse, ast.Constant) and isinstance(v.orelse.value, float)):
                raise TranslateError(f"solve_scipy: {u!r}")
            out += ["/-- `atol = tol if tol is not None else <default>` -/",
                    f"def postAtolG (tol : Option Rat) : Rat := match tol with | some t => t | none => {lean_rat(v.orelse.value)}"]
            env["atol"] = ("atol", "Rat")
            done.add("atol")
        elif tgt == "rtol":
            if not (isinstance(st.value, ast.Constant) and isinstance(st.value.value, float)):
                raise TranslateError(f"solve_scipy: {u!r}")
            out += [f"def postRtolG : Rat := {lean_rat(st.value.value)}"]
            env["rtol"] = ("rtol", "Rat")
            done.add("rtol")
        elif tgt == "constraints_violated":
            if u != "constraints_violated = False" or "violated_init" in done:
                raise TranslateError(f"solve_scipy: {u!r} at top level")
            done.add("violated_init")
        elif tgt in DIAGNOSTIC:
            pass
        elif tgt == "message_lower":
            if _u(st.value) not in msg_names:
                raise TranslateError(f"solve_scipy: {u!r}")
            env["message_lower"] = ("msg", "Msg")
        elif tgt == "accepted_point":
            out += ["/-- `accepted_point` (`has s` = `s in str(result.message).lower()`) -/",
                    f"def acceptedG (success : Bool) (has : String → Bool) : Bool := {c.cond(st.value, env)}"]
            env["accepted_point"] = ("accepted", "Bool")
            done.add("accepted")
        # ---- the two loops
        elif isinstance(st, ast.If) and not st.orelse and len(st.body) == 1 and isinstance(st.body[0], ast.For):
            loop = st.body[0]
            if loop.orelse or "violated_init" not in done:
                raise TranslateError("solve_scipy: loop with else / before the flag is initialised")
            if _u(loop.target) == "c" and _u(loop.iter) == "scipy_constraints":
                lenv = dict(env)
                lenv["c['fun'](result.x)"] = ("fval", "Rat")
                lenv["c['type']"] = ("ctype", "Str")
                out += ["/-- guard of the constraint loop -/",
                        f"def conLoopGuardG (accepted hasCons : Bool) : Bool := {c.cond(st.test, env)}",
                        "/-- one iteration of the constraint loop: is `constraints_violated` set?  (`ctype` = `c[\"type\"]`,",
                        "    `fval` = `c[\"fun\"](result.x)`) -/",
                        "def conViolatedG (atol rtol : Rat) (ctype : String) (fval : Rat) : Bool :=",
                        "  " + flag_term(c, loop.body, lenv, "constraints_violated")]
                done.add("conloop")
            elif _u(loop.target) == "(i, (lb_i, ub_i))" and _u(loop.iter) == "enumerate(bounds)":
                lenv = dict(env)
                lenv["lb_i"] = ("lb_i", "OptRat")
                lenv["ub_i"] = ("ub_i", "OptRat")
                lenv["result.x[i]"] = ("xi", "Rat")
                out += ["/-- guard of the bounds loop -/",
                        f"def bndLoopGuardG (accepted : Bool) : Bool := {c.cond(st.test, env)}",
                        "/-- one iteration of the bounds loop (`none` = a bound that is not finite) -/",
                        "def bndViolatedG (atol rtol : Rat) (lb_i ub_i : Option Rat) (xi : Rat) : Bool :=",
                        "  " + flag_term(c, loop.body, lenv, "constraints_violated")]
                done.add("bndloop")
            else:
                raise TranslateError(f"solve_scipy: unknown loop `for {_u(loop.target)} in {_u(loop.iter)}`")
        # ---- retry
        elif isinstance(st, ast.If) and not st.orelse and isinstance(st.body[-1], ast.Return) \
                and isinstance(st.body[-1].value, ast.Call) and _u(st.body[-1].value.func) == "solve_scipy":
            if not {"conloop", "bndloop"} <= done:
                raise TranslateError("solve_scipy: the retry precedes a feasibility loop")
            for s in st.body[:-1]:
                if not (isinstance(s, ast.Expr) and isinstance(s.value, ast.Call) and _u(s.value.func) == "warnings.warn"):
                    raise TranslateError(f"solve_scipy: statement in the retry branch {_u(s)[:60]!r}")
            renv = dict(env)
            renv["constraints_violated"] = ("violated", "Bool")
            call = st.body[-1].value
            if call.args:
                raise TranslateError("solve_scipy: positional arguments in the retry call")
            kws = [(k.arg if k.arg is not None else "**", _u(k.value)) for k in call.keywords]
            out += ["/-- the SLSQP → trust-constr retry is taken -/",
                    f"def retryG (violated : Bool) (method : String) : Bool := {c.cond(st.test, renv)}",
                    "/-- keyword arguments of the recursive call -/",
                    "def retryKwargsG : List (String × String) := ["
                    + ", ".join(f"({json.dumps(k)}, {json.dumps(v)})" for k, v in kws) + "]"]
            done.add("retry")
        # ---- status chain
        elif isinstance(st, ast.If) and _u(st.body[0]).startswith("status = SolverStatus."):
            if "retry" not in done:
                raise TranslateError("solve_scipy: the status chain precedes the retry")
            senv = dict(env)
            senv["constraints_violated"] = ("violated", "Bool")

            def chain(node) -> str:
                def leaf(stmts):
                    if len(stmts) != 1 or not _u(stmts[0]).startswith("status = SolverStatus."):
                        raise TranslateError(f"solve_scipy: status branch {[_u(x)[:50] for x in stmts]}")
                    return json.dumps(_u(stmts[0].value).split(".")[-1])
                t = c.cond(node.test, senv)
                if len(node.orelse) == 1 and isinstance(node.orelse[0], ast.If):
                    e = chain(node.orelse[0])
                elif node.orelse:
                    e = leaf(node.orelse)
                else:
                    raise TranslateError("solve_scipy: status chain without else")
                return f"if {t} then {leaf(node.body)}\n  else {e}"
            out += ["/-- the status chain (names of `SolverStatus` members) -/",
                    "def statusG (success violated : Bool) (has : String → Bool) : String :=",
                    "  " + chain(st)]
            status_assigned = True
            done.add("status")
        # ---- objective value
        elif tgt == "obj_value":
            if u != "obj_value = float(result.fun)" or i + 1 >= len(seg):
                raise TranslateError(f"solve_scipy: {u!r}")
            nx = seg[i + 1]
            if not (isinstance(nx, ast.If) and not nx.orelse and _u(nx.test) == "problem.sense == 'maximize'"
                    and len(nx.body) == 1 and isinstance(nx.body[0], ast.Assign) and _u(nx.body[0].targets[0]) == "obj_value"):
                raise TranslateError(f"solve_scipy: statement after obj_value {_u(nx)[:80]!r}")
            oenv = {"obj_value": ("fn", "Rat")}
            t, ty = c.ex(nx.body[0].value, oenv)
            out += ["/-- the reported objective value -/",
                    f"def objValueG (maximize : Bool) (fn : Rat) : Rat := if maximize then {t} else fn"]
            done.add("obj")
            i += 1
        else:
            raise TranslateError(f"solve_scipy: untranslated statement in the post-processing segment: {u[:90]!r}")
        i += 1
    need = {"atol", "rtol", "violated_init", "accepted", "conloop", "bndloop", "retry", "status", "obj"}
    if not need <= done or not status_assigned:
        raise TranslateError(f"solve_scipy: post-processing parts missing: {sorted(need - done)}")
    # the tail: what the Solution is built from
    tail = fn.body[b:]
    ret = tail[-1]
    if not (isinstance(ret, ast.Return) and isinstance(ret.value, ast.Call) and _u(ret.value.func) == "Solution"):
        raise TranslateError("solve_scipy: last statement is not `return Solution(...)`")
    kws = [(k.arg, _u(k.value)) for k in ret.value.keywords]
    out += ["/-- keyword arguments of the final `Solution(...)` -/",
            "def solutionKwargsG : List (String × String) := ["
            + ", ".join(f"({json.dumps(k)}, {json.dumps(v)})" for k, v in kws) + "]"]
    return "\n".join(out) + "\n"


def fn_term(c: Ex, stmts: list[ast.stmt], env: dict, want: str) -> str:
    """a function body of local assignments, if / elif / else chains and returns -> one Lean term of type `want`"""
    if not stmts:
        raise TranslateError(f"{c.where}: a path falls off the end of the function")
    st, rest = stmts[0], stmts[1:]
    if isinstance(st, ast.Expr) and isinstance(st.value, ast.Constant) and isinstance(st.value.value, str):
        return fn_term(c, rest, env, want)
    if isinstance(st, ast.Return) and st.value is not None:
        t, ty = c.ex(st.value, env)
        if ty != want:
            raise TranslateError(f"{c.where}: returns {ty}, {want} expected: {_u(st)!r}")
        return t
    if isinstance(st, ast.Assign) and len(st.targets) == 1 and isinstance(st.targets[0], ast.Name):
        t, ty = c.ex(st.value, env)
        lty = {"Rat": "Rat", "Bool": "Bool", "Str": "String"}.get(ty)
        if lty is None:
            raise TranslateError(f"{c.where}: local of type {ty}")
        inner = dict(env)
        inner[st.targets[0].id] = (st.targets[0].id, ty)
        return f"(let {st.targets[0].id} : {lty} := {t}; {fn_term(c, rest, inner, want)})"
    if isinstance(st, ast.If):
        orelse = st.orelse if st.orelse else rest
        if st.orelse and rest:
            raise TranslateError(f"{c.where}: statements after an if/else whose branches return")
        return f"(if {c.cond(st.test, env)} then {fn_term(c, st.body, env, want)} else {fn_term(c, orelse, env, want)})"
    raise TranslateError(f"{c.where}: statement {_u(st)[:70]!r}")


def gen_constraint(cons: ast.AST) -> str:
    """`Constraint.violation`, `is_satisfied`, the admissible senses of `__post_init__` and the text of `evaluate`"""
    cls = next((n for n in ast.walk(cons) if isinstance(n, ast.ClassDef) and n.name == "Constraint"), None)
    if cls is None:
        raise TranslateError("class Constraint not found")
    meth = {n.name: n for n in cls.body if isinstance(n, ast.FunctionDef)}
    for nm in ("__post_init__", "evaluate", "violation", "is_satisfied"):
        if nm not in meth:
            raise TranslateError(f"Constraint.{nm} not found")
    out = []
    # violation
    c = Ex("Constraint.violation")
    v = meth["violation"]
    env = {"self.evaluate(point)": ("value", "Rat"), "self.sense": ("sense", "Str")}
    out += ["/-- `Constraint.violation(point)` as a function of `self.sense` and of `self.evaluate(point)` -/",
            "def violationG (sense : String) (value : Rat) : Rat :=",
            "  " + fn_term(c, v.body, env, "Rat")]
    # is_satisfied
    c = Ex("Constraint.is_satisfied")
    f = meth["is_satisfied"]
    args = [a.arg for a in f.args.args]
    if args != ["self", "point", "tol"] or len(f.args.defaults) != 1 or not isinstance(f.args.defaults[0], ast.Constant):
        raise TranslateError(f"Constraint.is_satisfied: signature {args}")
    env = {"self.violation(point)": ("violation", "Rat"), "tol": ("tol", "Rat")}
    out += ["/-- `Constraint.is_satisfied(point, tol)` as a function of `self.violation(point)` -/",
            "def isSatisfiedG (violation tol : Rat) : Bool :=",
            "  " + fn_term(c, f.body, env, "Bool"),
            f"def isSatisfiedDefaultTolG : Rat := {lean_rat(f.args.defaults[0].value)}"]
    # __post_init__: `if self.sense not in (...): raise`
    b = [st for st in meth["__post_init__"].body if not (isinstance(st, ast.Expr) and isinstance(st.value, ast.Constant))]
    if not (len(b) == 1 and isinstance(b[0], ast.If) and not b[0].orelse and isinstance(b[0].test, ast.Compare)
            and _u(b[0].test.left) == "self.sense" and isinstance(b[0].test.ops[0], ast.NotIn)
            and len(b[0].body) == 1 and isinstance(b[0].body[0], ast.Raise)):
        raise TranslateError(f"Constraint.__post_init__: {[_u(x)[:60] for x in b]}")
    senses = list(ast.literal_eval(b[0].test.comparators[0]))
    out += ["/-- the senses `__post_init__` accepts -/",
            "def constraintSensesG : List String := [" + ", ".join(json.dumps(x) for x in senses) + "]"]
    ev = [st for st in meth["evaluate"].body if not (isinstance(st, ast.Expr) and isinstance(st.value, ast.Constant))]
    out += ["def constraintEvaluateTextG : String := " + json.dumps("; ".join(_u(x) for x in ev))]
    if "get_variables" not in meth:
        raise TranslateError("Constraint.get_variables not found")
    gv = [st for st in meth["get_variables"].body if not (isinstance(st, ast.Expr) and isinstance(st.value, ast.Constant))]
    out += ["/-- `Constraint.get_variables()`: the variables of the normalised expression, by the recursive collector -/",
            "def constraintGetVariablesTextG : String := " + json.dumps("; ".join(_u(x) for x in gv))]
    return "\n".join(out) + "\n"


def gen_hook_shape(sc: ast.AST) -> str:
    """the `warnings.showwarning` discipline of `solve_scipy` as a small program: which statements capture, install and
    restore the hook, inside which part of the try / except / finally around the `minimize` call"""
    fn = find_func(sc, "solve_scipy")
    it = next((i for i, st in enumerate(fn.body) if isinstance(st, ast.Try)), None)
    if it is None:
        raise TranslateError("solve_scipy: no try statement")
    tr = fn.body[it]
    HOOK = "warnings.showwarning"
    captured: list[str] = []

    def mentions_hook(st) -> bool:
        return any(isinstance(n, ast.Attribute) and _u(n) == HOOK for n in ast.walk(st))

    def classify(st, allow_other_calls=False) -> str:
        if isinstance(st, ast.Assign) and len(st.targets) == 1:
            t, v = _u(st.targets[0]), _u(st.value)
            if v == HOOK and isinstance(st.targets[0], ast.Name):
                captured.append(t)
                return "capture"
            if t == HOOK:
                return "restore" if v in captured else "install"
            if isinstance(st.value, ast.Call) and _u(st.value.func) == "minimize":
                return "solverCall"
        if isinstance(st, ast.Return) and isinstance(st.value, ast.Call) and _u(st.value.func) == "Solution" \
                and any(k.arg == "status" and _u(k.value) == "SolverStatus.FAILED" for k in st.value.keywords):
            if any(isinstance(n, ast.Call) and _u(n.func) not in ("Solution", "str", "time.perf_counter") for n in ast.walk(st)):
                raise TranslateError(f"solve_scipy: call inside the FAILED return {_u(st)[:80]!r}")
            return "returnFailed"
        if mentions_hook(st):
            raise TranslateError(f"solve_scipy: statement touches warnings.showwarning in an unknown way: {_u(st)[:80]!r}")
        if not allow_other_calls and any(isinstance(n, ast.Call) for n in ast.walk(st)):
            raise TranslateError(f"solve_scipy: a call inside the try / except / finally that is not the solver call: {_u(st)[:80]!r}")
        return "other"

    pre = []
    for st in fn.body[:it]:
        if isinstance(st, (ast.FunctionDef,)):
            continue
        if mentions_hook(st):
            pre.append(classify(st, allow_other_calls=True))
    body = [classify(st) for st in tr.body if not (isinstance(st, ast.Expr) and isinstance(st.value, ast.Constant))]
    handlers = []
    for h in tr.handlers:
        cls = _u(h.type) if h.type is not None else "BaseException"
        handlers.append((cls, [classify(st) for st in h.body]))
    if tr.orelse:
        raise TranslateError("solve_scipy: try … else")
    final = [classify(st) for st in tr.finalbody]
    post_touch = [_u(st)[:60] for st in fn.body[it + 1:] if mentions_hook(st)]
    if post_touch:
        raise TranslateError(f"solve_scipy: warnings.showwarning is touched after the try statement: {post_touch}")
    lst = lambda xs: "[" + ", ".join("." + x for x in xs) + "]"
    out = ["/-- what a statement does to `warnings.showwarning` -/",
           "inductive HStmtG | capture | install | solverCall | restore | returnFailed | other",
           "  deriving DecidableEq, Repr",
           "/-- the hook discipline of `solve_scipy`: statements touching the hook before the `try`, then the try body, the handlers",
           "    (exception class, body) and the `finally` body -/",
           f"def hookPreG : List HStmtG := {lst(pre)}",
           f"def hookTryG : List HStmtG := {lst(body)}",
           "def hookHandlersG : List (String × List HStmtG) := [" + ", ".join(f"({json.dumps(c)}, {lst(b)})" for c, b in handlers) + "]",
           f"def hookFinallyG : List HStmtG := {lst(final)}"]
    return "\n".join(out) + "\n"


def gen_limit_shape(ad: ast.AST, repo_src: str) -> str:
    """`increased_recursion_limit` (core/autodiff.py) in the same vocabulary (capture / install / body / restore), and the
    list of ALL sites of the package that write process-global interpreter state"""
    import os
    fn = find_func(ad, "increased_recursion_limit")
    body = [st for st in fn.body if not (isinstance(st, ast.Expr) and isinstance(st.value, ast.Constant))]
    if len(body) != 2 or not isinstance(body[1], ast.Try):
        raise TranslateError(f"increased_recursion_limit: body {[_u(x)[:50] for x in body]}")
    cap, tr = body
    if not (isinstance(cap, ast.Assign) and _u(cap.value) == "sys.getrecursionlimit()" and isinstance(cap.targets[0], ast.Name)):
        raise TranslateError(f"increased_recursion_limit: {_u(cap)!r}")
    saved = cap.targets[0].id

    def cls(st):
        u = _u(st)
        if u == f"sys.setrecursionlimit({saved})":
            return "restore"
        if isinstance(st, ast.Expr) and isinstance(st.value, ast.Call) and _u(st.value.func) == "sys.setrecursionlimit":
            return "install"
        if isinstance(st, ast.Expr) and isinstance(st.value, ast.Yield):
            return "solverCall"       # the body of the `with` block: returns or raises anything
        raise TranslateError(f"increased_recursion_limit: statement {u[:70]!r}")
    if tr.orelse:
        raise TranslateError("increased_recursion_limit: try … else")
    t = [cls(s) for s in tr.body]
    hs = [((_u(h.type) if h.type is not None else "BaseException"), [cls(s) for s in h.body]) for h in tr.handlers]
    f = [cls(s) for s in tr.finalbody]
    lst = lambda xs: "[" + ", ".join("." + x for x in xs) + "]"
    # every site of the package that writes interpreter-wide state
    sites = []
    for root, _, files in sorted(os.walk(repo_src)):
        for fnm in sorted(files):
            if not fnm.endswith(".py"):
                continue
            path = os.path.join(root, fnm)
            tree = ast.parse(open(path).read())
            rel = os.path.relpath(path, repo_src)
            for top in ast.walk(tree):
                if isinstance(top, (ast.FunctionDef, ast.AsyncFunctionDef)):
                    for n in ast.walk(top):
                        what = None
                        if isinstance(n, ast.Call) and _u(n.func) in ("sys.setrecursionlimit", "np.seterr", "numpy.seterr",
                                                                      "warnings.simplefilter", "warnings.filterwarnings",
                                                                      "warnings.resetwarnings", "np.seterrcall"):
                            what = _u(n.func)
                        if isinstance(n, (ast.Assign, ast.AugAssign)):
                            tg = n.targets[0] if isinstance(n, ast.Assign) else n.target
                            if _u(tg) in ("warnings.showwarning", "warnings.filters", "sys.excepthook"):
                                what = _u(tg) + " ="
                        if what and not any(isinstance(m, (ast.FunctionDef, ast.AsyncFunctionDef)) and m is not top and n in list(ast.walk(m))
                                            for m in ast.walk(top)):
                            sites.append(f"{rel}:{top.name}:{what}")
    sites = sorted(set(sites))
    out = ["/-- `increased_recursion_limit`: the statement capturing the old limit, then try body / handlers / finally -/",
           "def limitPreG : List HStmtG := [.capture]",
           f"def limitTryG : List HStmtG := {lst(t)}",
           "def limitHandlersG : List (String × List HStmtG) := [" + ", ".join(f"({json.dumps(c)}, {lst(b)})" for c, b in hs) + "]",
           f"def limitFinallyG : List HStmtG := {lst(f)}",
           "/-- every function of the package that writes interpreter-wide state (file:function:what) -/",
           "def globalStateSitesG : List String := [" + ", ".join(json.dumps(x) for x in sites) + "]"]
    return "\n".join(out) + "\n"


if __name__ == "__main__":
    import sys
    print(gen_scipy_post(ast.parse(open(sys.argv[1]).read())))
