"""py2lean_scaled — `_is_scaled_variable_pattern` (core/autodiff.py), the test that lets `compile_jacobian` replace a single row
`[c*x_0, …, c*x_{n-1}]` by the closure `lambda x: c * x`: the loop body is translated into

  scaledEntryG e var   the scale `c` if `e` is `Constant(c) * var` or `var * Constant(c)` with `var` BEING the declared variable
                       object (`is`), else none (= `return None`)
  scaledAccG scale c   the accumulator update: first scale is kept, a different later one aborts

and the frame (length guard, `scale = None`, `zip`, the final `(scale, True) if scale is not None else None`) is checked.
`Props/ScaledTie.lean`: the model's `scaledEntry` / `scaledLoop` / `scaledPattern` (what `C03.compileJacobian_entries` uses for the
scaled-variable path) are these.
"""
from __future__ import annotations

import ast

from py2lean import TranslateError


def _u(n):
    return ast.unparse(n)


def _strip(stmts):
    return [s for s in stmts if not (isinstance(s, ast.Expr) and isinstance(s.value, ast.Constant))
            and not isinstance(s, (ast.Import, ast.ImportFrom))]


SIDE = {"left": "l", "right": "r"}


def entry_branch(test, body, where):
    """`isinstance(expr.<a>, Constant) and expr.<b> is var` with body `c = expr.<a>.value` -> (a, b)"""
    if not (isinstance(test, ast.BoolOp) and isinstance(test.op, ast.And) and len(test.values) == 2):
        raise TranslateError(f"{where}: unexpected test {_u(test)[:80]!r}")
    t0, t1 = _u(test.values[0]), _u(test.values[1])
    for a, b in (("left", "right"), ("right", "left")):
        if t0 == f"isinstance(expr.{a}, Constant)" and t1 == f"expr.{b} is var":
            if [_u(s) for s in _strip(body)] != [f"c = expr.{a}.value"]:
                raise TranslateError(f"{where}: the branch does not read the scale from the constant operand: {[_u(s) for s in body]}")
            return a, b
    raise TranslateError(f"{where}: unexpected test {_u(test)[:80]!r}")


def gen_scaled(ad: ast.AST) -> str:
    where = "_is_scaled_variable_pattern"
    fn = next((n for n in ast.walk(ad) if isinstance(n, ast.FunctionDef) and n.name == where), None)
    if fn is None:
        raise TranslateError(f"{where} not found")
    body = _strip(fn.body)
    if len(body) != 4 or _u(body[0]) != "if len(jacobian_row) != len(variables):\n    return None" or _u(body[1]) != "scale = None" \
            or not isinstance(body[2], ast.For) or _u(body[3]) != "return (scale, True) if scale is not None else None":
        raise TranslateError(f"{where}: frame changed: {[_u(s)[:60] for s in body]}")
    loop = body[2]
    if _u(loop.target) != "(i, (expr, var))" or _u(loop.iter) != "enumerate(zip(jacobian_row, variables))" or loop.orelse:
        raise TranslateError(f"{where}: loop header changed: for {_u(loop.target)} in {_u(loop.iter)}")
    lb = _strip(loop.body)
    if len(lb) != 1 or not isinstance(lb[0], ast.If) or _u(lb[0].test) != "isinstance(expr, BinaryOp) and expr.op == '*'" \
            or [_u(s) for s in _strip(lb[0].orelse)] != ["return None"]:
        raise TranslateError(f"{where}: the loop body is not `if isinstance(expr, BinaryOp) and expr.op == '*': … else: return None`")
    inner = _strip(lb[0].body)
    if len(inner) != 2 or not all(isinstance(s, ast.If) for s in inner):
        raise TranslateError(f"{where}: the product branch has {len(inner)} statements")
    pick, acc = inner
    # pick: if A: c = …  elif B: c = …  else: return None
    branches = []
    cur = pick
    while True:
        branches.append(entry_branch(cur.test, cur.body, where))
        rest = _strip(cur.orelse)
        if len(rest) == 1 and isinstance(rest[0], ast.If):
            cur = rest[0]
            continue
        if [_u(s) for s in rest] != ["return None"]:
            raise TranslateError(f"{where}: the operand tests do not end in `else: return None`")
        break
    term = "none"
    for a, b in reversed(branches):
        ca, wb = f"c_{SIDE[a]}", f"w_{SIDE[b]}"
        pats = {a: f".const {ca}", b: f".var {wb}"}
        term = (f"(match l, r with | {pats['left']}, {pats['right']} => if {wb} == var then some {ca} else {term} "
                f"| _, _ => {term})")
    if _u(acc) != "if scale is None:\n    scale = c\nelif scale != c:\n    return None":
        raise TranslateError(f"{where}: accumulator update changed: {_u(acc)[:100]!r}")
    out = ["/-- one iteration of `_is_scaled_variable_pattern`: the scale of the entry, `none` = `return None` -/",
           "def scaledEntryG (e : Expr) (var : Var) : Option Cst :=",
           "  match e with",
           f"  | .bin .mul l r => {term}",
           "  | _ => none",
           "/-- the accumulator update: `none` = `return None` (a different scale), `some s` = the new `scale` -/",
           "def scaledAccG (scale : Option Cst) (c : Cst) : Option (Option Cst) :=",
           "  match scale with",
           "  | none => some (some c)",
           "  | some s => if s != c then none else some (some s)",
           "/-- the frame (checked): length guard, `scale = None`, the zip loop, `(scale, True) if scale is not None else None` -/",
           "def scaledFrameG : List String := [\"if len(jacobian_row) != len(variables): return None\", \"scale = None\", "
           "\"for i, (expr, var) in enumerate(zip(jacobian_row, variables))\", \"return (scale, True) if scale is not None else None\"]"]
    return "\n".join(out) + "\n"


if __name__ == "__main__":
    import sys
    print(gen_scaled(ast.parse(open(sys.argv[1] + "/core/autodiff.py").read())))
