#!/usr/bin/env python3
"""AST-level translator:  /repo source  ->  lean/Optyx/Generated/*.lean

Run before every build.  It reads the *current* optyx sources with `ast`
(never imports them) and regenerates

  Generated/GradRules.lean   the derivative rule templates of
                             `_gradient_cached` and `_gradient_iterative`
                             (one closed Lean term per operator), and the six
                             `_simplify_*` helpers with `_is_zero`/`_is_one`
  Generated/Tables.lean      operator tables, thresholds, method sets, status maps

so that the Lean theorems about `Py.grad` etc. are re-checked by the kernel
against the rules the source contains *now*.  Anything outside the whitelisted
Python subset raises TranslateError (= broken correspondence, handled by the
caller as such; it is never silently skipped).

Usage: gen_tables.py <repo_root> <out_dir>      (exit 0 ok, 3 translate error)
"""
from __future__ import annotations
import ast, sys, os, json, hashlib, re

class TranslateError(Exception):
    pass

BINOPS = {"+": "add", "-": "sub", "*": "mul", "/": "div", "**": "pow"}
AST_BIN = {ast.Add: "add", ast.Sub: "sub", ast.Mult: "mul", ast.Div: "div", ast.Pow: "pow"}
UNOPS = ["neg", "abs", "sin", "cos", "tan", "exp", "log", "log2", "log10", "sqrt", "tanh",
         "sinh", "cosh", "asin", "acos", "atan", "asinh", "acosh", "atanh"]
SIMPL = {"_simplify_add": "sAdd", "_simplify_sub": "sSub", "_simplify_mul": "sMul",
         "_simplify_div": "sDiv", "_simplify_neg": "sNeg", "_simplify_pow": "sPow"}
# elementary-function constructors imported into autodiff.py (name -> UnOp)
FUNCS = {"cos": "cos", "sin": "sin", "log": "log", "cosh": "cosh", "sinh": "sinh",
         "sqrt_fn": "sqrt", "abs_": "abs", "exp": "exp", "tan": "tan", "tanh": "tanh", "sqrt": "sqrt"}


def lean_rat(v) -> str:
    from fractions import Fraction
    f = Fraction(v)
    if f.denominator == 1:
        return f"({f.numerator} : Rat)"
    return f"(({f.numerator} : Rat) / {f.denominator})"


class RuleTranslator:
    """Translate the body of one `elif op == "...":` branch into a Lean Expr term."""

    def __init__(self, names: dict[str, str]):
        # python name -> lean term (initial environment: left/right/d_left/... )
        self.base = dict(names)

    def expr(self, node: ast.AST, env: dict[str, str]) -> str:
        if isinstance(node, ast.Name):
            if node.id in env:
                return env[node.id]
            raise TranslateError(f"unbound name {node.id!r} at line {node.lineno}")
        if isinstance(node, ast.Call):
            fn = node.func
            if isinstance(fn, ast.Name):
                if fn.id in SIMPL:
                    args = [self.expr(a, env) for a in node.args]
                    return "(" + SIMPL[fn.id] + " " + " ".join(args) + ")"
                if fn.id == "Constant":
                    return self.constant(node.args[0], env)
                if fn.id in FUNCS and len(node.args) == 1:
                    return f"(Expr.un .{FUNCS[fn.id]} {self.expr(node.args[0], env)})"
                if fn.id == "UnaryOp" and len(node.args) == 2 and isinstance(node.args[1], ast.Constant):
                    return f"(Expr.un .{node.args[1].value} {self.expr(node.args[0], env)})"
                if fn.id == "BinaryOp" and len(node.args) == 3 and isinstance(node.args[2], ast.Constant):
                    return (f"(Expr.bin .{BINOPS[node.args[2].value]} {self.expr(node.args[0], env)} "
                            f"{self.expr(node.args[1], env)})")
            raise TranslateError(f"unsupported call {ast.unparse(node)!r} at line {node.lineno}")
        if isinstance(node, ast.BinOp) and type(node.op) in AST_BIN:
            return f"(Expr.bin .{AST_BIN[type(node.op)]} {self.expr(node.left, env)} {self.expr(node.right, env)})"
        if isinstance(node, ast.UnaryOp) and isinstance(node.op, ast.USub):
            return f"(Expr.un .neg {self.expr(node.operand, env)})"
        if isinstance(node, ast.Attribute) and isinstance(node.value, ast.Name):
            key = f"{node.value.id}.{node.attr}"
            if key in env:
                return env[key]
        raise TranslateError(f"unsupported expression {ast.unparse(node)!r} at line {getattr(node,'lineno','?')}")

    def constant(self, arg: ast.AST, env) -> str:
        # Constant(<literal>) | Constant(n) | Constant(n - 1) | Constant(np.log(2.0)) | Constant(k) ...
        if isinstance(arg, ast.Constant) and isinstance(arg.value, (int, float)):
            return f"(Expr.c {lean_rat(arg.value)})"
        if isinstance(arg, ast.UnaryOp) and isinstance(arg.op, ast.USub) and isinstance(arg.operand, ast.Constant):
            return f"(Expr.c {lean_rat(-arg.operand.value)})"
        if isinstance(arg, ast.Call) and ast.unparse(arg) == "np.log(2.0)":
            return "(Expr.const .ln2)"
        if isinstance(arg, ast.Call) and ast.unparse(arg) == "np.log(10.0)":
            return "(Expr.const .ln10)"
        return f"(Expr.c {self.num(arg, env)})"

    def num(self, node: ast.AST, env) -> str:
        """numeric (Rat) sub-language: names bound to rationals, literals, + - *"""
        if isinstance(node, ast.Name):
            key = "num:" + node.id
            if key in env:
                return env[key]
            raise TranslateError(f"unbound numeric name {node.id!r} at line {node.lineno}")
        if isinstance(node, ast.Constant) and isinstance(node.value, (int, float)):
            return lean_rat(node.value)
        if isinstance(node, ast.BinOp) and isinstance(node.op, (ast.Add, ast.Sub, ast.Mult)):
            op = {ast.Add: "+", ast.Sub: "-", ast.Mult: "*"}[type(node.op)]
            return f"({self.num(node.left, env)} {op} {self.num(node.right, env)})"
        raise TranslateError(f"unsupported numeric expression {ast.unparse(node)!r} at line {node.lineno}")

    def cond(self, node: ast.AST, env) -> str:
        if isinstance(node, ast.Compare) and len(node.ops) == 1 and isinstance(node.ops[0], ast.Eq):
            return f"({self.num(node.left, env)} == {self.num(node.comparators[0], env)})"
        if isinstance(node, ast.Call) and isinstance(node.func, ast.Name) and node.func.id in ("_is_zero", "_is_one"):
            f = "isZero" if node.func.id == "_is_zero" else "isOne"
            return f"({f} {self.expr(node.args[0], env)})"
        if isinstance(node, ast.BoolOp) and isinstance(node.op, ast.Or):
            return "(" + " || ".join(self.cond(v, env) for v in node.values) + ")"
        raise TranslateError(f"unsupported condition {ast.unparse(node)!r} at line {node.lineno}")

    def block(self, stmts: list[ast.stmt], env: dict[str, str], rest: str | None = None) -> str:
        """Translate a statement list that ends in `return e` / `results[node_id] = e`."""
        env = dict(env)
        for i, st in enumerate(stmts):
            if isinstance(st, (ast.ImportFrom, ast.Import, ast.Continue)):
                continue
            if isinstance(st, ast.Expr) and isinstance(st.value, ast.Constant):
                continue  # docstring / comment string
            if isinstance(st, ast.Return):
                return self.expr(st.value, env)
            if isinstance(st, ast.Assign) and len(st.targets) == 1:
                tgt = st.targets[0]
                if isinstance(tgt, ast.Subscript) and ast.unparse(tgt) == "results[node_id]":
                    return self.expr(st.value, env)
                if isinstance(tgt, ast.Name):
                    # numeric binding  n = right.value / k = expr.power
                    if isinstance(st.value, ast.Attribute) and ast.unparse(st.value) in env.get("numattrs", ""):
                        env["num:" + tgt.id] = env["numattr:" + ast.unparse(st.value)]
                    else:
                        env[tgt.id] = self.expr(st.value, env)
                    continue
            if isinstance(st, ast.If):
                tail = stmts[i + 1:]
                if tail and not st.orelse:
                    else_txt = self.block(tail, env, rest)
                elif st.orelse:
                    else_txt = self.block(st.orelse, env, rest)
                elif rest is not None:
                    else_txt = rest
                else:
                    raise TranslateError(f"if without else at line {st.lineno}")
                t = st.test
                # isinstance(right, Constant)  ->  match on the constant
                if (isinstance(t, ast.Call) and isinstance(t.func, ast.Name) and t.func.id == "isinstance"
                        and ast.unparse(t.args[1]) == "Constant" and isinstance(t.args[0], ast.Name)):
                    who = t.args[0].id
                    env2 = dict(env)
                    env2["numattrs"] = env.get("numattrs", "") + f" {who}.value"
                    env2[f"numattr:{who}.value"] = "n"
                    body = self.block(st.body, env2, rest)
                    return (f"(match {env[who]} with\n      | .const (.rat n) => {body}\n"
                            f"      | _ => {else_txt})")
                # isinstance(expr, UnaryOp) and expr.op == "neg"  ->  match on negation
                if (isinstance(t, ast.BoolOp) and isinstance(t.op, ast.And)
                        and ast.unparse(t).replace("'", '"') in
                        ('isinstance(expr, UnaryOp) and expr.op == "neg"',)):
                    env2 = dict(env)
                    env2["expr.operand"] = "a"
                    body = self.block(st.body, env2, rest)
                    return (f"(match {env['expr']} with\n      | .un .neg a => {body}\n"
                            f"      | _ => {else_txt})")
                body = self.block(st.body, env, rest)
                return f"(if {self.cond(t, env)} then {body} else {else_txt})"
            if isinstance(st, ast.Raise):
                return "unsupportedRule"
            raise TranslateError(f"unsupported statement {ast.unparse(st)[:60]!r} at line {st.lineno}")
        if rest is not None:
            return rest
        raise TranslateError("block without result")


def find_func(tree: ast.AST, name: str) -> ast.FunctionDef:
    for n in ast.walk(tree):
        if isinstance(n, ast.FunctionDef) and n.name == name:
            return n
    raise TranslateError(f"function {name} not found")


def op_chain(stmts: list[ast.stmt], subject: str, bare: bool = False, lax_else: bool = False) -> dict[str, list[ast.stmt]]:
    """Find the `if <subject>.op == "x": ... elif ...` chain in stmts; return op -> body.
    With bare=True the tested term is `<subject>` itself (e.g. a local `op`)."""
    lhs = subject if bare else f"{subject}.op"
    for st in stmts:
        if isinstance(st, ast.If):
            t = st.test
            if (isinstance(t, ast.Compare) and ast.unparse(t.left) == lhs
                    and isinstance(t.comparators[0], ast.Constant)):
                out: dict[str, list[ast.stmt]] = {}
                cur: ast.stmt | None = st
                while isinstance(cur, ast.If):
                    t = cur.test
                    if not (isinstance(t, ast.Compare) and ast.unparse(t.left) == lhs):
                        raise TranslateError(f"unexpected test in operator chain at line {cur.lineno}")
                    key = t.comparators[0].value
                    if key in out:
                        raise TranslateError(f"duplicate operator {key!r} at line {cur.lineno}")
                    out[key] = cur.body
                    if len(cur.orelse) == 1 and isinstance(cur.orelse[0], ast.If):
                        cur = cur.orelse[0]
                    else:
                        # final else must be a raise (or `return None` = "fall back to autodiff")
                        if cur.orelse and not lax_else and not all(isinstance(s, ast.Raise) or
                                                  (isinstance(s, ast.Return) and ast.unparse(s) == "return None")
                                                  for s in cur.orelse):
                            raise TranslateError(f"operator chain ends in non-raise else at line {cur.lineno}")
                        cur = None
                return out
    raise TranslateError(f"no operator chain on {subject}.op found")


def class_block(fn: ast.FunctionDef, subject: str, cls: str) -> list[ast.stmt]:
    """body of `if isinstance(<subject>, <cls>):` at any depth of fn (first match)."""
    for n in ast.walk(fn):
        if isinstance(n, ast.If) and ast.unparse(n.test) == f"isinstance({subject}, {cls})":
            return n.body
    raise TranslateError(f"no isinstance({subject}, {cls}) block in {fn.name}")


def gen_rules(fn: ast.FunctionDef, subject: str, suffix: str) -> str:
    out = []
    # ---- binary
    body = class_block(fn, subject, "BinaryOp")
    chain = op_chain(body, subject)
    env = {"left": "left", "right": "right", "d_left": "dLeft", "d_right": "dRight",
           subject: "self", "expr": "self"}
    tr = RuleTranslator(env)
    out.append(f"def binaryRule{suffix} (op : BinOp) (left right dLeft dRight self : Expr) : Expr :=\n  match op with")
    for py, ln in BINOPS.items():
        if py in chain:
            out.append(f"  | .{ln} => {tr.block(chain[py], env)}")
        else:
            out.append(f"  | .{ln} => unsupportedRule")
    extra = set(chain) - set(BINOPS)
    if extra:
        raise TranslateError(f"binary operators outside the model: {sorted(extra)}")
    # ---- unary
    body = class_block(fn, subject, "UnaryOp")
    chain = op_chain(body, subject)
    env = {"operand": "operand", "d_operand": "dOperand", subject: "self", "expr": "self"}
    out.append(f"\ndef unaryRule{suffix} (op : UnOp) (operand dOperand self : Expr) : Expr :=\n  match op with")
    for u in UNOPS:
        if u in chain:
            out.append(f"  | .{u} => {tr.block(chain[u], env)}")
        else:
            out.append(f"  | .{u} => unsupportedRule")
    extra = set(chain) - set(UNOPS)
    if extra:
        raise TranslateError(f"unary operators outside the model: {sorted(extra)}")
    return "\n".join(out) + "\n"


VOPS = ["sin", "cos", "tan", "exp", "log", "abs", "sqrt", "sinh", "cosh", "tanh"]


def find_if_chain_stmts(fn: ast.AST, lhs: str) -> list[ast.stmt]:
    """the statement list that directly contains the `if <lhs> == "...":` chain"""
    for n in ast.walk(fn):
        for field in ("body", "orelse"):
            stmts = getattr(n, field, None)
            if isinstance(stmts, list):
                for st in stmts:
                    if (isinstance(st, ast.If) and isinstance(st.test, ast.Compare)
                            and ast.unparse(st.test.left) == lhs and isinstance(st.test.comparators[0], ast.Constant)):
                        return stmts
    raise TranslateError(f"no chain on {lhs}")


def gen_unsum_tables(ad: ast.AST, vec: ast.AST) -> str:
    """per-operator derivative tables of gradient_vector_unary_sum (autodiff.py) and of
    VectorUnarySum.jacobian_row (vectors.py): op -> Expr in the element variable `x`"""
    out = []
    # (1) registered gradient rule: chain on the local `op`, results are `return <expr>`
    fn = find_func(ad, "gradient_vector_unary_sum")
    chain = op_chain(find_if_chain_stmts(fn, "op"), "op", bare=True)
    env = {"var": "x"}
    tr = RuleTranslator(env)
    out.append("def unSumDeriv (op : VOp) (x : Expr) : Expr :=\n  match op with")
    for o in VOPS:
        out.append(f"  | .{o} => " + (tr.block(chain[o], env) if o in chain else "unsupportedRule"))
    extra = set(chain) - set(VOPS)
    if extra:
        raise TranslateError(f"gradient_vector_unary_sum: operators outside the model: {sorted(extra)}")
    # (2) VectorUnarySum.jacobian_row: chain on self.op, results are `result.append(<expr>)`
    cls = next(n for n in ast.walk(vec) if isinstance(n, ast.ClassDef) and n.name == "VectorUnarySum")
    jr = next(n for n in cls.body if isinstance(n, ast.FunctionDef) and n.name == "jacobian_row")
    chain = op_chain(find_if_chain_stmts(jr, "self.op"), "self")
    out.append("\ndef unSumJacRow (op : VOp) (x : Expr) : Expr :=\n  match op with")
    for o in VOPS:
        if o in chain:
            body = []
            for st in chain[o]:
                if (isinstance(st, ast.Expr) and isinstance(st.value, ast.Call)
                        and ast.unparse(st.value.func) == "result.append"):
                    body.append(ast.Return(value=st.value.args[0], lineno=st.lineno))
                else:
                    body.append(st)
            out.append(f"  | .{o} => " + tr.block(body, env))
        else:
            out.append(f"  | .{o} => unsupportedRule")
    extra = set(chain) - set(VOPS)
    if extra:
        raise TranslateError(f"VectorUnarySum.jacobian_row: operators outside the model: {sorted(extra)}")
    return "\n".join(out) + "\n"


def gen_simplifiers(tree: ast.AST) -> str:
    out = []
    # _is_zero / _is_one : isinstance(expr, Constant) and expr.value == <lit>
    for py, ln in (("_is_zero", "isZero"), ("_is_one", "isOne")):
        fn = find_func(tree, py)
        ret = [s for s in fn.body if isinstance(s, ast.Return)]
        if len(ret) != 1:
            raise TranslateError(f"{py}: expected a single return")
        t = ret[0].value
        ok = (isinstance(t, ast.BoolOp) and isinstance(t.op, ast.And) and len(t.values) == 2
              and ast.unparse(t.values[0]) == "isinstance(expr, Constant)"
              and isinstance(t.values[1], ast.Compare) and ast.unparse(t.values[1].left) == "expr.value"
              and isinstance(t.values[1].ops[0], ast.Eq) and isinstance(t.values[1].comparators[0], ast.Constant))
        if not ok:
            raise TranslateError(f"{py}: body outside the whitelisted shape: {ast.unparse(t)}")
        lit = t.values[1].comparators[0].value
        out.append(f"def {ln} : Expr → Bool\n  | .const (.rat q) => q == {lean_rat(lit)}\n  | _ => false\n")
    order = ["_simplify_neg", "_simplify_add", "_simplify_sub", "_simplify_mul", "_simplify_div", "_simplify_pow"]
    for py in order:
        fn = find_func(tree, py)
        params = [a.arg for a in fn.args.args]
        env = {p: p for p in params}
        if "exp" in env:
            env["exp"] = "exp'"
        tr = RuleTranslator(env)
        term = tr.block(fn.body, env)
        sig = " ".join(f"({env[p]} : Expr)" for p in params)
        out.append(f"def {SIMPL[py]} {sig} : Expr :=\n  {term}\n")
    return "\n".join(out)


def literal_assign(tree: ast.AST, name: str):
    for n in ast.walk(tree):
        if isinstance(n, ast.Assign) and len(n.targets) == 1 and isinstance(n.targets[0], ast.Name) \
                and n.targets[0].id == name:
            return ast.literal_eval(n.value)
        if isinstance(n, ast.AnnAssign) and isinstance(n.target, ast.Name) and n.target.id == name and n.value is not None:
            try:
                return ast.literal_eval(n.value)
            except Exception:
                pass
    raise TranslateError(f"module constant {name} not found")


def dict_keys_of(tree: ast.AST, cls: str, attr: str) -> list[tuple[str, str]]:
    for n in ast.walk(tree):
        if isinstance(n, ast.ClassDef) and n.name == cls:
            for st in n.body:
                tgt = None
                if isinstance(st, ast.Assign) and isinstance(st.targets[0], ast.Name):
                    tgt, val = st.targets[0].id, st.value
                elif isinstance(st, ast.AnnAssign) and isinstance(st.target, ast.Name):
                    tgt, val = st.target.id, st.value
                if tgt == attr and isinstance(val, ast.Dict):
                    return [(k.value, ast.unparse(v)) for k, v in zip(val.keys, val.values)]
    raise TranslateError(f"{cls}.{attr} not found")


def set_in_func(fn: ast.FunctionDef, name: str) -> list[str]:
    for n in ast.walk(fn):
        if isinstance(n, ast.Assign) and isinstance(n.targets[0], ast.Name) and n.targets[0].id == name:
            return sorted(ast.literal_eval(n.value))
    raise TranslateError(f"{name} not found in {fn.name}")


def lean_str_list(xs) -> str:
    return "[" + ", ".join(json.dumps(x) for x in xs) + "]"


def gen_tables(repo: str) -> str:
    src = lambda p: ast.parse(open(os.path.join(repo, "src/optyx", p)).read())
    ex, vec, cmp_, ad, an = src("core/expressions.py"), src("core/vectors.py"), src("core/compiler.py"), \
        src("core/autodiff.py"), src("analysis.py")
    sc, lp, pb = src("solvers/scipy_solver.py"), src("solvers/lp_solver.py"), src("problem.py")
    out = []
    un = dict_keys_of(ex, "UnaryOp", "_OPS")
    bi = dict_keys_of(ex, "BinaryOp", "_OPS")
    out.append(f"def unaryOps : List (String × String) := [" +
               ", ".join(f"({json.dumps(k)}, {json.dumps(v)})" for k, v in un) + "]")
    out.append(f"def binaryOps : List (String × String) := [" +
               ", ".join(f"({json.dumps(k)}, {json.dumps(v)})" for k, v in bi) + "]")
    for cls in ("VectorUnarySum", "ElementwiseUnary"):
        tb = dict_keys_of(vec, cls, "_NUMPY_FUNCS")
        out.append(f"def numpyFuncs_{cls} : List (String × String) := [" +
                   ", ".join(f"({json.dumps(k)}, {json.dumps(v)})" for k, v in tb) + "]")
    out.append(f"def thresholdExpressions : Nat := {literal_assign(ex, '_RECURSION_THRESHOLD')}")
    out.append(f"def thresholdCompiler : Nat := {literal_assign(cmp_, '_RECURSION_THRESHOLD')}")
    out.append(f"def thresholdAutodiff : Nat := {literal_assign(ad, '_RECURSION_THRESHOLD')}")
    out.append(f"def thresholdAnalysis : Nat := {literal_assign(an, '_RECURSION_THRESHOLD')}")
    lg = literal_assign(cmp_, "_LARGE_GRADIENT")
    out.append(f"def largeGradient : Rat := {lean_rat(lg)}")
    solve = find_func(sc, "solve_scipy")
    for nm in ("HESSIAN_METHODS", "DERIVATIVE_FREE_METHODS", "BOUNDS_METHODS"):
        out.append(f"def {nm[0].lower() + ''.join(w.capitalize() for w in nm.split('_'))[1:]} : List String := "
                   f"{lean_str_list(set_in_func(solve, nm))}")
    # linprog status map: `elif result.status == k:  status = SolverStatus.X`
    lpfn = find_func(lp, "solve_lp")
    pairs = []
    for n in ast.walk(lpfn):
        if isinstance(n, ast.If) and ast.unparse(n.test).startswith("result.status == "):
            k = ast.literal_eval(n.test.comparators[0])
            st = n.body[0]
            if isinstance(st, ast.Assign) and ast.unparse(st.targets[0]) == "status":
                pairs.append((k, ast.unparse(st.value).split(".")[-1]))
    out.append("def lpStatusMap : List (Nat × String) := [" +
               ", ".join(f"({k}, {json.dumps(v)})" for k, v in sorted(pairs)) + "]")
    # lru_cache sizes
    sizes = {}
    for mod, tree in (("compiler", cmp_), ("autodiff", ad), ("analysis", an)):
        for n in ast.walk(tree):
            if isinstance(n, ast.FunctionDef):
                for d in n.decorator_list:
                    if isinstance(d, ast.Call) and ast.unparse(d.func) == "lru_cache":
                        for kw in d.keywords:
                            if kw.arg == "maxsize":
                                sizes[n.name] = ast.literal_eval(kw.value)
    out.append("def lruSizes : List (String × Nat) := [" +
               ", ".join(f"({json.dumps(k)}, {v})" for k, v in sorted(sizes.items())) + "]")
    return "\n".join(out) + "\n"


NP_FUNCS = {"np.cos": "cos", "np.sin": "sin", "np.exp": "exp", "np.sqrt": "sqrt", "np.cosh": "cosh",
            "np.sinh": "sinh", "np.tanh": "tanh", "np.tan": "tan", "np.log": "log", "np.abs": "abs"}


def np_expr(node: ast.AST, env: dict[str, str]) -> str:
    """NumPy closure body  ->  Lean term over `[NumAlg α] [DerivAlg α]` in the element `x`"""
    if isinstance(node, ast.Name):
        if node.id in env:
            return env[node.id]
        raise TranslateError(f"closure body: unbound name {node.id!r} at line {node.lineno}")
    if isinstance(node, ast.Subscript) and ast.unparse(node) == "x[indices]":
        return "x"
    if isinstance(node, ast.Constant) and isinstance(node.value, (int, float)):
        return f"(NumAlg.ofRat {lean_rat(node.value)})"
    if isinstance(node, ast.UnaryOp) and isinstance(node.op, ast.USub):
        if isinstance(node.operand, ast.Constant):
            return f"(NumAlg.ofRat {lean_rat(-node.operand.value)})"
        return f"(NumAlg.neg {np_expr(node.operand, env)})"
    if isinstance(node, ast.BinOp):
        ops = {ast.Add: "add", ast.Sub: "sub", ast.Mult: "mul", ast.Div: "div", ast.Pow: "pow"}
        if type(node.op) in ops:
            return f"(NumAlg.{ops[type(node.op)]} {np_expr(node.left, env)} {np_expr(node.right, env)})"
    if isinstance(node, ast.Call):
        fn = ast.unparse(node.func)
        if fn in NP_FUNCS and len(node.args) == 1:
            return f"(NumAlg.unop .{NP_FUNCS[fn]} {np_expr(node.args[0], env)})"
        if fn == "np.sign" and len(node.args) == 1:
            return f"(DerivAlg.sign {np_expr(node.args[0], env)})"
    raise TranslateError(f"closure body outside the whitelisted NumPy subset: {ast.unparse(node)!r} "
                         f"at line {getattr(node, 'lineno', '?')}")


def closure_body(fn: ast.FunctionDef, diag: bool) -> tuple[str, bool]:
    """(Lean body, sanitised?) of one derivative closure `def grad_xxx(x): …` / `def hess_xxx(x): …`.
    Accepted shapes:   return E | raw = E; return S(raw) | result = np.zeros(..); result[idx(,idx)] = E; return R
    with E a NumPy element-wise expression in x / x[indices], S = optional _sanitize_derivatives,
    and for Hessians the np.diag(..) wrapper of the full variants."""
    env = {"x": "x"}
    sanitized = False
    body_expr = None
    for st in fn.body:
        if isinstance(st, ast.Expr) and isinstance(st.value, ast.Constant):
            continue
        if isinstance(st, ast.Assign) and len(st.targets) == 1:
            tgt = st.targets[0]
            if isinstance(tgt, ast.Name) and tgt.id == "result" and ast.unparse(st.value).startswith("np.zeros("):
                continue
            if isinstance(tgt, ast.Subscript) and ast.unparse(tgt) in ("result[indices]", "result[indices, indices]"):
                body_expr = np_expr(st.value, env)
                continue
            if isinstance(tgt, ast.Name):
                env[tgt.id] = np_expr(st.value, env)
                continue
        if isinstance(st, ast.Return):
            v = st.value
            if isinstance(v, ast.Call) and ast.unparse(v.func) == "np.diag" and diag:
                v = v.args[0]
            if isinstance(v, ast.Call) and ast.unparse(v.func) == "_sanitize_derivatives":
                sanitized = True
                v = v.args[0]
            if isinstance(v, ast.Call) and ast.unparse(v.func) == "np.diag" and diag:
                v = v.args[0]
            if isinstance(v, ast.Name) and v.id == "result":
                if body_expr is None:
                    raise TranslateError(f"{fn.name}: returns result without an assignment to result[indices]")
                return body_expr, sanitized
            return np_expr(v, env), sanitized
        raise TranslateError(f"{fn.name}: statement outside the closure whitelist: {ast.unparse(st)[:60]!r}")
    raise TranslateError(f"{fn.name}: no return")


def gen_closure_tables(cmp_: ast.AST, ad: ast.AST) -> str:
    """op -> closure body / sanitised flag, for the full and the sparse variant, of
    _compile_vectorized_unary_gradient (compiler.py) and of the VectorUnarySum fast paths of
    compile_hessian (autodiff.py)"""
    out = []

    def table(fn_outer, chain, prefix, diag):
        rows = {}
        for op, body in chain.items():
            inner = [n for st in body for n in ast.walk(st) if isinstance(n, ast.FunctionDef)]
            if len(inner) != 2:
                raise TranslateError(f"{fn_outer}: operator {op!r}: expected a full and a sparse closure, found {len(inner)}")
            full = next((f for f in inner if not f.name.endswith("_sparse")), None)
            sparse = next((f for f in inner if f.name.endswith("_sparse")), None)
            if full is None or sparse is None:
                raise TranslateError(f"{fn_outer}: operator {op!r}: closure names outside the convention")
            rows[op] = (closure_body(full, diag), closure_body(sparse, diag), full.name, sparse.name)
        extra = set(rows) - set(VOPS)
        if extra:
            raise TranslateError(f"{fn_outer}: operators outside the model: {sorted(extra)}")
        for variant, idx in (("Full", 0), ("Sparse", 1)):
            out.append(f"def {prefix}Body{variant} {{α : Type}} [NumAlg α] [DerivAlg α] (op : VOp) (x : α) : α :=\n  match op with")
            for o in VOPS:
                out.append(f"  | .{o} => " + (rows[o][idx][0] if o in rows else "NumAlg.zero"))
            out.append(f"\ndef {prefix}San{variant} : VOp → Bool")
            for o in VOPS:
                out.append(f"  | .{o} => " + ("true" if o in rows and rows[o][idx][1] else "false"))
            out.append("")
        out.append(f"def {prefix}Ops : List VOp := [" + ", ".join("." + o for o in VOPS if o in rows) + "]")
        out.append(f"def {prefix}Names : List (String × String × String) := [" +
                   ", ".join(f"({json.dumps(o)}, {json.dumps(rows[o][2])}, {json.dumps(rows[o][3])})" for o in VOPS if o in rows) + "]\n")

    g = find_func(cmp_, "_compile_vectorized_unary_gradient")
    table(g.name, op_chain(find_if_chain_stmts(g, "op"), "op", bare=True, lax_else=True), "vecUn", False)
    h = find_func(ad, "compile_hessian")
    blk = class_block(h, "expr", "VectorUnarySum")
    table(h.name, op_chain(find_if_chain_stmts(ast.Module(body=blk, type_ignores=[]), "op"), "op", bare=True, lax_else=True), "hessUn", True)
    return "\n".join(out) + "\n"



# ----------------------------------------------------------------------------- solver glue


def _u(n) -> str:
    return ast.unparse(n).strip()


def _glue_src(call: ast.AST, arg: str) -> str:
    """which library compiler a cached callable comes from, by the exact call"""
    t = _u(call)
    table = {f"compile_expression({arg}, variables)": ".compileExpression",
             f"compile_jacobian([{arg}], variables)": ".compileJacobian1",
             f"compile_hessian({arg}, variables)": ".compileHessian"}
    if t not in table:
        raise TranslateError(f"solver glue: callable built by {t!r} (line {call.lineno}), expected one of {sorted(table)}")
    return table[t]


def _neg_on_maximize(stmts: list[ast.stmt], var: str, where: str) -> bool:
    """is there exactly `if problem.sense == 'maximize': var = -var` among the statements?"""
    hits = [st for st in stmts if isinstance(st, ast.If) and _u(st.test) == "problem.sense == 'maximize'"]
    if not hits:
        return False
    if len(hits) > 1 or hits[0].orelse or len(hits[0].body) != 1 or _u(hits[0].body[0]) != f"{var} = -{var}":
        raise TranslateError(f"solver glue: {where}: unexpected maximise handling {_u(hits[0])[:80]!r}")
    return True


def _lambda_sign(node: ast.AST, default_name: str, default_val: str, body: str, where: str) -> bool:
    """`lambda x, <default_name>=<default_val>: [-]<body>`  ->  is it negated?"""
    if not isinstance(node, ast.Lambda):
        raise TranslateError(f"solver glue: {where}: expected a lambda, found {_u(node)[:60]!r}")
    a = node.args
    if [x.arg for x in a.args] != ["x", default_name] or len(a.defaults) != 1 or _u(a.defaults[0]) != default_val \
            or a.vararg or a.kwarg or a.kwonlyargs:
        raise TranslateError(f"solver glue: {where}: lambda signature {_u(node)[:60]!r}")
    b = _u(node.body)
    if b == body:
        return False
    if b == "-" + body:
        return True
    raise TranslateError(f"solver glue: {where}: lambda body {b!r}, expected [-]{body}")


def gen_solver_glue(sc: ast.AST) -> str:
    """`_build_solver_cache` and the call site of `scipy.optimize.minimize` in `solve_scipy`:
    which compiler produces each callable, where signs are flipped, what is passed under which
    keyword.  Statements outside the whitelisted shape raise TranslateError."""
    out = []
    fn = find_func(sc, "_build_solver_cache")
    body = [st for st in fn.body if not (isinstance(st, ast.Expr) and isinstance(st.value, ast.Constant))
            and not isinstance(st, ast.ImportFrom)]
    seen = {}
    con_table = None
    for st in body:
        t = _u(st)
        if t in ("cache: dict[str, Any] = {}", "obj_expr = problem.objective", "bounds = []",
                 "cache['bounds'] = bounds", "scipy_constraints = []",
                 "cache['scipy_constraints'] = scipy_constraints", "return cache"):
            seen[t] = seen.get(t, 0) + 1
            continue
        if isinstance(st, ast.If) and _u(st.test) == "obj_expr is None":
            if not (len(st.body) == 1 and isinstance(st.body[0], ast.Raise) and not st.orelse):
                raise TranslateError("solver glue: missing-objective branch is not a bare raise")
            continue
        if isinstance(st, ast.If) and _u(st.test) == "problem.sense == 'maximize'":
            continue  # analysed by _neg_on_maximize below
        if isinstance(st, ast.Assign) and _u(st.targets[0]) == "cache['obj_fn']":
            seen["obj_fn"] = _glue_src(st.value, "obj_expr")
            continue
        if isinstance(st, ast.Assign) and _u(st.targets[0]) == "cache['grad_fn']":
            seen["grad_fn"] = _glue_src(st.value, "obj_expr")
            continue
        if isinstance(st, ast.For) and _u(st.iter) == "variables":
            want = ["lb = v.lb if v.lb is not None else -np.inf", "ub = v.ub if v.ub is not None else np.inf",
                    "bounds.append((lb, ub))"]
            if [_u(x) for x in st.body] != want or _u(st.target) != "v" or st.orelse:
                raise TranslateError(f"solver glue: bounds loop {[_u(x) for x in st.body]}")
            seen["bounds_loop"] = True
            continue
        if isinstance(st, ast.For) and _u(st.iter) == "problem.constraints":
            if _u(st.target) != "c" or st.orelse:
                raise TranslateError("solver glue: constraint loop header")
            inner = list(st.body)
            if len(inner) != 5 or _u(inner[0]) != "c_expr = c.expr" or \
                    not (isinstance(inner[1], ast.If) and _u(inner[1].test) == "c_expr is None"
                         and [_u(x) for x in inner[1].body] == ["continue"] and not inner[1].orelse):
                raise TranslateError(f"solver glue: constraint loop body {[_u(x)[:40] for x in inner]}")
            for k, (tgt, key) in enumerate((("c_fn", "con_fn"), ("c_jac_fn", "con_jac"))):
                a = inner[2 + k]
                if not (isinstance(a, ast.Assign) and _u(a.targets[0]) == tgt):
                    raise TranslateError(f"solver glue: expected assignment to {tgt}, found {_u(a)[:60]!r}")
                seen[key] = _glue_src(a.value, "c_expr")
            cur = inner[4]
            rows = []
            while True:
                if not isinstance(cur, ast.If):
                    raise TranslateError("solver glue: constraint sense chain")
                test = _u(cur.test)
                if not test.startswith("c.sense == "):
                    raise TranslateError(f"solver glue: constraint sense test {test!r}")
                rows.append((ast.literal_eval(cur.test.comparators[0]), cur.body))
                if len(cur.orelse) == 1 and isinstance(cur.orelse[0], ast.If):
                    cur = cur.orelse[0]
                    continue
                rows.append(("else", cur.orelse))
                break
            con_table = []
            for sense, blk in rows:
                if len(blk) != 1 or not _u(blk[0]).startswith("scipy_constraints.append("):
                    raise TranslateError(f"solver glue: branch {sense!r} is not a single append")
                d = blk[0].value.args[0]
                if not isinstance(d, ast.Dict) or [ast.literal_eval(k) for k in d.keys] != ["type", "fun", "jac"]:
                    raise TranslateError(f"solver glue: branch {sense!r}: dictionary keys")
                typ = ast.literal_eval(d.values[0])
                fneg = _lambda_sign(d.values[1], "fn", "c_fn", "float(fn(x))", f"{sense} fun")
                jneg = _lambda_sign(d.values[2], "jfn", "c_jac_fn", "jfn(x).flatten()", f"{sense} jac")
                con_table.append((sense, typ, fneg, jneg))
            continue
        raise TranslateError(f"solver glue: statement outside the whitelist in _build_solver_cache: {t[:70]!r}")
    for need in ("obj_fn", "grad_fn", "con_fn", "con_jac", "bounds_loop", "return cache",
                 "cache['scipy_constraints'] = scipy_constraints", "cache['bounds'] = bounds"):
        if need not in seen:
            raise TranslateError(f"solver glue: _build_solver_cache lacks {need}")
    if con_table is None:
        raise TranslateError("solver glue: no constraint loop")
    b = lambda v: "true" if v else "false"
    out.append("inductive GlueSrc | compileExpression | compileJacobian1 | compileHessian\n  deriving DecidableEq, Repr")
    out.append("structure GlueCon where\n  sense : String\n  type : String\n  funNeg : Bool\n  jacNeg : Bool\n  deriving DecidableEq, Repr")
    out.append(f"def glueNegateOnMaximize : Bool := {b(_neg_on_maximize(body, 'obj_expr', '_build_solver_cache'))}")
    out.append(f"def glueObjFn : GlueSrc := {seen['obj_fn']}")
    out.append(f"def glueGradFn : GlueSrc := {seen['grad_fn']}")
    out.append(f"def glueConFn : GlueSrc := {seen['con_fn']}")
    out.append(f"def glueConJac : GlueSrc := {seen['con_jac']}")
    out.append("def glueConTable : List GlueCon := [" + ", ".join(
        f"⟨{json.dumps(s_)}, {json.dumps(t_)}, {b(f_)}, {b(j_)}⟩" for s_, t_, f_, j_ in con_table) + "]")

    # ---- solve_scipy: wrappers, Hessian source, the minimize call, the reported objective value
    sv = find_func(sc, "solve_scipy")
    inner_defs = {n.name: n for n in sv.body if isinstance(n, ast.FunctionDef)}
    for nm, want in (("objective", "return float(obj_fn(x))"), ("gradient", "return grad_fn(x).flatten()")):
        if nm not in inner_defs:
            raise TranslateError(f"solver glue: solve_scipy lacks the wrapper {nm}")
        bd = [x for x in inner_defs[nm].body if not (isinstance(x, ast.Expr) and isinstance(x.value, ast.Constant))]
        if [_u(x) for x in bd] != [want] or [a.arg for a in inner_defs[nm].args.args] != ["x"]:
            raise TranslateError(f"solver glue: wrapper {nm} is {[_u(x) for x in bd]}, expected [{want!r}]")
    out.append('def glueObjectiveWrapper : String := "float(obj_fn(x))"')
    out.append('def glueGradientWrapper : String := "grad_fn(x).flatten()"')
    for nm, key in (("obj_fn", "obj_fn"), ("grad_fn", "grad_fn"), ("scipy_constraints", "scipy_constraints")):
        if not any(_u(st) == f"{nm} = cache['{key}']" for st in sv.body):
            raise TranslateError(f"solver glue: solve_scipy does not read {nm} from cache[{key!r}]")
    hess_if = [st for st in sv.body if isinstance(st, ast.If) and _u(st.test) == "use_hessian and method in HESSIAN_METHODS"]
    if len(hess_if) != 1:
        raise TranslateError("solver glue: Hessian block of solve_scipy not found")
    miss = [st for st in hess_if[0].body if isinstance(st, ast.If) and _u(st.test) == "'hess_fn' not in cache"]
    if len(miss) != 1:
        raise TranslateError("solver glue: `'hess_fn' not in cache` block not found")
    hsrc = None
    for st in miss[0].body:
        if isinstance(st, ast.Assign) and _u(st.targets[0]) == "compiled_hess":
            hsrc = _glue_src(st.value, "obj_expr")
    if hsrc is None:
        raise TranslateError("solver glue: compiled_hess assignment not found")
    out.append(f"def glueHessFn : GlueSrc := {hsrc}")
    out.append(f"def glueHessNegateOnMaximize : Bool := {b(_neg_on_maximize(miss[0].body, 'obj_expr', 'Hessian block'))}")
    calls = [n for n in ast.walk(sv) if isinstance(n, ast.Call) and _u(n.func) == "minimize"]
    if len(calls) != 1:
        raise TranslateError(f"solver glue: {len(calls)} calls of minimize in solve_scipy, expected 1")
    if calls[0].args:
        raise TranslateError("solver glue: positional arguments in the minimize call")
    kws = [(k.arg if k.arg is not None else "**", _u(k.value)) for k in calls[0].keywords]
    out.append("def glueMinimizeKw : List (String × String) := [" +
               ", ".join(f"({json.dumps(k)}, {json.dumps(v)})" for k, v in kws) + "]")
    ug = [st for st in ast.walk(sv) if isinstance(st, ast.Assign) and _u(st.targets[0]) == "use_gradient"]
    if len(ug) != 1:
        raise TranslateError("solver glue: use_gradient assignment")
    out.append(f"def glueUseGradient : String := {json.dumps(_u(ug[0].value))}")
    # reported objective value: obj_value = float(result.fun); negated back under maximize
    ov = [i for i, st in enumerate(sv.body) if _u(st) == "obj_value = float(result.fun)"]
    if len(ov) != 1:
        raise TranslateError("solver glue: `obj_value = float(result.fun)` not found exactly once")
    out.append(f"def glueObjValueNegatedBack : Bool := {b(_neg_on_maximize(sv.body[ov[0]:], 'obj_value', 'objective value'))}")
    rets = [st for st in sv.body if isinstance(st, ast.Return) and isinstance(st.value, ast.Call)
            and _u(st.value.func) == "Solution"]
    if len(rets) != 1:
        raise TranslateError("solver glue: final `return Solution(...)` of solve_scipy")
    kw = {k.arg: _u(k.value) for k in rets[0].value.keywords}
    out.append("def glueSolutionKw : List (String × String) := [" +
               ", ".join(f"({json.dumps(k)}, {json.dumps(v)})" for k, v in sorted(kw.items())
                         if k in ("status", "objective_value", "values")) + "]")
    return "\n".join(out) + "\n"



# ----------------------------------------------------------------------------- BinaryOp.jacobian_row


def gen_binop_jacrow(ex: ast.AST) -> str:
    """`BinaryOp.jacobian_row` (the per-node Jacobian-row shortcut that compute_jacobian tries first):
    a chain of `if <op test> and isinstance(self.<side>, Constant): if hasattr(self.<other>, "jacobian_row"): …`
    statements, each either returning the other operand's row unchanged or scaling it.  Translated
    statement by statement into `Generated.binJacRow`."""
    cls = None
    for n in ast.walk(ex):
        if isinstance(n, ast.ClassDef) and n.name == "BinaryOp":
            cls = n
    if cls is None:
        raise TranslateError("class BinaryOp not found")
    fn = None
    for n in cls.body:
        if isinstance(n, ast.FunctionDef) and n.name == "jacobian_row":
            fn = n
    if fn is None:
        raise TranslateError("BinaryOp.jacobian_row not found")
    body = [st for st in fn.body if not (isinstance(st, ast.Expr) and isinstance(st.value, ast.Constant))]
    if not body or _u(body[-1]) != "return None":
        raise TranslateError("BinaryOp.jacobian_row: last statement is not `return None`")
    opname = {"+": ".add", "-": ".sub", "*": ".mul", "/": ".div", "**": ".pow"}
    scale_txt = {
        "[Constant(c * e.value) if isinstance(e, Constant) else BinaryOp(Constant(c), e, '*') for e in row]": "scaleLeft",
        "[Constant(c * e.value) if isinstance(e, Constant) else BinaryOp(e, Constant(c), '*') for e in row]": "scaleRight",
    }
    lines = []
    for st in body[:-1]:
        if not isinstance(st, ast.If) or st.orelse:
            raise TranslateError(f"BinaryOp.jacobian_row: statement outside the whitelist: {_u(st)[:70]!r}")
        t = st.test
        if not (isinstance(t, ast.BoolOp) and isinstance(t.op, ast.And) and len(t.values) == 2):
            raise TranslateError(f"BinaryOp.jacobian_row: test {_u(t)!r}")
        optest, inst = t.values
        ot = _u(optest)
        if ot.startswith("self.op in "):
            ops = list(ast.literal_eval(optest.comparators[0]))
        elif ot.startswith("self.op == "):
            ops = [ast.literal_eval(optest.comparators[0])]
        else:
            raise TranslateError(f"BinaryOp.jacobian_row: operator test {ot!r}")
        if any(o not in opname for o in ops):
            raise TranslateError(f"BinaryOp.jacobian_row: operators {ops}")
        it = _u(inst)
        if it == "isinstance(self.right, Constant)":
            cside, other, row = "r", "left", "rowL"
        elif it == "isinstance(self.left, Constant)":
            cside, other, row = "l", "right", "rowR"
        else:
            raise TranslateError(f"BinaryOp.jacobian_row: constant test {it!r}")
        if len(st.body) != 1 or not isinstance(st.body[0], ast.If) or st.body[0].orelse or \
                _u(st.body[0].test) != f"hasattr(self.{other}, 'jacobian_row')":
            raise TranslateError(f"BinaryOp.jacobian_row: inner guard of the {ot} case")
        inner = st.body[0].body
        cond = "(" + " || ".join(f"op == {opname[o]}" for o in ops) + f") && isConstE {cside}"
        call = f"self.{other}.jacobian_row(variables)"
        if len(inner) == 1 and _u(inner[0]) == f"return {call}":
            lines.append(f"  if {cond} then {row} else")
            continue
        if len(inner) == 2 and _u(inner[0]) == f"row = {call}" and isinstance(inner[1], ast.If) \
                and _u(inner[1].test) == "row is not None" and not inner[1].orelse and len(inner[1].body) == 2:
            cval = "right" if cside == "r" else "left"
            if _u(inner[1].body[0]) != f"c = self.{cval}.value" or not isinstance(inner[1].body[1], ast.Return):
                raise TranslateError(f"BinaryOp.jacobian_row: scaling case {ot}: {[_u(x)[:50] for x in inner[1].body]}")
            comp = _u(inner[1].body[1].value)
            if comp not in scale_txt:
                raise TranslateError(f"BinaryOp.jacobian_row: scaled row {comp!r}")
            lines.append(f"  match (if {cond} then {row} else none) with")
            lines.append(f"  | some row => some (row.map ({scale_txt[comp]} (cstOf {cside})))")
            lines.append("  | none =>")
            continue
        raise TranslateError(f"BinaryOp.jacobian_row: body of the {ot} case: {[_u(x)[:50] for x in inner]}")
    out = "/-- `BinaryOp.jacobian_row`, given the rows of the two operands (`none` = the method returned None) -/\n"
    out += "def binJacRow (op : BinOp) (l r : Expr) (rowL rowR : Option (List Expr)) : Option (List Expr) :=\n"
    out += "\n".join(lines) + "\n  none\n"
    return out



def gen_sanitize_shape(cmp_: ast.AST) -> str:
    """`_sanitize_derivatives`: all-finite short-cut, otherwise one `np.nan_to_num` call whose three
    replacement values are translated.  Anything else (clip, where, a different call) is outside the
    whitelist: the model `Py.sanitize` would no longer be a reading of the source."""
    fn = find_func(cmp_, "_sanitize_derivatives")
    body = [st for st in fn.body if not (isinstance(st, ast.Expr) and isinstance(st.value, ast.Constant))]
    if len(body) != 2 or not isinstance(body[0], ast.If) or body[0].orelse \
            or _u(body[0].test) != "np.all(np.isfinite(arr))" or [_u(x) for x in body[0].body] != ["return arr"]:
        raise TranslateError(f"_sanitize_derivatives: expected `if np.all(np.isfinite(arr)): return arr` first, found "
                             f"{[_u(x)[:60] for x in body]}")
    ret = body[1]
    if not (isinstance(ret, ast.Return) and isinstance(ret.value, ast.Call) and _u(ret.value.func) == "np.nan_to_num"
            and [_u(a) for a in ret.value.args] == ["arr"]):
        raise TranslateError(f"_sanitize_derivatives: slow path is not a single np.nan_to_num(arr, …): {_u(ret)[:80]!r}")
    kw = {k.arg: _u(k.value) for k in ret.value.keywords}
    if set(kw) != {"nan", "posinf", "neginf"}:
        raise TranslateError(f"_sanitize_derivatives: nan_to_num keywords {sorted(kw)}")

    def val(t):
        if t == "_LARGE_GRADIENT":
            return "largeGradient"
        if t == "-_LARGE_GRADIENT":
            return "(-largeGradient)"
        try:
            return lean_rat(ast.literal_eval(t))
        except Exception:
            raise TranslateError(f"_sanitize_derivatives: replacement value {t!r}")
    return ("/-- `_sanitize_derivatives`: `(nan, posinf, neginf)` of its one `np.nan_to_num` call (after the\n"
            "    all-finite short-cut) -/\n"
            f"def sanitizeNan : Rat := {val(kw['nan'])}\n"
            f"def sanitizePosInf : Rat := {val(kw['posinf'])}\n"
            f"def sanitizeNegInf : Rat := {val(kw['neginf'])}\n")



def gen_make_constraint(cons: ast.AST) -> str:
    """`constraints._make_constraint`: how `lhs ⋈ rhs` is normalised to `expr ⋈ 0` (the operand conversions
    and the one subtraction).  Whitelisted shape only."""
    fn = find_func(cons, "_make_constraint")
    body = [st for st in fn.body if not (isinstance(st, ast.Expr) and isinstance(st.value, ast.Constant))
            and not isinstance(st, ast.ImportFrom)]
    if len(body) != 3:
        raise TranslateError(f"_make_constraint: {len(body)} statements, expected 3: {[_u(x)[:50] for x in body]}")
    a, b, c = body
    if not (isinstance(a, ast.If) and not a.orelse and _u(a.test) == "isinstance(rhs, (int, float))"
            and [_u(x) for x in a.body] == ["rhs = Constant(rhs)"]):
        raise TranslateError(f"_make_constraint: Python-number branch {_u(a)[:80]!r}")
    if not (isinstance(b, ast.If) and _u(b.test) == "isinstance(rhs, Expression)" and len(b.body) == 1 and len(b.orelse) == 1
            and isinstance(b.body[0], ast.Assign) and isinstance(b.orelse[0], ast.Assign)
            and _u(b.body[0].targets[0]) == "expr" and _u(b.orelse[0].targets[0]) == "expr"):
        raise TranslateError(f"_make_constraint: normalisation branch {_u(b)[:100]!r}")
    if not (isinstance(c, ast.Return)):
        raise TranslateError("_make_constraint: last statement is not a return")
    rows = [("python-number", "rhs = Constant(rhs)"), ("expression", "expr = " + _u(b.body[0].value)),
            ("other", "expr = " + _u(b.orelse[0].value)), ("return", _u(c.value))]
    return ("def glueMakeConstraint : List (String × String) := [" +
            ", ".join(f"({json.dumps(k)}, {json.dumps(v)})" for k, v in rows) + "]\n")



def gen_lp_glue(lp: ast.AST) -> str:
    """`solve_lp`: the statements that assemble the arguments of `linprog` from the (cached) LPData and the ones
    that turn `result.fun` into the reported objective value — unparsed statement by statement.  The model
    `Py.LPP.lpArgs` / `lpPost` is a reading of exactly this text (`Props.C08.lpGlue_agrees`)."""
    fn = find_func(lp, "solve_lp")
    texts = [(_u(st), st) for st in fn.body]
    idx = {t: i for i, (t, _) in enumerate(texts)}
    if "c = lp_data.c" not in idx:
        raise TranslateError("solve_lp: `c = lp_data.c` not found")
    a = idx["c = lp_data.c"]
    b = next((i for i, (t, _) in enumerate(texts) if t == "linprog_kwargs.update(kwargs)"), None)
    if b is None or b < a:
        raise TranslateError("solve_lp: `linprog_kwargs.update(kwargs)` not found after `c = lp_data.c`")
    args = [" ".join(t.split()) for t, _ in texts[a:b + 1]]
    calls = [n for n in ast.walk(fn) if isinstance(n, ast.Call) and _u(n.func) == "linprog"]
    if len(calls) != 1 or _u(calls[0]) != "linprog(**linprog_kwargs)":
        raise TranslateError(f"solve_lp: linprog call sites {[_u(c) for c in calls]}")
    # nothing between extraction and the call may touch lp_data.c / the cost vector except the block above
    for t, st in texts[:a]:
        for n in ast.walk(st):
            if isinstance(n, ast.Attribute) and _u(n) == "lp_data.c" :
                raise TranslateError(f"solve_lp: lp_data.c is used before the argument block: {t[:70]!r}")
    post = [st for t, st in texts if isinstance(st, ast.If) and t.startswith("if result.fun is not None")]
    if len(post) != 1:
        raise TranslateError("solve_lp: `if result.fun is not None` block")
    obj = [" ".join(_u(x).split()) for x in post[0].body]
    vals = [st for t, st in texts if isinstance(st, ast.If) and t.startswith("if result.x is not None")]
    if len(vals) != 1:
        raise TranslateError("solve_lp: `if result.x is not None` block")
    val = [" ".join(_u(x).split()) for x in vals[0].body]
    ls = lambda xs: "[" + ", ".join(json.dumps(x) for x in xs) + "]"
    return (f"def lpGlueArgs : List String := {ls(args)}\n"
            f"def lpGlueObjective : List String := {ls(obj)}\n"
            f"def lpGlueValues : List String := {ls(val)}\n")



def gen_init_point(sc: ast.AST) -> str:
    """`_compute_initial_point`: the two constants and the four branches (both bounds / lower only / upper only /
    free) translated expression by expression into Lean functions over ℚ (`Generated/InitPoint.lean`); the model
    `Py.initialCoord` calls them, so `C09.initialPoint_in_bounds` is about the start rule the source has today."""
    fn = find_func(sc, "_compute_initial_point")
    consts = {}
    loop = None
    for st in fn.body:
        if isinstance(st, ast.Assign) and isinstance(st.targets[0], ast.Name) and st.targets[0].id.startswith("_INTERIOR_"):
            consts[st.targets[0].id] = ast.literal_eval(st.value)
        elif isinstance(st, ast.For):
            loop = st
    if set(consts) != {"_INTERIOR_EPSILON", "_INTERIOR_FRACTION"} or loop is None:
        raise TranslateError(f"_compute_initial_point: constants {sorted(consts)} / loop {'found' if loop else 'missing'}")
    if _u(loop.target) != "(i, v)" or _u(loop.iter) != "enumerate(variables)" or len(loop.body) != 3:
        raise TranslateError(f"_compute_initial_point: loop header / body {[_u(x)[:40] for x in loop.body]}")
    if [_u(x) for x in loop.body[:2]] != ["lb = v.lb if v.lb is not None else -np.inf", "ub = v.ub if v.ub is not None else np.inf"]:
        raise TranslateError(f"_compute_initial_point: bound reads {[_u(x) for x in loop.body[:2]]}")
    names = {"_INTERIOR_EPSILON": "initEps", "_INTERIOR_FRACTION": "initFrac"}

    def ex(n, env):
        if isinstance(n, ast.Name):
            if n.id in env:
                return env[n.id]
            if n.id in names:
                return names[n.id]
            raise TranslateError(f"_compute_initial_point: unbound name {n.id!r}")
        if isinstance(n, ast.Constant) and isinstance(n.value, (int, float)) and not isinstance(n.value, bool):
            return lean_rat(n.value)
        if isinstance(n, ast.BinOp) and type(n.op) in (ast.Add, ast.Sub, ast.Mult, ast.Div):
            o = {ast.Add: "+", ast.Sub: "-", ast.Mult: "*", ast.Div: "/"}[type(n.op)]
            return f"({ex(n.left, env)} {o} {ex(n.right, env)})"
        if isinstance(n, ast.Call) and _u(n.func) in ("max", "min") and len(n.args) == 2 and not n.keywords:
            return f"({'pyMax' if _u(n.func) == 'max' else 'pyMin'} {ex(n.args[0], env)} {ex(n.args[1], env)})"
        raise TranslateError(f"_compute_initial_point: unsupported expression {_u(n)!r}")

    def branch(stmts, params):
        env = {p: p for p in params}
        lets = []
        for st in stmts[:-1]:
            if not (isinstance(st, ast.Assign) and isinstance(st.targets[0], ast.Name)):
                raise TranslateError(f"_compute_initial_point: statement {_u(st)[:60]!r}")
            nm = st.targets[0].id
            lets.append(f"  let {nm} : Rat := {ex(st.value, env)}")
            env[nm] = nm
        last = stmts[-1]
        if not (isinstance(last, ast.Assign) and _u(last.targets[0]) == "x0[i]"):
            raise TranslateError(f"_compute_initial_point: a branch does not end in `x0[i] = …`: {_u(last)[:60]!r}")
        return "\n".join(lets + ["  " + ex(last.value, env)])

    chain = loop.body[2]
    tests, bodies = [], []
    cur = chain
    while isinstance(cur, ast.If):
        tests.append(_u(cur.test))
        bodies.append(cur.body)
        if len(cur.orelse) == 1 and isinstance(cur.orelse[0], ast.If):
            cur = cur.orelse[0]
        else:
            bodies.append(cur.orelse)
            break
    if tests != ["np.isfinite(lb) and np.isfinite(ub)", "np.isfinite(lb)", "np.isfinite(ub)"] or len(bodies) != 4:
        raise TranslateError(f"_compute_initial_point: branch tests {tests}")
    out = ["/-- Python `max(a, b)` / `min(a, b)` on numbers -/",
           "def pyMax (a b : Rat) : Rat := if a < b then b else a",
           "def pyMin (a b : Rat) : Rat := if b < a then b else a",
           f"def initEps : Rat := {lean_rat(consts['_INTERIOR_EPSILON'])}",
           f"def initFrac : Rat := {lean_rat(consts['_INTERIOR_FRACTION'])}",
           "/-- both bounds finite -/", "def initBoth (lb ub : Rat) : Rat :=", branch(bodies[0], ["lb", "ub"]),
           "/-- only the lower bound finite -/", "def initLower (lb : Rat) : Rat :=", branch(bodies[1], ["lb"]),
           "/-- only the upper bound finite -/", "def initUpper (ub : Rat) : Rat :=", branch(bodies[2], ["ub"]),
           "/-- unbounded -/", "def initFree : Rat :=", branch(bodies[3], [])]
    return "\n".join(out) + "\n"



def gen_dispatch(pb: ast.AST) -> str:
    """`Problem._auto_select_method` and the dispatch of `Problem.solve`, translated statement by statement into
    `Generated/Dispatch.lean` (`autoSelectG`, `routeG`); `Py.autoSelect` / `Py.route` are these functions."""
    cls = next((n for n in ast.walk(pb) if isinstance(n, ast.ClassDef) and n.name == "Problem"), None)
    if cls is None:
        raise TranslateError("class Problem not found")
    meth = {n.name: n for n in cls.body if isinstance(n, ast.FunctionDef)}
    for nm in ("_auto_select_method", "solve"):
        if nm not in meth:
            raise TranslateError(f"Problem.{nm} not found")
    body = [st for st in meth["_auto_select_method"].body
            if not (isinstance(st, ast.Expr) and isinstance(st.value, ast.Constant)) and not isinstance(st, ast.ImportFrom)]

    def robust_test(t, var):
        # `<var> is None or <var> > k`
        u = _u(t)
        m = re.fullmatch(rf"{var} is None or {var} > (\d+)", u)
        if not m:
            raise TranslateError(f"_auto_select_method: degree test {u!r}")
        return int(m.group(1))

    if len(body) != 5:
        raise TranslateError(f"_auto_select_method: {len(body)} statements: {[_u(x)[:50] for x in body]}")
    s0, s1, s2, s3, s4 = body
    if not (isinstance(s0, ast.If) and _u(s0.test) == "not self._constraints" and not s0.orelse and len(s0.body) == 1
            and isinstance(s0.body[0], ast.Return)):
        raise TranslateError(f"_auto_select_method: unconstrained branch {_u(s0)[:80]!r}")
    m_unc = ast.literal_eval(s0.body[0].value)
    if _u(s1) != "obj = self.objective":
        raise TranslateError(f"_auto_select_method: {_u(s1)!r}")
    if not (isinstance(s2, ast.If) and _u(s2.test) == "obj is not None" and not s2.orelse and len(s2.body) == 2
            and _u(s2.body[0]) == "degree = compute_degree(obj)" and isinstance(s2.body[1], ast.If)
            and not s2.body[1].orelse and len(s2.body[1].body) == 1 and isinstance(s2.body[1].body[0], ast.Return)):
        raise TranslateError(f"_auto_select_method: objective block {_u(s2)[:120]!r}")
    k_obj = robust_test(s2.body[1].test, "degree")
    m_obj = ast.literal_eval(s2.body[1].body[0].value)
    if not (isinstance(s3, ast.For) and _u(s3.target) == "c" and _u(s3.iter) == "self._constraints" and len(s3.body) == 2
            and _u(s3.body[0]) == "c_degree = compute_degree(c.expr)" and isinstance(s3.body[1], ast.If)
            and not s3.body[1].orelse and len(s3.body[1].body) == 1 and isinstance(s3.body[1].body[0], ast.Return)):
        raise TranslateError(f"_auto_select_method: constraint loop {_u(s3)[:120]!r}")
    k_con = robust_test(s3.body[1].test, "c_degree")
    m_con = ast.literal_eval(s3.body[1].body[0].value)
    if not isinstance(s4, ast.Return):
        raise TranslateError("_auto_select_method: last statement")
    m_def = ast.literal_eval(s4.value)
    out = ["/-- `degree is None or degree > k` -/",
           "def degreeAbove (k : Nat) (d : Option Nat) : Bool := match d with | none => true | some n => decide (n > k)",
           "/-- `Problem._auto_select_method` (degrees of the objective and of the constraints, in order) -/",
           "def autoSelectG (objDegree : Option Nat) (conDegrees : List (Option Nat)) : String :=",
           f"  if conDegrees.isEmpty then {json.dumps(m_unc)}",
           f"  else if degreeAbove {k_obj} objDegree then {json.dumps(m_obj)}",
           f"  else if conDegrees.any (degreeAbove {k_con}) then {json.dumps(m_con)}",
           f"  else {json.dumps(m_def)}"]
    # ---- Problem.solve: the if-chain after the objective check
    sb = [st for st in meth["solve"].body if isinstance(st, ast.If) and _u(st.test).startswith("method ")]
    tests = [_u(st.test) for st in sb]
    if tests != ["method == 'auto'", "method == 'linprog'", "method in ('highs', 'highs-ds', 'highs-ipm')"]:
        raise TranslateError(f"Problem.solve: dispatch tests {tests}")
    a = sb[0]
    if not (len(a.body) == 1 and isinstance(a.body[0], ast.If) and _u(a.body[0].test) == "self._is_linear_problem()"
            and _u(a.body[0].body[-1]) == "return solve_lp(self, strict=strict, **kwargs)"
            and [_u(x) for x in a.body[0].orelse] == ["method = self._auto_select_method()"]):
        raise TranslateError(f"Problem.solve: auto branch {_u(a)[:160]!r}")
    if _u(sb[1].body[-1]) != "return solve_lp(self, strict=strict, **kwargs)":
        raise TranslateError(f"Problem.solve: linprog branch {_u(sb[1].body[-1])!r}")
    if _u(sb[2].body[-1]) != "return solve_lp(self, method=method, strict=strict, **kwargs)":
        raise TranslateError(f"Problem.solve: highs branch {_u(sb[2].body[-1])!r}")
    last = meth["solve"].body[-1]
    if _u(last) != "return solve_scipy(self, method=method, strict=strict, **kwargs)":
        raise TranslateError(f"Problem.solve: final statement {_u(last)!r}")
    highs = list(ast.literal_eval(sb[2].test.comparators[0]))
    out += ["inductive RouteG | lp (method : Option String) | nlp (method : String)",
            "  deriving DecidableEq, Repr",
            "/-- the dispatch of `Problem.solve` -/",
            "def routeG (method : String) (isLinear : Bool) (objDegree : Option Nat) (conDegrees : List (Option Nat)) : RouteG :=",
            "  if method == \"auto\" then",
            "    if isLinear then .lp none else",
            "      -- `method = self._auto_select_method()` falls through to the tests below",
            "      let m := autoSelectG objDegree conDegrees",
            "      if m == \"linprog\" then .lp none",
            f"      else if {lean_str_list(highs)}.contains m then .lp (some m) else .nlp m",
            "  else if method == \"linprog\" then .lp none",
            f"  else if {lean_str_list(highs)}.contains method then .lp (some method)",
            "  else .nlp method"]
    return "\n".join(out) + "\n"



def gen_lp_rows(an: ast.AST) -> str:
    """`LinearProgramExtractor.extract_constraints`: the loop body that turns one constraint `expr ⋈ 0` into a row —
    which matrix the row goes to and where signs are flipped — translated into a table."""
    cls = next((n for n in ast.walk(an) if isinstance(n, ast.ClassDef) and n.name == "LinearProgramExtractor"), None)
    if cls is None:
        raise TranslateError("class LinearProgramExtractor not found")
    fn = next((n for n in cls.body if isinstance(n, ast.FunctionDef) and n.name == "extract_constraints"), None)
    if fn is None:
        raise TranslateError("extract_constraints not found")
    loop = next((st for st in fn.body if isinstance(st, ast.For) and _u(st.iter) == "problem.constraints"), None)
    if loop is None or _u(loop.target) != "constraint":
        raise TranslateError("extract_constraints: constraint loop not found")
    body = list(loop.body)
    if len(body) != 4 or not (isinstance(body[0], ast.If) and _u(body[0].test) == "not is_linear(constraint.expr)"
                              and isinstance(body[0].body[0], ast.Raise)):
        raise TranslateError(f"extract_constraints: loop body {[_u(x)[:50] for x in body]}")
    if _u(body[1]) != "row = extract_all_linear_coefficients(constraint.expr, var_index, n)":
        raise TranslateError(f"extract_constraints: row statement {_u(body[1])!r}")
    rhs_t = _u(body[2])
    if rhs_t not in ("rhs = -extract_constant_term(constraint.expr)", "rhs = extract_constant_term(constraint.expr)"):
        raise TranslateError(f"extract_constraints: rhs statement {rhs_t!r}")
    cases = []
    cur = body[3]
    while isinstance(cur, ast.If):
        t = _u(cur.test)
        if not t.startswith("constraint.sense == "):
            raise TranslateError(f"extract_constraints: sense test {t!r}")
        sense = ast.literal_eval(cur.test.comparators[0])
        b = [_u(x) for x in cur.body]
        opts = {("eq_rows.append(row)", "eq_rhs.append(rhs)"): ("eq", False, False),
                ("ub_rows.append(row)", "ub_rhs.append(rhs)"): ("ub", False, False),
                ("ub_rows.append(-row)", "ub_rhs.append(-rhs)"): ("ub", True, True),
                ("eq_rows.append(-row)", "eq_rhs.append(-rhs)"): ("eq", True, True)}
        if tuple(b) not in opts:
            raise TranslateError(f"extract_constraints: branch {sense!r}: {b}")
        cases.append((sense,) + opts[tuple(b)])
        if len(cur.orelse) == 1 and isinstance(cur.orelse[0], ast.If):
            cur = cur.orelse[0]
        elif not cur.orelse:
            break
        else:
            raise TranslateError("extract_constraints: sense chain has a non-if else")
    # ---- the rest of the extractor, statement by statement (normalised text) ----
    def meth(name):
        f = next((n for n in cls.body if isinstance(n, ast.FunctionDef) and n.name == name), None)
        if f is None:
            raise TranslateError(f"LinearProgramExtractor.{name} not found")
        return f
    norm = lambda st: " ".join(_u(st).split())
    nodoc = lambda f: [st for st in f.body if not (isinstance(st, ast.Expr) and isinstance(st.value, ast.Constant))]
    pre = [norm(st) for st in fn.body if st is not loop and not (isinstance(st, ast.Expr) and isinstance(st.value, ast.Constant))]
    eb = [norm(st) for st in nodoc(meth("extract_bounds"))]
    ex = nodoc(meth("extract"))
    if not (len(ex) == 4 and isinstance(ex[3], ast.Return) and isinstance(ex[3].value, ast.Call)
            and _u(ex[3].value.func) == "LPData" and not ex[3].value.args):
        raise TranslateError("LinearProgramExtractor.extract: unexpected shape")
    exs = [norm(st) for st in ex[:3]] + [f"{k.arg}={' '.join(_u(k.value).split())}" for k in ex[3].value.keywords]
    eo = nodoc(meth("extract_objective"))
    guards = [st for st in eo if isinstance(st, ast.If)]
    if [(_u(g.test), isinstance(g.body[0], ast.Raise) and _u(g.body[0].exc.func)) for g in guards] != \
            [("problem.objective is None", "NoObjectiveError"), ("not is_linear(problem.objective)", "NonLinearError")]:
        raise TranslateError("LinearProgramExtractor.extract_objective: guards have changed")
    eos = [norm(st) for st in eo if not isinstance(st, ast.If)]
    ls = lambda xs: "[" + ", ".join(json.dumps(x) for x in xs) + "]"
    extra = (f"def lpExtractConstraintsFrame : List String := {ls(pre)}\n"
             f"def lpExtractBounds : List String := {ls(eb)}\n"
             f"def lpExtract : List String := {ls(exs)}\n"
             f"def lpExtractObjective : List String := {ls(eos)}\n")
    bb = lambda v: "true" if v else "false"
    return (extra + "structure LPRowCase where\n  sense : String\n  side : String\n  negRow : Bool\n  negRhs : Bool\n  deriving DecidableEq, Repr\n"
            "def lpRowCases : List LPRowCase := [" + ", ".join(
                f"⟨{json.dumps(s_)}, {json.dumps(side)}, {bb(nr)}, {bb(nh)}⟩" for s_, side, nr, nh in cases) + "]\n"
            f"def lpRhsIsNegatedConstant : Bool := {bb(rhs_t.startswith('rhs = -'))}\n")



def gen_sort_glue(repo: str) -> str:
    """How variable names are ordered: the number-splitting regular expression (both copies), the sort key built in
    `Variable.__init__` (and every other place in the package that assigns or reads `_sort_key`), the body of
    `_natural_sort_key` and the `sorted(...)` calls of `Problem.variables` — as text.  `Py.sortKey` /
    `Py.problemVariables` (C16) are readings of exactly this."""
    import glob as _glob
    root = os.path.join(repo, "src", "optyx")
    pats, key_sites = [], []
    for f in sorted(_glob.glob(os.path.join(root, "**", "*.py"), recursive=True)):
        rel = os.path.relpath(f, root)
        tree = ast.parse(open(f).read())
        for n in ast.walk(tree):
            if isinstance(n, ast.Assign) and _u(n.targets[0]) == "_NUMBER_SPLIT_RE":
                pats.append((rel, _u(n.value)))
        # every statement that mentions `_sort_key`, with the header of each enclosing compound statement
        def visit(stmts, ctx):
            for st in stmts:
                hdr = None
                if isinstance(st, (ast.If, ast.For, ast.While, ast.With, ast.Try, ast.FunctionDef, ast.ClassDef)):
                    hdr = _u(st).split("\n")[0]
                    for fld in ("body", "orelse", "finalbody"):
                        visit(getattr(st, fld, []) or [], ctx + [hdr])
                    for h in getattr(st, "handlers", []) or []:
                        visit(h.body, ctx + [hdr])
                    if isinstance(st, ast.FunctionDef) and any(a.arg == "_sort_key" for a in st.args.args + st.args.kwonlyargs):
                        key_sites.append((rel, " > ".join(ctx + [hdr]), "<parameter _sort_key>"))
                elif "_sort_key" in _u(st):
                    key_sites.append((rel, " > ".join(ctx), " ".join(_u(st).split())))
        visit(tree.body, [])
    pb = ast.parse(open(os.path.join(root, "problem.py")).read())
    fn = find_func(pb, "_natural_sort_key")
    body = [" ".join(_u(st).split()) for st in fn.body if not (isinstance(st, ast.Expr) and isinstance(st.value, ast.Constant))]
    sorts = sorted({" ".join(_u(n).split()) for n in ast.walk(pb) if isinstance(n, ast.Call) and _u(n.func) == "sorted"})
    ls = lambda xs: "[" + ", ".join(json.dumps(x) for x in xs) + "]"
    ts = lambda xs: "[" + ", ".join("(" + ", ".join(json.dumps(y) for y in x) + ")" for x in xs) + "]"
    return (f"def sortSplitPatterns : List (String × String) := {ts(pats)}\n"
            f"def sortKeySites : List (String × String × String) := {ts(key_sites)}\n"
            f"def naturalSortKeyBody : List String := {ls(body)}\n"
            f"def problemSortedCalls : List String := {ls(sorts)}\n")


HEADER = """/-
  GENERATED by harness/gen_tables.py from the optyx sources — do not edit.
  Regenerated before every build; the theorems that mention these definitions are
  therefore re-checked against what the source says now.
-/
"""


def main(repo: str, outdir: str, dry: bool = False) -> int:
    """dry=True: report whether the files on disk differ from what the source says, write nothing.
    Each generated file is translated independently: a construct outside the translator's
    whitelist leaves that file as it was and is reported under "errors" (exit code 3)."""
    os.makedirs(outdir, exist_ok=True)
    src = lambda p: ast.parse(open(os.path.join(repo, "src/optyx", p)).read())

    def f_rules():
        ad, vec = src("core/autodiff.py"), src("core/vectors.py")
        r = HEADER + "import Optyx.Syntax\n\nnamespace Optyx.Generated\nopen Optyx\n\n"
        r += "/-- marker produced for an operator the source has no rule for (the source raises there). -/\n"
        r += "def unsupportedRule : Expr := .param ⟨\"<unsupported-operator>\", 0⟩\n\n"
        r += gen_simplifiers(ad) + "\n"
        r += "/-! rules of `_gradient_cached` -/\n" + gen_rules(find_func(ad, "_gradient_cached"), "expr", "") + "\n"
        r += "/-! rules of `_gradient_iterative` -/\n" + gen_rules(find_func(ad, "_gradient_iterative"), "current", "Iter") + "\n"
        r += "/-! per-operator tables of the vectorised unary sums -/\n" + gen_unsum_tables(ad, vec) + "\n"
        return r + "end Optyx.Generated\n"

    def f_tables():
        return HEADER + "namespace Optyx.Generated\n\n" + gen_tables(repo) + "\nend Optyx.Generated\n"

    def f_closures():
        return (HEADER + "import Optyx.Py.Sanitize\n\nnamespace Optyx.Generated\nopen Optyx Optyx.Py\n\n"
                + gen_closure_tables(src("core/compiler.py"), src("core/autodiff.py")) + "\n"
                + gen_sanitize_shape(src("core/compiler.py")) + "\nend Optyx.Generated\n")

    def f_jacrow():
        return (HEADER + "import Optyx.Py.JacScale\n\nnamespace Optyx.Generated\nopen Optyx Optyx.Py\n\n"
                + gen_binop_jacrow(src("core/expressions.py")) + "\nend Optyx.Generated\n")

    def f_init():
        return (HEADER + "namespace Optyx.Generated\n\n" + gen_init_point(src("solvers/scipy_solver.py"))
                + "\nend Optyx.Generated\n")

    def f_dispatch():
        return (HEADER + "namespace Optyx.Generated\n\n" + gen_dispatch(src("problem.py")) + "\nend Optyx.Generated\n")

    def f_degstep():
        import py2lean
        try:
            body = py2lean.gen_degree_step(src("analysis.py")) + "\n" + py2lean.gen_degree_iter_step(src("analysis.py"))
        except py2lean.TranslateError as e:
            raise TranslateError(str(e))
        return (HEADER + "import Optyx.Py.StepSupport\n\nset_option linter.unusedVariables false\n\n"
                "namespace Optyx.Generated\nopen Optyx Optyx.Py\n\n" + body + "\nend Optyx.Generated\n")

    def f_gradstep():
        import py2lean
        try:
            body = py2lean.gen_grad_step(src("core/autodiff.py"))
        except py2lean.TranslateError as e:
            raise TranslateError(str(e))
        return (HEADER + "import Optyx.Py.GradSupport\n\nset_option linter.unusedVariables false\n\n"
                "namespace Optyx.Generated\nopen Optyx Optyx.Py\n\n" + body + "\nend Optyx.Generated\n")

    def f_lpstep():
        import py2lean
        try:
            body = py2lean.gen_lp_steps(src("analysis.py"))
        except py2lean.TranslateError as e:
            raise TranslateError(str(e))
        return (HEADER + "import Optyx.Py.LPSupport\n\nset_option linter.unusedVariables false\n\n"
                "namespace Optyx.Generated\nopen Optyx Optyx.Py\n\n" + body + "\nend Optyx.Generated\n")

    def f_jacrowvec():
        import py2lean
        try:
            body = py2lean.gen_jacrow_vec(src("core/vectors.py"), src("core/matrices.py"), src("core/expressions.py"))
        except py2lean.TranslateError as e:
            raise TranslateError(str(e))
        return (HEADER + "import Optyx.Py.Jacobian\n\nset_option linter.unusedVariables false\n\n"
                "namespace Optyx.Generated\nopen Optyx Optyx.Py Optyx.Py.Jac\n\n" + body + "\nend Optyx.Generated\n")

    def f_sort():
        return HEADER + "namespace Optyx.Generated\n\n" + gen_sort_glue(repo) + "\nend Optyx.Generated\n"

    def f_glue():
        return (HEADER + "namespace Optyx.Generated\n\n" + gen_solver_glue(src("solvers/scipy_solver.py"))
                + "\nend Optyx.Generated\n")

    def f_apiglue():
        return (HEADER + "namespace Optyx.Generated\n\n" + gen_make_constraint(src("constraints.py"))
                + "\nend Optyx.Generated\n")

    def f_lpglue():
        return (HEADER + "namespace Optyx.Generated\n\n" + gen_lp_glue(src("solvers/lp_solver.py"))
                + gen_lp_rows(src("analysis.py")) + "\nend Optyx.Generated\n")

    def f_scipypost():
        import py2lean_post
        try:
            body = py2lean_post.gen_scipy_post(src("solvers/scipy_solver.py"))
        except py2lean_post.TranslateError as e:
            raise TranslateError(str(e))
        return (HEADER + "import Optyx.Py.PostSupport\n\nnamespace Optyx.Generated\nopen Optyx.Py.Post\n\n" + body
                + "\nend Optyx.Generated\n")

    def f_constraintfns():
        import py2lean_post
        try:
            body = py2lean_post.gen_constraint(src("constraints.py"))
        except py2lean_post.TranslateError as e:
            raise TranslateError(str(e))
        return (HEADER + "import Optyx.Py.PostSupport\n\nnamespace Optyx.Generated\nopen Optyx.Py.Post\n\n" + body
                + "\nend Optyx.Generated\n")

    def f_buildstep():
        import py2lean
        import py2lean_build
        try:
            body = (py2lean_build.gen_build_step(src("core/compiler.py")) + "\n"
                    + py2lean_build.gen_build_iter_step(src("core/compiler.py")))
        except py2lean.TranslateError as e:
            raise TranslateError(str(e))
        return (HEADER + "import Optyx.Py.BuildSupport\n\nset_option linter.unusedVariables false\n\n"
                "namespace Optyx.Generated\nopen Optyx Optyx.Py\n\n" + body + "\nend Optyx.Generated\n")

    def f_hookshape():
        import py2lean_post
        try:
            body = (py2lean_post.gen_hook_shape(src("solvers/scipy_solver.py")) + "\n"
                    + py2lean_post.gen_limit_shape(src("core/autodiff.py"), os.path.join(repo, "src/optyx")))
        except py2lean_post.TranslateError as e:
            raise TranslateError(str(e))
        return HEADER + "namespace Optyx.Generated\n\n" + body + "\nend Optyx.Generated\n"

    def f_closurepaths():
        import py2lean_dispatch
        try:
            body = py2lean_dispatch.gen_closure_paths(src("core/compiler.py"), src("core/autodiff.py"))
        except py2lean_dispatch.TranslateError as e:
            raise TranslateError(str(e))
        return (HEADER + "set_option linter.unusedVariables false\n\nnamespace Optyx.Generated\n\n" + body
                + "\nend Optyx.Generated\n")

    def f_evalstep():
        import py2lean
        import py2lean_eval
        try:
            body = py2lean_eval.gen_eval_step(src("core/expressions.py"), src("core/parameters.py"), src("core/vectors.py"),
                                              src("core/matrices.py"))
        except py2lean.TranslateError as e:
            raise TranslateError(str(e))
        return (HEADER + "import Optyx.Py.EvalSupport\n\nset_option linter.unusedVariables false\n\n"
                "namespace Optyx.Generated\nopen Optyx Optyx.Py NumAlg\n\n" + body + "\nend Optyx.Generated\n")

    def f_varsstep():
        import py2lean
        import py2lean_vars
        try:
            body = py2lean_vars.gen_vars_step(src("core/expressions.py"), src("core/parameters.py"), src("core/vectors.py"),
                                              src("core/matrices.py"))
        except py2lean.TranslateError as e:
            raise TranslateError(str(e))
        return (HEADER + "import Optyx.Py.VarsSupport\n\nset_option linter.unusedVariables false\n\n"
                "namespace Optyx.Generated\nopen Optyx Optyx.Py.Api\n\n" + body + "\nend Optyx.Generated\n")

    def f_degentry():
        import py2lean_degentry
        try:
            body = py2lean_degentry.gen_degree_entry(src("analysis.py"), src("core/expressions.py"))
        except py2lean_degentry.TranslateError as e:
            raise TranslateError(str(e))
        return HEADER + "namespace Optyx.Generated\n\n" + body + "\nend Optyx.Generated\n"

    def f_symjac():
        import py2lean_symjac
        try:
            body = py2lean_symjac.gen_symbolic_jac(src("core/autodiff.py"))
        except py2lean_symjac.TranslateError as e:
            raise TranslateError(str(e))
        return (HEADER + "import Optyx.Syntax\n\nnamespace Optyx.Generated\nopen Optyx\n\n" + body
                + "\nend Optyx.Generated\n")

    def f_spine():
        import py2lean
        import py2lean_spine
        try:
            body = py2lean_spine.gen_spine(src("core/compiler.py"), src("core/expressions.py"), src("core/autodiff.py"))
        except py2lean.TranslateError as e:
            raise TranslateError(str(e))
        return (HEADER + "import Optyx.Syntax\n\nset_option linter.unusedVariables false\n\n"
                "namespace Optyx.Generated\nopen Optyx\n\n" + body + "\nend Optyx.Generated\n")

    def f_varsiter():
        import py2lean
        import py2lean_varsiter
        try:
            body = py2lean_varsiter.gen_vars_iter(src("core/expressions.py"), src("core/parameters.py"), src("core/vectors.py"),
                                                  src("core/matrices.py"))
        except py2lean.TranslateError as e:
            raise TranslateError(str(e))
        return (HEADER + "import Optyx.Syntax\n\nset_option linter.unusedVariables false\n\n"
                "namespace Optyx.Generated\nopen Optyx\n\n" + body + "\nend Optyx.Generated\n")

    def f_entry():
        import py2lean
        import py2lean_entry
        try:
            body = py2lean_entry.gen_compile_entry(src("core/compiler.py"))
        except py2lean.TranslateError as e:
            raise TranslateError(str(e))
        return (HEADER + "import Optyx.Py.Compile\n\nset_option linter.unusedVariables false\n\n"
                "namespace Optyx.Generated\nopen Optyx Optyx.Py\n\n" + body + "\nend Optyx.Generated\n")

    def f_paramclass():
        import py2lean
        import py2lean_param
        try:
            body = py2lean_param.gen_param_class(src("core/parameters.py"))
        except py2lean.TranslateError as e:
            raise TranslateError(str(e))
        return (HEADER + "set_option linter.unusedVariables false\n\n"
                "namespace Optyx.Generated\n\n" + body + "\nend Optyx.Generated\n")

    def f_scaled():
        import py2lean
        import py2lean_scaled
        try:
            body = py2lean_scaled.gen_scaled(src("core/autodiff.py"))
        except py2lean.TranslateError as e:
            raise TranslateError(str(e))
        return (HEADER + "import Optyx.Syntax\n\nset_option linter.unusedVariables false\n\n"
                "namespace Optyx.Generated\nopen Optyx\n\n" + body + "\nend Optyx.Generated\n")

    def f_lpfast():
        import py2lean_lpfast
        try:
            body = py2lean_lpfast.gen_lp_fast(src("analysis.py"))
        except py2lean_lpfast.TranslateError as e:
            raise TranslateError(str(e))
        return (HEADER + "import Optyx.Py.Coeffs\n\nset_option linter.unusedVariables false\n\n"
                "namespace Optyx.Generated\nopen Optyx Optyx.Py\n\n" + body + "\nend Optyx.Generated\n")

    def f_graditer():
        import py2lean_graditer
        try:
            body = py2lean_graditer.gen_grad_iter_ctl(src("core/autodiff.py"))
        except py2lean_graditer.TranslateError as e:
            raise TranslateError(str(e))
        return HEADER + "namespace Optyx.Generated\n\n" + body + "\nend Optyx.Generated\n"

    def f_operators():
        import py2lean_ops
        try:
            body = py2lean_ops.gen_operators(src("core/expressions.py"))
        except py2lean_ops.TranslateError as e:
            raise TranslateError(str(e))
        return HEADER + "namespace Optyx.Generated\n\n" + body + "\nend Optyx.Generated\n"

    def f_svs():
        import py2lean_state
        import py2lean
        try:
            body = py2lean_state.gen_svs(src("problem.py")) + "\n" + py2lean_state.gen_problem_variables(src("problem.py"))
        except (py2lean_state.TranslateError, py2lean.TranslateError) as e:
            raise TranslateError(str(e))
        return (HEADER + "import Optyx.Syntax\n\nset_option linter.unusedVariables false\n\n"
                "namespace Optyx.Generated\nopen Optyx\n\n" + body + "\nend Optyx.Generated\n")

    def f_problemedit():
        import py2lean_state
        try:
            body = py2lean_state.gen_problem_edit(src("problem.py"))
        except py2lean_state.TranslateError as e:
            raise TranslateError(str(e))
        return HEADER + "namespace Optyx.Generated\n\n" + body + "\nend Optyx.Generated\n"

    import source_pins

    def f_pins(prop):
        def make():
            try:
                body = source_pins.generated(repo, prop)
            except source_pins.PinError as e:
                raise TranslateError(str(e))
            return HEADER + f"namespace Optyx.Generated.Pins{prop}\n\n" + body + f"\nend Optyx.Generated.Pins{prop}\n"
        return make

    changed, errors, h = False, {}, hashlib.sha256()
    for fname, make in tuple((f"Pins{p_}", f_pins(p_)) for p_ in sorted(source_pins.ANCHORS)) + (("GradRules", f_rules), ("Tables", f_tables), ("Closures", f_closures), ("SolverGlue", f_glue),
                        ("JacRow", f_jacrow), ("InitPoint", f_init), ("Dispatch", f_dispatch),
                        ("ApiGlue", f_apiglue), ("LPGlue", f_lpglue), ("SortGlue", f_sort),
                        ("DegreeStep", f_degstep), ("GradStep", f_gradstep), ("LPStep", f_lpstep), ("JacRowVec", f_jacrowvec),
                        ("ScipyPost", f_scipypost), ("ProblemEdit", f_problemedit),
                        ("ConstraintFns", f_constraintfns), ("SvsStep", f_svs), ("BuildStep", f_buildstep), ("Operators", f_operators), ("GradIterCtl", f_graditer), ("LPFast", f_lpfast), ("HookShape", f_hookshape), ("ClosurePaths", f_closurepaths), ("EvalStep", f_evalstep),
                        ("VarsStep", f_varsstep), ("DegreeEntry", f_degentry), ("SymbolicJac", f_symjac), ("Spine", f_spine), ("VarsIter", f_varsiter), ("CompileEntry", f_entry), ("ParamClass", f_paramclass), ("ScaledPattern", f_scaled)):
        path = os.path.join(outdir, fname + ".lean")
        try:
            text = make()
        except TranslateError as e:
            errors[fname] = str(e)
            continue
        except (SyntaxError, OSError) as e:
            errors[fname] = f"{type(e).__name__}: {e}"
            continue
        h.update(text.encode())
        old = open(path).read() if os.path.exists(path) else None
        if old != text:
            if not dry:
                tmp = path + f".tmp{os.getpid()}"
                with open(tmp, "w") as f:
                    f.write(text)
                os.replace(tmp, path)
            changed = True
    print(json.dumps({"changed": changed, "sha": h.hexdigest()[:16], "errors": errors}))
    return 3 if errors else 0


if __name__ == "__main__":
    sys.exit(main(sys.argv[1], sys.argv[2], dry="--dry" in sys.argv[3:]))
