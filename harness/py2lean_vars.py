"""py2lean_vars — whole-body translation of the `get_variables()` methods of all expression classes into the step functional
`varsStepG recE : Expr → List Var` (`Generated/VarsStep.lean`).  Python builds *sets* of Variables; the translation keeps the
list of contributions in the order the method visits them (`|` and `.update` become `++`, `set(vec._variables)` the element list):
every consumer of the model (`Py.Api.problemVariables`, `dedupByName`, `sortVars`) treats that list as a set, and
`Lemmas/ApiVars` proves the results do not depend on the order or multiplicity of the occurrences.  The container methods
(`VectorExpression.get_variables`, `MatrixExpression.get_variables`, `MatrixVariable.get_variables`,
`VectorVariable.get_variables`) are checked to be the accumulation idioms the translation assumes (text pins).
`Props/VarsStepTie.lean`: `Py.Api.exprVars` satisfies these equations and is their only solution.
"""
from __future__ import annotations

import ast
import json

from py2lean import CTORS, TranslateError


def _u(n):
    return ast.unparse(n)


def _body(fn):
    return [s for s in fn.body if not (isinstance(s, ast.Expr) and isinstance(s.value, ast.Constant))
            and not isinstance(s, (ast.Import, ast.ImportFrom))]


def find_class(trees, name):
    for t in trees:
        for n in ast.walk(t):
            if isinstance(n, ast.ClassDef) and n.name == name:
                return n
    raise TranslateError(f"class {name} not found")


def method(cls, name):
    m = next((n for n in cls.body if isinstance(n, ast.FunctionDef) and n.name == name), None)
    if m is None:
        raise TranslateError(f"{cls.name}.{name} not found")
    return m


CONTAINER_IDIOMS = {
    "VectorExpression": "result: set[Variable] = set(); for expr in self._expressions:\n    result.update(expr.get_variables()); return result",
    "MatrixExpression": "result: set[Variable] = set(); for row in self._expressions:\n    for expr in row:\n        result.update(expr.get_variables()); return result",
    "VectorVariable": "return list(self._variables)",
}


class VarsCompiler:
    def __init__(self, cls_name):
        self.where = f"{cls_name}.get_variables"

    def fail(self, node, why):
        raise TranslateError(f"{self.where}: {why}: {_u(node)[:100]!r} (line {getattr(node, 'lineno', '?')})")

    def val(self, v: ast.AST, env) -> str:
        u = _u(v)
        if u == "set()":
            return "[]"
        if u == "{self}" and env.get("self", ("", ""))[1] == "Var":
            return f"[{env['self'][0]}]"
        if isinstance(v, ast.BinOp) and isinstance(v.op, ast.BitOr):
            return f"({self.val(v.left, env)} ++ {self.val(v.right, env)})"
        if isinstance(v, ast.Call) and _u(v.func) == "set" and len(v.args) == 1:
            a = _u(v.args[0])
            if a.endswith("._variables") and a[:-11] in env and env[a[:-11]][1] == "VVar":
                return f"{env[a[:-11]][0]}.vars"
            if a.endswith(".get_variables()") and a[:-16] in env and env[a[:-16]][1] == "MVar":
                return f"{env[a[:-16]][0]}.flat"
            self.fail(v, "set(...) of something else")
        if isinstance(v, ast.Call) and isinstance(v.func, ast.Attribute) and v.func.attr == "get_variables" and not v.args:
            x = _u(v.func.value)
            if x in env:
                t, ty = env[x]
                if ty == "Expr":
                    return f"recE {t}"
                if ty == "ExprList":
                    return f"listVarsRec recE {t}"
                if ty == "MVar":
                    return f"{t}.flat"
            self.fail(v, "get_variables() of something that is not a child")
        if u in env and env[u][1] == "VarList":
            return env[u][0]
        self.fail(v, "unsupported value")

    def block(self, stmts, env, acc=None) -> str:
        if not stmts:
            raise TranslateError(f"{self.where}: control reaches the end without `return`")
        st, rest = stmts[0], stmts[1:]
        if isinstance(st, ast.Return):
            u = _u(st.value)
            if acc is not None and u == acc[0]:
                return "(" + " ++ ".join(acc[1] or ["[]"]) + ")"
            # MatrixSum: `return vars_result if isinstance(vars_result, set) else set(vars_result)`
            if isinstance(st.value, ast.IfExp) and _u(st.value.body) in env and _u(st.value.orelse) == f"set({_u(st.value.body)})":
                return env[_u(st.value.body)][0]
            return self.val(st.value, env)
        if isinstance(st, (ast.Assign, ast.AnnAssign)):
            tg = st.targets[0] if isinstance(st, ast.Assign) else st.target
            if isinstance(tg, ast.Name) and st.value is not None:
                if _u(st.value) == "set()":
                    return self.block(rest, env, (tg.id, []))
                e2 = dict(env); e2[tg.id] = (self.val(st.value, env), "VarList")
                return self.block(rest, e2, acc)
        if isinstance(st, ast.Expr) and isinstance(st.value, ast.Call) and acc is not None \
                and _u(st.value.func) == f"{acc[0]}.update" and len(st.value.args) == 1:
            a = st.value.args[0]
            au = _u(a)
            if au.endswith("._variables") and au[:-11] in env and env[au[:-11]][1] == "VVar":
                t = f"{env[au[:-11]][0]}.vars"
            else:
                t = self.val(a, env)
            return self.block(rest, env, (acc[0], acc[1] + [t]))
        if isinstance(st, ast.If):
            t = _u(st.test)
            if t.startswith("isinstance(") and t.endswith(", VectorVariable)"):
                x = t[len("isinstance("):-len(", VectorVariable)")]
                if x in env and env[x][1] == "Vec":
                    tag = {"self.left": "l", "self.right": "r", "self.vector": "v"}.get(x, "x")
                    w, es = f"w_{tag}", f"es_{tag}"
                    e_yes = dict(env); e_yes[x] = (w, "VVar")
                    e_no = dict(env); e_no[x] = (es, "ExprList")
                    import py2lean
                    body = list(st.body) + ([] if py2lean.always_returns(st.body) else rest)
                    orelse = list(st.orelse) + rest if st.orelse and not py2lean.always_returns(st.orelse) else (list(st.orelse) or rest)
                    if acc is not None:
                        # accumulate inside both branches, then continue: express as a conditional contribution
                        a = self.contrib(st.body, e_yes, acc[0])
                        b = self.contrib(st.orelse, e_no, acc[0])
                        term = f"(match {env[x][0]} with | .vars {w} => {a} | .exprs {es} => {b})"
                        return self.block(rest, env, (acc[0], acc[1] + [term]))
                    return (f"(match {env[x][0]} with | .vars {w} => {self.block(body, e_yes)} "
                            f"| .exprs {es} => {self.block(orelse, e_no)})")
            self.fail(st, "unsupported condition")
        self.fail(st, "unsupported statement")

    def contrib(self, stmts, env, accname) -> str:
        """a branch consisting of `acc.update(X)` statements -> the concatenation of the X"""
        parts = []
        for st in stmts:
            if not (isinstance(st, ast.Expr) and isinstance(st.value, ast.Call) and _u(st.value.func) == f"{accname}.update"
                    and len(st.value.args) == 1):
                self.fail(st, "statement in an accumulating branch")
            a = st.value.args[0]
            au = _u(a)
            if au.endswith("._variables") and au[:-11] in env and env[au[:-11]][1] == "VVar":
                parts.append(f"{env[au[:-11]][0]}.vars")
            else:
                parts.append(self.val(a, env))
        return "(" + " ++ ".join(parts or ["[]"]) + ")"


def gen_vars_step(ex: ast.AST, par: ast.AST, vec: ast.AST, mat: ast.AST) -> str:
    trees = [ex, par, vec, mat]
    for cname, want in CONTAINER_IDIOMS.items():
        got = "; ".join(_u(s) for s in _body(method(find_class(trees, cname), "get_variables")))
        if got != want:
            raise TranslateError(f"{cname}.get_variables is not the accumulation idiom the translation assumes: {got[:120]!r}")
    mv = "; ".join(" ".join(_u(s).split()) for s in _body(method(find_class(trees, "MatrixVariable"), "get_variables")))
    out = ["/-- `MatrixVariable.get_variables` (its result, as a set, is the set of the matrix's entries: `m.flat`) -/",
           "def matrixVariableGetVariablesTextG : String := " + json.dumps(mv), "",
           "/-- `expr.get_variables()`: the contributions in the order the method visits them; `recE` = the call on a child -/",
           "def varsStepG (recE : Expr → List Var) : Expr → List Var"]
    for cls_name, ctor, fields in CTORS:
        cls = find_class(trees, cls_name)
        comp = VarsCompiler(cls_name)
        env = {}
        binders = " ".join(b for _, b, _ in fields)
        for attr, b, ty in fields:
            env[f"self.{attr}" if attr else "self"] = (b, ty)
        if cls_name == "MatrixSum":
            env["self.matrix"] = (fields[0][1], "MVar" if ctor == "matSumV" else "ExprList")
        if cls_name == "VectorExpressionSum":
            env["self.expression"] = (fields[0][1], "ExprList")
        out.append(f"  | .{ctor} {binders} => {comp.block(_body(method(cls, 'get_variables')), env)}")
    return "\n".join(out) + "\n"


if __name__ == "__main__":
    import sys
    d = sys.argv[1]
    P = lambda f: ast.parse(open(d + "/core/" + f).read())
    print(gen_vars_step(P("expressions.py"), P("parameters.py"), P("vectors.py"), P("matrices.py")))
