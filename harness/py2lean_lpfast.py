"""py2lean_lpfast — the O(1) shortcuts of the LP coefficient extraction (analysis.py): `_vector_is_aligned`,
`_try_extract_fast_binop` and the dispatch of `extract_all_linear_coefficients`, translated statement by statement into
`vectorIsAlignedG`, `fastBinopG`, `extractAllG` (`Generated/LPFast.lean`).  `isinstance` tests on `expr`, `expr.left`,
`expr.right` (and their `.vector`) become pattern matches; an `if` without `else` whose body does not return falls through to
the following statements, exactly as in the source.  `Props/LPFastTie.lean` proves that the hand-written `Py.coversAll`,
`Py.fastBinop`, `Py.extractAll` (the functions `C05.shortcuts_eq_general` is about) are these functions.
"""
from __future__ import annotations

import ast


class TranslateError(Exception):
    pass


def _u(n):
    return ast.unparse(n)


SUBJ = {"expr": "e", "expr.left": "l", "expr.right": "r"}
BINOPS = {"+": "add", "-": "sub", "*": "mul", "/": "div", "**": "pow"}


def _strip(stmts):
    return [s for s in stmts if not (isinstance(s, ast.Expr) and isinstance(s.value, ast.Constant))
            and not isinstance(s, (ast.Import, ast.ImportFrom))]


def always_returns(stmts):
    stmts = _strip(stmts)
    if not stmts:
        return False
    s = stmts[-1]
    if isinstance(s, (ast.Return, ast.Raise)):
        return True
    if isinstance(s, ast.If) and s.orelse:
        return always_returns(s.body) and always_returns(s.orelse)
    return False


class Fast:
    def __init__(self, where, mode):
        self.where, self.mode = where, mode      # mode "opt": returns Option (List Rat); "arr": returns List Rat

    def fail(self, node, why):
        raise TranslateError(f"{self.where}: {why}: {_u(node)[:100]!r} (line {getattr(node, 'lineno', '?')})")

    def conj(self, t):
        if isinstance(t, ast.BoolOp) and isinstance(t.op, ast.And):
            out = []
            for v in t.values:
                out += self.conj(v)
            return out
        return [t]

    def atom(self, t, shapes):
        """-> ("pat", subject, kind) | ("bool", lean term)"""
        if isinstance(t, ast.Call) and _u(t.func) == "isinstance" and len(t.args) == 2:
            x, c = _u(t.args[0]), _u(t.args[1])
            if x in SUBJ and c in ("VectorSum", "LinearCombination", "Constant", "BinaryOp"):
                return ("pat", x, c)
            if x.endswith(".vector") and x[:-7] in SUBJ and c == "VectorVariable":
                return ("pat", x[:-7], "vectorIsVar")
            if x in SUBJ and c == "(Constant, int, float)":
                return ("bool", f"isConstNode {SUBJ[x]}")
            self.fail(t, "unsupported isinstance test")
        if isinstance(t, ast.Call) and _u(t.func) == "_vector_is_aligned" and len(t.args) == 3 \
                and _u(t.args[1]) == "var_index" and _u(t.args[2]) == "n":
            x = _u(t.args[0])
            if x.endswith(".vector") and x[:-7] in SUBJ:
                return ("aligned", x[:-7])
            self.fail(t, "_vector_is_aligned of something else")
        if isinstance(t, ast.Compare) and len(t.ops) == 1 and _u(t.left) == "expr.op":
            if isinstance(t.ops[0], ast.In) and isinstance(t.comparators[0], ast.Tuple):
                ops = [e.value for e in t.comparators[0].elts]
                known = [o for o in ops if o in BINOPS]
                # comparison strings can never be the op of a BinaryOp node: they select nothing
                return ("bool", "(" + " || ".join(f"op == .{BINOPS[o]}" for o in known) + ")")
            if isinstance(t.ops[0], ast.Eq) and isinstance(t.comparators[0], ast.Constant) and t.comparators[0].value in BINOPS:
                return ("bool", f"(op == .{BINOPS[t.comparators[0].value]})")
        if isinstance(t, ast.UnaryOp) and isinstance(t.op, ast.Not) and _u(t.operand) == "is_linear(expr)":
            return ("bool", "(!isLinear e)")
        self.fail(t, "unsupported condition")

    def ret(self, v, shapes):
        u = _u(v)
        some = (lambda t: f"pure (some ({t}))") if self.mode == "opt" else (lambda t: f"pure ({t})")
        if u == "None" and self.mode == "opt":
            return "pure none"
        if u == "np.ones(n, dtype=np.float64)":
            return some("List.replicate V.length 1")
        for x, sv in SUBJ.items():
            if u == f"np.asarray({x}.coefficients, dtype=np.float64).copy()" and shapes.get(x, ("",))[0] == "lc":
                return some(f"cs_{sv}")
            if u == f"np.full(n, float({x}.value), dtype=np.float64)" and shapes.get(x, ("",))[0] == "const":
                q = f"q_{sv}"
                inner = some(f"List.replicate V.length {q}")
                return f"(do let {q} ← cstRat c_{sv}; {inner})"
        self.fail(v, "unsupported return value")

    def pattern(self, x, kinds, shapes):
        """lean pattern + new shape for subject x given the isinstance kinds required"""
        sv = SUBJ[x]
        ks = set(kinds)
        if ks <= {"VectorSum", "vectorIsVar"} and "VectorSum" in ks:
            return f".vecSum vv_{sv}", ("vs",)
        if ks == {"LinearCombination", "vectorIsVar"}:
            return f".linComb cs_{sv} (.vars vv_{sv})", ("lc",)
        if ks == {"Constant"}:
            return f".const c_{sv}", ("const",)
        if ks == {"BinaryOp"} and x == "expr":
            return ".bin op l r", ("bin",)
        raise TranslateError(f"{self.where}: unsupported combination of type tests on {x}: {sorted(ks)}")

    def block(self, stmts, shapes, ind):
        stmts = _strip(stmts)
        nl = "\n" + ind
        if not stmts:
            raise TranslateError(f"{self.where}: a path falls off the end")
        st, rest = stmts[0], stmts[1:]
        if isinstance(st, ast.Return):
            return self.ret(st.value, shapes)
        if isinstance(st, ast.Raise):
            return ".error .nonLinear" if "NonLinearError" in _u(st) else self.fail(st, "unsupported raise")
        if isinstance(st, ast.If) and not st.orelse:
            atoms = [self.atom(a, shapes) for a in self.conj(st.test)]
            pats: dict[str, list[str]] = {}
            bools = []
            for a in atoms:
                if a[0] == "pat":
                    pats.setdefault(a[1], []).append(a[2])
                elif a[0] == "aligned":
                    if shapes.get(a[1], ("",))[0] not in ("vs", "lc") and a[1] not in pats:
                        self.fail(st, "_vector_is_aligned on an operand whose vector is not known to be a VectorVariable")
                    bools.append(f"vectorIsAlignedG V vv_{SUBJ[a[1]]}")
                else:
                    bools.append(a[1])
            body_then = list(st.body) + ([] if always_returns(st.body) else rest)
            sh2 = dict(shapes)
            lean_pats = {}
            static_false = False
            SAT = {"vs": {"VectorSum", "vectorIsVar"}, "lc": {"LinearCombination", "vectorIsVar"}, "const": {"Constant"},
                   "bin": {"BinaryOp"}}
            for x, ks in pats.items():
                if x in shapes:
                    # the operand's class is already known on this path: the test is decided statically
                    if not set(ks) <= SAT[shapes[x][0]]:
                        static_false = True
                    continue
                lean_pats[x], sh2[x] = self.pattern(x, ks, shapes)
            if static_false:
                if not rest:
                    raise TranslateError(f"{self.where}: an `if` without else is the last statement")
                return self.block(rest, shapes, ind)
            cont = self.block(rest, shapes, ind + "    ") if rest else None
            if cont is None:
                raise TranslateError(f"{self.where}: an `if` without else is the last statement")
            then = self.block(body_then, sh2, ind + "    ")
            guarded = f"(if {' && '.join(bools)} then{nl}    {then}{nl}  else{nl}    {cont})" if bools else then
            if not lean_pats:
                return guarded.replace(nl + "  else", nl + "else").replace(nl + "    ", nl + "  ") if False else guarded
            subs = list(lean_pats)
            scrut = ", ".join(SUBJ[x] for x in subs)
            pat = ", ".join(lean_pats[x] for x in subs)
            wild = ", ".join("_" for _ in subs)
            return f"(match {scrut} with{nl}| {pat} =>{nl}  {guarded}{nl}| {wild} =>{nl}    {cont})"
        # result = _try_extract_fast_binop(expr, var_index, n); if result is not None: return result
        if isinstance(st, ast.Assign) and _u(st.value) == "_try_extract_fast_binop(expr, var_index, n)" and rest \
                and isinstance(rest[0], ast.If) and _u(rest[0].test) == f"{_u(st.targets[0])} is not None" \
                and [_u(x) for x in _strip(rest[0].body)] == [f"return {_u(st.targets[0])}"] and not rest[0].orelse \
                and shapes.get("expr", ("",))[0] == "bin":
            cont = self.block(rest[1:], shapes, ind + "    ")
            return (f"(do{nl}  let f ← fastBinopG V op l r{nl}  match f with{nl}  | some res => pure res{nl}  | none =>{nl}    {cont})")
        # the general path
        texts = [_u(s) for s in stmts]
        if texts == ["result = np.zeros(n, dtype=np.float64)", "_extract_all_coefficients_impl(expr, var_index, result, 1.0)",
                     "return result"]:
            return "general e"
        self.fail(st, "unsupported statement")


def find_func(tree, name):
    for n in ast.walk(tree):
        if isinstance(n, ast.FunctionDef) and n.name == name:
            return n
    raise TranslateError(f"{name} not found")


def gen_lp_fast(an: ast.AST) -> str:
    # _vector_is_aligned
    va = _strip(find_func(an, "_vector_is_aligned").body)
    if [_u(s) for s in va] != ["variables = vector._variables", "if len(variables) != n:\n    return False",
                               "return all((var_index.get(v.name, -1) == i for i, v in enumerate(variables)))"]:
        raise TranslateError(f"_vector_is_aligned: body {[_u(s)[:70] for s in va]}")
    out = ["/-- `_vector_is_aligned(vector, var_index, n)` with `n = len(V)`; `alignedFrom V vars 0` is the idiom",
           "    `all(var_index.get(v.name, -1) == i for i, v in enumerate(variables))` -/",
           "def vectorIsAlignedG (V : List String) (vv : VVar) : Bool :=",
           "  if vv.vars.length != V.length then false else alignedFrom V vv.vars 0", ""]
    fb = find_func(an, "_try_extract_fast_binop")
    f = Fast("_try_extract_fast_binop", "opt")
    out += ["/-- `_try_extract_fast_binop(expr, var_index, n)` for `expr = BinaryOp(l, r, op)` -/",
            "def fastBinopG (V : List String) (op : BinOp) (l r : Expr) : Except Err (Option (List Rat)) :=",
            "  " + f.block(fb.body, {}, "  "), ""]
    ea = find_func(an, "extract_all_linear_coefficients")
    f = Fast("extract_all_linear_coefficients", "arr")
    out += ["/-- `extract_all_linear_coefficients(expr, var_index, n)`; `general` = the recursive walker started on zeros with",
            "    multiplier 1 (`Generated.walkStepG`'s fixed point) -/",
            "def extractAllG (general : Expr → Except Err (List Rat)) (e : Expr) (V : List String) : Except Err (List Rat) :=",
            "  " + f.block(ea.body, {}, "  ")]
    # the two public single-quantity entry points: linearity guard, then the recursive walker
    impls = {"_extract_coefficient_impl(expr, var)": "coeffImpl e", "_extract_constant_impl(expr)": "constImpl e"}
    for name, lean, doc in (("extract_linear_coefficient", "extractLinearCoefficientG", "extract_linear_coefficient(expr, var)"),
                            ("extract_constant_term", "extractConstantTermG", "extract_constant_term(expr)")):
        b = _strip(find_func(an, name).body)
        if len(b) != 2 or not (isinstance(b[0], ast.If) and not b[0].orelse and _u(b[0].test) == "not is_linear(expr)"
                               and len(_strip(b[0].body)) == 1 and isinstance(b[0].body[0], ast.Raise)
                               and _u(b[0].body[0].exc).startswith("NonLinearError(")) \
                or not (isinstance(b[1], ast.Return) and _u(b[1].value) in impls):
            raise TranslateError(f"{name}: body is not `if not is_linear(expr): raise NonLinearError(…)` + `return <walker>(…)`: "
                                 f"{[_u(x)[:60] for x in b]}")
        out += ["", f"/-- `{doc}`: NonLinearError unless `is_linear(expr)`, then the recursive walker it names -/",
                f"def {lean} (isLin : Expr → Bool) (coeffImpl constImpl : Expr → Except Err Rat) (e : Expr) : Except Err Rat :=",
                f"  if !isLin e then .error .nonLinear else {impls[_u(b[1].value)]}"]
    return "\n".join(out) + "\n"


if __name__ == "__main__":
    import sys
    print(gen_lp_fast(ast.parse(open(sys.argv[1]).read())))
