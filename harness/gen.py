"""Generators of optyx expressions built through the *real* public API of the tree under
test (so every generated object satisfies the invariants the API establishes).

One PRNG (core.Rng seeded by VERIF_SEED) drives every choice.  Two styles:
  * `rand_expr(..., safe=True)`  mostly-regular expressions: arguments of log/sqrt/acosh/...
    are wrapped so that random points are usually regular (numeric oracles);
  * `rand_expr(..., safe=False)` arbitrary compositions (structural comparisons).
`cell_cover_*` enumerate one representative per decision cell of the modelled functions.
"""
from __future__ import annotations

import itertools

import numpy as np

UNARY = ["neg", "abs", "sin", "cos", "tan", "exp", "log", "log2", "log10", "sqrt", "tanh", "sinh",
         "cosh", "asin", "acos", "atan", "asinh", "acosh", "atanh"]
VOPS = ["sin", "cos", "tan", "exp", "log", "abs", "sqrt", "sinh", "cosh", "tanh"]
BIN = ["+", "-", "*", "/", "**"]


class Universe:
    """a fresh set of modelling objects (fresh Python objects on every call)"""

    def __init__(self, rng, nvec=3, tag=""):
        from optyx import Variable, VectorVariable, MatrixVariable, Parameter

        self.rng = rng
        self.scalars = [Variable(f"a{tag}"), Variable(f"b{tag}"), Variable(f"z{tag}10"), Variable(f"z{tag}9")]
        self.x = VectorVariable(f"x{tag}", nvec)
        self.y = VectorVariable(f"y{tag}", nvec)
        self.w = VectorVariable(f"w{tag}", nvec + 2)
        self.M = MatrixVariable(f"M{tag}", 2, 2)
        self.S = MatrixVariable(f"S{tag}", 2, 2, symmetric=True)
        self.params = [Parameter(f"p{tag}", 1.5), Parameter(f"q{tag}", -0.5)]
        self.n = nvec

    def all_vars(self):
        vs = list(self.scalars) + list(self.x) + list(self.y) + list(self.w)
        vs += self.M.get_variables() + self.S.get_variables()
        return vs

    def vec_views(self):
        """VectorVariable operands of length n (views share element objects)"""
        n = self.n
        x, y, w = self.x, self.y, self.w
        return [x, y, x[0:n], w[0:n], w[1:n + 1], w[2:n + 2], w[0:2 * n:2] if 2 * n - 1 <= len(w) else w[0:n],
                x[::-1], y[::-1]]


def const(rng):
    return rng.choice([0.0, 1.0, 2.0, -1.0, 0.5, 3.0, -2.0, 1.5, 0.25, 4.0, -0.5, 2, 1, 0, 3])


def leaf(rng, U):
    from optyx.core.expressions import Constant

    r = rng.random()
    if r < 0.5:
        return rng.choice(U.all_vars())
    if r < 0.8:
        return Constant(const(rng))
    return rng.choice(U.params)


def unary(op, a):
    from optyx.core.expressions import UnaryOp

    return UnaryOp(a, op)


def safe_unary(rng, op, a):
    """wrap the argument so that the function is regular at most points"""
    from optyx.core.expressions import UnaryOp, Constant

    if op in ("log", "log2", "log10", "sqrt"):
        a = a * a + Constant(rng.choice([0.5, 1.0, 2.0]))
    elif op in ("asin", "acos", "atanh"):
        a = UnaryOp(a, "sin") * Constant(0.5)
    elif op == "acosh":
        a = a * a + Constant(2.0)
    elif op in ("exp", "sinh", "cosh"):
        a = UnaryOp(a, "tanh")  # keep magnitudes tame
    elif op == "tan":
        a = UnaryOp(a, "tanh")
    return UnaryOp(a, op)


def rand_vec(rng, U, depth, safe):
    """a vector operand of length n: VectorVariable view or VectorExpression"""
    from optyx.core.vectors import VectorExpression

    r = rng.random()
    if r < 0.55 or depth <= 0:
        return rng.choice(U.vec_views())
    if r < 0.75:
        v = rng.choice(U.vec_views())
        k = const(rng)
        return rng.choice([lambda: v + k, lambda: v * (k if k != 0 else 2.0), lambda: v - rng.choice(U.vec_views()),
                           lambda: k - v, lambda: -v])()
    return VectorExpression([rand_expr(rng, U, depth - 1, safe) for _ in range(U.n)])


def rand_vector_node(rng, U, depth, safe):
    from optyx.core import vectors as V
    from optyx.core import matrices as M

    n = U.n
    kind = rng.choice(["lc", "vs", "es", "dot", "dot", "l2", "l1", "qf", "ps", "us", "msv", "mse", "fro"])
    if kind == "lc":
        cs = np.array([const(rng) for _ in range(n)], dtype=float)
        return V.LinearCombination(cs, rand_vec(rng, U, depth, safe))
    if kind == "vs":
        return rng.choice(U.vec_views()).sum()
    if kind == "es":
        v = rand_vec(rng, U, depth, safe)
        if isinstance(v, V.VectorVariable):
            v = v + 0.0 if rng.random() < 0.5 else v * 2.0
        return v.sum()
    if kind == "dot":
        l = rand_vec(rng, U, depth, safe)
        r = l if rng.random() < 0.3 else rand_vec(rng, U, depth, safe)
        return V.DotProduct(l, r)
    if kind == "l2":
        v = rand_vec(rng, U, depth, safe)
        return V.L2Norm(v)
    if kind == "l1":
        return V.L1Norm(rand_vec(rng, U, depth, safe))
    if kind == "qf":
        Q = np.array([[const(rng) for _ in range(n)] for _ in range(n)], dtype=float)
        return M.QuadraticForm(rand_vec(rng, U, depth, safe), Q)
    if kind == "ps":
        k = rng.choice([1, 2, 3, 2.0, 0.5, -1, 2.5, 4, 0])
        return V.VectorPowerSum(rng.choice(U.vec_views()), k)
    if kind == "us":
        return V.VectorUnarySum(rng.choice(U.vec_views()), rng.choice(VOPS))
    if kind == "msv":
        return rng.choice([U.M, U.S, U.M.T]).sum()
    if kind == "mse":
        m = rng.choice([U.M, U.S])
        return rng.choice([lambda: (m * m).sum(), lambda: (m + 1.0).sum(), lambda: (2.0 * m - U.M).sum()])()
    return M.FrobeniusNorm(rng.choice([U.M, U.S]))


def rand_expr(rng, U, depth, safe=False, vector_nodes=True):
    from optyx.core.expressions import BinaryOp, Constant

    if depth <= 0:
        return leaf(rng, U)
    r = rng.random()
    if r < 0.12:
        return leaf(rng, U)
    if vector_nodes and r < 0.30:
        return rand_vector_node(rng, U, depth - 1, safe)
    if r < 0.55:
        op = rng.choice(UNARY)
        a = rand_expr(rng, U, depth - 1, safe, vector_nodes)
        return safe_unary(rng, op, a) if safe else unary(op, a)
    op = rng.choice(BIN)
    l = rand_expr(rng, U, depth - 1, safe, vector_nodes)
    if op == "**":
        rr = rng.random()
        if rr < 0.75:
            k = rng.choice([0, 1, 2, 3, 2.0, 1.0, 0.0, -1, 0.5, 2.5, -2])
            if safe and (k < 0 or float(k) != int(k)):
                l = l * l + Constant(1.0)
            return BinaryOp(l, Constant(k), "**")
        e = rand_expr(rng, U, max(0, depth - 2), safe, vector_nodes)
        if safe:
            l = l * l + Constant(1.0)
            e = unary("tanh", e)
        return BinaryOp(l, e, "**")
    rgt = rand_expr(rng, U, depth - 1, safe, vector_nodes)
    if op == "/" and safe:
        rgt = rgt * rgt + Constant(rng.choice([0.5, 1.0, 2.0]))
    return BinaryOp(l, rgt, op)


def rand_point(rng, variables, lo=-2.0, hi=2.0):
    """dyadic point (exact rationals): name -> float"""
    return {v.name: rng.randint(int(lo * 8), int(hi * 8)) / 8 + 1 / 16 for v in variables}


def expr_vars(e):
    """variables of an expression (optyx objects), sorted by name.  Uses the library's own
    traversal; on a RecursionError (deep right-leaning chains, which the left-spine heuristic
    of get_all_variables does not cover) falls back to the harness's own explicit-stack walk."""
    from optyx.core.expressions import get_all_variables

    try:
        return sorted(get_all_variables(e), key=lambda v: v.name)
    except RecursionError:
        return sorted(iter_vars(e).values(), key=lambda v: v.name)


def iter_vars(e):
    """name -> Variable object, by an explicit-stack traversal independent of optyx"""
    from optyx.core.expressions import BinaryOp, UnaryOp, Variable

    out = {}
    stack = [e]
    while stack:
        n = stack.pop()
        if isinstance(n, Variable):
            out.setdefault(n.name, n)
        elif isinstance(n, BinaryOp):
            stack += [n.left, n.right]
        elif isinstance(n, UnaryOp):
            stack.append(n.operand)
        else:
            for attr in ("vector", "left", "right", "expression", "matrix"):
                sub = getattr(n, attr, None)
                if sub is None:
                    continue
                if hasattr(sub, "_expressions"):
                    ex = sub._expressions
                    stack += [y for row in ex for y in (row if isinstance(row, list) else [row])]
                elif hasattr(sub, "_variables"):
                    vs = sub._variables
                    stack += [y for row in vs for y in (row if isinstance(row, list) else [row])]
    return out


def node_kinds(e, acc=None):
    """histogram of node classes in an expression (iterative on spines)"""
    from optyx.core.expressions import BinaryOp, UnaryOp

    acc = {} if acc is None else acc
    stack = [e]
    while stack:
        n = stack.pop()
        k = type(n).__name__
        if isinstance(n, BinaryOp):
            k = "BinaryOp" + n.op
            stack += [n.left, n.right]
        elif isinstance(n, UnaryOp):
            k = "UnaryOp:" + n.op
            stack.append(n.operand)
        else:
            for attr in ("vector", "left", "right", "expression"):
                sub = getattr(n, attr, None)
                if sub is not None and hasattr(sub, "_expressions"):
                    stack += list(sub._expressions)
            m = getattr(n, "matrix", None)
            if m is not None and hasattr(m, "_expressions"):
                stack += [x for row in m._expressions for x in row]
        acc[k] = acc.get(k, 0) + 1
    return acc
