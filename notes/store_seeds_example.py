import json, os, re, subprocess, sys, glob
for rp in sorted(glob.glob('/tmp/seed9_reports/C*.json')):
    rep = json.load(open(rp)); pid = rep['property']
    log = open(f'/tmp/try9/{pid}.txt').read()
    if '== ./check' not in log or not (any(l.startswith(f'{pid} tier=') for l in log.splitlines())):
        print(pid, 'try not finished'); continue
    if os.path.exists(f"/verif/seeded/{pid}-{rep['short_name']}/meta.json"): continue
    if not any(l.startswith(f'{pid} tier=') for l in log.splitlines()):
        print(pid, 'check crashed (exit 2): stored as MISSED')
    name = f"{pid}-{rep['short_name']}"
    d = f"/verif/seeded/{name}"
    os.makedirs(d, exist_ok=True)
    wt = f"/tmp/seed9_{pid}"
    diff = subprocess.run(["git", "-C", wt, "diff", "--", "src"], capture_output=True, text=True).stdout
    open(f"{d}/patch.diff", "w").write(diff)
    open(f"{d}/demo.py", "w").write(open(f"{wt}/seeded_demo.py").read())
    tests = re.search(r"== tests with change: (.*)", log).group(1).strip()
    dw = re.search(r"demo with change exit: (\d+)", log).group(1)
    dwo = re.search(r"demo without change exit: (\d+)", log).group(1)
    last = [l for l in log.splitlines() if l.startswith(f"{pid} tier=")]
    viol = [l for l in log.splitlines() if l.startswith("VIOLATION")]
    caught = bool(last and "exit 1" in last[-1])
    nf = bool(viol and "no-failing-input-found" in viol[0])
    first = "caught" if caught and not nf else ("tie broken, no input" if caught else "MISSED")
    meta = {"property": pid, "round": 9, "summary": rep["summary"], "needs_to_manifest": rep["needs_to_manifest"],
            "files_changed": rep["files_changed"], "commands_run": rep["commands_run"],
            "verified_by_coordinator": {"tests_pass_with_change": "passed" in tests and "failed" not in tests, "tests_output": tests,
                                        "demo_fails_with_change": dw == "1", "demo_passes_without_change": dwo == "0",
                                        "ran": [f"seeded/try_isolated.sh {pid} {wt}   (scratch copy of /repo with the patch, private copy of /verif; /repo untouched)"],
                                        "caught_by_check": first, "first_run": first,
                                        "check_output": (viol[0] + " | " if viol else "") + (last[-1] if last else "")}}
    json.dump(meta, open(f"{d}/meta.json", "w"), indent=1)
    print(name, "|", first, "| tests:", tests, "| demo", dw, dwo)
