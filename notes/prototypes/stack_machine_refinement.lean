-- refinement: explicit-stack post-order = recursion (core only)
inductive T where
  | leaf : Nat → T
  | neg : T → T
  | bin : Bool → T → T → T   -- true: add, false: sub

def T.rec' : T → Int
  | .leaf n => n
  | .neg a => - a.rec'
  | .bin true a b => a.rec' + b.rec'
  | .bin false a b => a.rec' - b.rec'

def T.size : T → Nat
  | .leaf _ => 1
  | .neg a => a.size + 2
  | .bin _ a b => a.size + b.size + 2

abbrev Frame := T × Nat  -- node, phase
structure St where
  stack : List Frame
  res : List Int

def step (s : St) : St :=
  match s.stack with
  | [] => s
  | (.leaf n, _) :: rest => ⟨rest, (n : Int) :: s.res⟩
  | (.neg a, 0) :: rest => ⟨(a, 0) :: (.neg a, 1) :: rest, s.res⟩
  | (.neg _, _) :: rest =>
      match s.res with
      | r :: rs => ⟨rest, (-r) :: rs⟩
      | [] => ⟨rest, []⟩
  | (.bin o a b, 0) :: rest => ⟨(a, 0) :: (b, 0) :: (.bin o a b, 1) :: rest, s.res⟩
  | (.bin o _ _, _) :: rest =>
      match s.res with
      | r :: l :: rs => ⟨rest, (if o then l + r else l - r) :: rs⟩
      | _ => ⟨rest, []⟩

def run : Nat → St → St
  | 0, s => s
  | n+1, s => run n (step s)

theorem run_add (m n : Nat) (s : St) : run (m + n) s = run n (run m s) := by
  induction m generalizing s with
  | zero => simp [run]
  | succ m ih => rw [Nat.succ_add]; simp [run, ih]

theorem run_node (t : T) (rest : List Frame) (rs : List Int) :
    run t.size ⟨(t, 0) :: rest, rs⟩ = ⟨rest, t.rec' :: rs⟩ := by
  induction t generalizing rest rs with
  | leaf n => simp [T.size, run, step, T.rec']
  | neg a ih =>
    have : (T.neg a).size = 1 + (a.size + 1) := by simp [T.size]; omega
    rw [this, run_add, run_add]
    simp [run, step, ih, T.rec']
  | bin o a b iha ihb =>
    have : (T.bin o a b).size = 1 + (a.size + (b.size + 1)) := by simp [T.size]; omega
    rw [this, run_add, run_add, run_add]
    cases o <;> simp [run, step, iha, ihb, T.rec']

def iter (t : T) : Option Int := (run t.size ⟨[(t,0)], []⟩).res.head?

theorem iter_eq (t : T) : iter t = some t.rec' := by
  simp [iter, run_node]
#print axioms iter_eq
