-- CPython list slicing: PySlice_AdjustIndices + iteration (core only)
def adjust (n : Int) (start stop : Option Int) (step : Int) : Int × Int :=
  -- step ≠ 0 assumed (Python raises ValueError for 0)
  let lower : Int := if step < 0 then -1 else 0
  let upper : Int := if step < 0 then n - 1 else n
  let clamp (v : Int) : Int :=
    if v < 0 then (if v + n < lower then lower else v + n) else (if v > upper then upper else v)
  let s := match start with | none => (if step < 0 then upper else lower) | some v => clamp v
  let e := match stop with | none => (if step < 0 then lower else upper) | some v => clamp v
  (s, e)

def sliceIdx (n : Nat) (start stop : Option Int) (step : Int) : List Nat :=
  let (s, e) := adjust n start stop step
  let len : Nat :=
    if step > 0 then (if s < e then ((e - s - 1) / step + 1).toNat else 0)
    else (if e < s then ((s - e - 1) / (-step) + 1).toNat else 0)
  (List.range len).map fun (k : Nat) => (s + step * (k : Int)).toNat

def pySlice {α} (l : List α) (start stop : Option Int) (step : Int) : List α :=
  (sliceIdx l.length start stop step).filterMap fun i => l[i]?

def showO : Option Int → String | none => "None" | some v => toString v
def main : IO Unit := do
  let opts : List (Option Int) := [none, some (-7), some (-3), some (-1), some 0, some 1, some 2, some 3, some 6]
  for n in [0,1,2,3,4,5] do
    for st in opts do
      for sp in opts do
        for step in ([-3,-2,-1,1,2,3] : List Int) do
          IO.println s!"{n} {showO st} {showO sp} {step} {sliceIdx n st sp step}"
