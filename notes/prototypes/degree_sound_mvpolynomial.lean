import Mathlib.Algebra.MvPolynomial.Degrees
import Mathlib.Algebra.MvPolynomial.CommRing
import Mathlib.Algebra.MvPolynomial.Eval
import Mathlib.Analysis.SpecialFunctions.Trigonometric.Basic

inductive E where
  | const : ℚ → E
  | var : String → E
  | add : E → E → E
  | sub : E → E → E
  | mul : E → E → E
  | divc : E → ℚ → E          -- division by a literal constant
  | powc : E → ℕ → E          -- non-negative integer literal exponent
  | neg : E → E
  | sin : E → E
open E MvPolynomial

noncomputable def ev (ρ : String → ℝ) : E → ℝ
  | const c => c
  | var n => ρ n
  | add a b => ev ρ a + ev ρ b
  | sub a b => ev ρ a - ev ρ b
  | mul a b => ev ρ a * ev ρ b
  | divc a c => ev ρ a / c
  | powc a n => ev ρ a ^ n
  | neg a => - ev ρ a
  | sin a => Real.sin (ev ρ a)

def deg : E → Option ℕ
  | const _ => some 0
  | var _ => some 1
  | add a b | sub a b => do let x ← deg a; let y ← deg b; pure (max x y)
  | mul a b => do
      let x ← deg a; let y ← deg b
      if 0 < x ∧ 0 < y then none else pure (x + y)
  | divc a _ => deg a
  | powc a n => do let x ← deg a; pure (x * n)
  | neg a => deg a
  | sin _ => none

def PolyLE (f : (String → ℝ) → ℝ) (d : ℕ) : Prop :=
  ∃ p : MvPolynomial String ℝ, p.totalDegree ≤ d ∧ ∀ ρ, f ρ = eval ρ p

theorem deg_sound (e : E) : ∀ d, deg e = some d → PolyLE (fun ρ => ev ρ e) d := by
  induction e with
  | const c => intro d h; simp [deg] at h; subst h; exact ⟨C (c:ℝ), by simp, by intro ρ; simp [ev]⟩
  | var n => intro d h; simp [deg] at h; subst h; exact ⟨X n, by simp, by intro ρ; simp [ev]⟩
  | add a b iha ihb =>
    intro d h
    simp only [deg, Option.bind_eq_bind, Option.bind_eq_some_iff, Option.pure_def, Option.some.injEq] at h
    obtain ⟨x, hx, y, hy, rfl⟩ := h
    obtain ⟨p, hp, hpe⟩ := iha x hx; obtain ⟨q, hq, hqe⟩ := ihb y hy
    exact ⟨p + q, (totalDegree_add p q).trans (max_le_max hp hq), by intro ρ; simp [ev, hpe, hqe]⟩
  | sub a b iha ihb =>
    intro d h
    simp only [deg, Option.bind_eq_bind, Option.bind_eq_some_iff, Option.pure_def, Option.some.injEq] at h
    obtain ⟨x, hx, y, hy, rfl⟩ := h
    obtain ⟨p, hp, hpe⟩ := iha x hx; obtain ⟨q, hq, hqe⟩ := ihb y hy
    exact ⟨p - q, (totalDegree_sub p q).trans (max_le_max hp hq), by intro ρ; simp [ev, hpe, hqe]⟩
  | mul a b iha ihb =>
    intro d h
    simp only [deg, Option.bind_eq_bind, Option.bind_eq_some_iff] at h
    obtain ⟨x, hx, y, hy, h⟩ := h
    split at h
    · simp at h
    · simp at h; subst h
      obtain ⟨p, hp, hpe⟩ := iha x hx; obtain ⟨q, hq, hqe⟩ := ihb y hy
      exact ⟨p * q, (totalDegree_mul p q).trans (Nat.add_le_add hp hq), by intro ρ; simp [ev, hpe, hqe]⟩
  | divc a c iha =>
    intro d h
    obtain ⟨p, hp, hpe⟩ := iha d (by simpa [deg] using h)
    refine ⟨p * C ((c:ℝ)⁻¹), (totalDegree_mul _ _).trans (by simpa using hp), ?_⟩
    intro ρ; simp [ev, hpe, div_eq_mul_inv]
  | powc a n iha =>
    intro d h
    simp only [deg, Option.bind_eq_bind, Option.bind_eq_some_iff, Option.pure_def, Option.some.injEq] at h
    obtain ⟨x, hx, rfl⟩ := h
    obtain ⟨p, hp, hpe⟩ := iha x hx
    refine ⟨p ^ n, (totalDegree_pow p n).trans ?_, by intro ρ; simp [ev, hpe]⟩
    rw [Nat.mul_comm]; exact Nat.mul_le_mul_right n hp
  | neg a iha =>
    intro d h
    obtain ⟨p, hp, hpe⟩ := iha d (by simpa [deg] using h)
    exact ⟨-p, by simpa using hp, by intro ρ; simp [ev, hpe]⟩
  | sin a _ => intro d h; simp [deg] at h
#print axioms deg_sound
