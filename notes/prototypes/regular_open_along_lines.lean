import Mathlib.Analysis.SpecialFunctions.Trigonometric.Deriv
import Mathlib.Analysis.SpecialFunctions.Log.Deriv

inductive E where
  | const : ℚ → E
  | var : String → E
  | add : E → E → E
  | div : E → E → E
  | log : E → E
open E

noncomputable def ev (ρ : String → ℝ) : E → ℝ
  | const c => c
  | var n => ρ n
  | add a b => ev ρ a + ev ρ b
  | div a b => ev ρ a / ev ρ b
  | log a => Real.log (ev ρ a)

def Reg (ρ : String → ℝ) : E → Prop
  | const _ => True
  | var _ => True
  | add a b => Reg ρ a ∧ Reg ρ b
  | div a b => Reg ρ a ∧ Reg ρ b ∧ ev ρ b ≠ 0
  | log a => Reg ρ a ∧ 0 < ev ρ a

-- continuity along a coordinate line at regular points (would follow from grad_hasDerivAt; here direct)
theorem cont_line (v : String) (ρ : String → ℝ) (e : E) (h : Reg ρ e) :
    ContinuousAt (fun t => ev (Function.update ρ v t) e) (ρ v) := by
  induction e with
  | const c => simpa [ev] using continuousAt_const
  | var n =>
    by_cases hn : n = v
    · subst hn; simp only [ev, Function.update_self]; exact continuous_id'.continuousAt
    · simpa [ev, Function.update_of_ne hn] using continuousAt_const
  | add a b iha ihb => exact (iha h.1).add (ihb h.2)
  | div a b iha ihb =>
    exact (iha h.1).div (ihb h.2.1) (by simpa [Function.update_eq_self] using h.2.2)
  | log a iha =>
    exact (iha h.1).log (by simpa [Function.update_eq_self] using (ne_of_gt h.2))

theorem reg_open_line (v : String) (ρ : String → ℝ) (e : E) (h : Reg ρ e) :
    ∀ᶠ t in nhds (ρ v), Reg (Function.update ρ v t) e := by
  induction e with
  | const c => simp [Reg]
  | var n => simp [Reg]
  | add a b iha ihb => exact (iha h.1).and (ihb h.2)
  | div a b iha ihb =>
    have hc := cont_line v ρ b h.2.1
    have hne : ∀ᶠ t in nhds (ρ v), ev (Function.update ρ v t) b ≠ 0 :=
      hc.eventually_ne (by simpa [Function.update_eq_self] using h.2.2)
    exact (iha h.1).and ((ihb h.2.1).and hne)
  | log a iha =>
    have hc := cont_line v ρ a h.1
    have hpos : ∀ᶠ t in nhds (ρ v), 0 < ev (Function.update ρ v t) a :=
      hc.eventually (lt_mem_nhds (by simpa [Function.update_eq_self] using h.2))
    exact (iha h.1).and hpos
#print axioms reg_open_line
