-- Refinement of an id-memoised explicit-stack traversal (shape of optyx _gradient_iterative)
-- to the plain recursion, for DAG-shaped inputs with consistent ids.  Core Lean only.
inductive T where
  | leaf (id : Nat) (tag : Nat) : T
  | un (id : Nat) (a : T) : T
  | bin (id : Nat) (l r : T) : T
  deriving DecidableEq

namespace T
def id : T → Nat
  | leaf i _ => i | un i _ => i | bin i _ _ => i
def subs : T → List T
  | leaf i t => [leaf i t]
  | un i a => un i a :: a.subs
  | bin i l r => bin i l r :: (l.subs ++ r.subs)
@[simp] theorem id_leaf (i tg : Nat) : (leaf i tg).id = i := rfl
@[simp] theorem id_un (i : Nat) (a : T) : (un i a).id = i := rfl
@[simp] theorem id_bin (i : Nat) (l r : T) : (bin i l r).id = i := rfl
theorem self_mem_subs (t : T) : t ∈ t.subs := by cases t <;> simp [subs]
theorem subs_trans {s t u : T} (h1 : s ∈ t.subs) (h2 : t ∈ u.subs) : s ∈ u.subs := by
  induction u with
  | leaf i tg => simp [subs] at h2; subst h2; exact h1
  | un i a ih =>
    simp only [subs, List.mem_cons] at h2 ⊢
    rcases h2 with rfl | h2
    · simpa [subs] using h1
    · exact Or.inr (ih h2)
  | bin i l r ihl ihr =>
    simp only [subs, List.mem_cons, List.mem_append] at h2 ⊢
    rcases h2 with rfl | h2 | h2
    · simpa [subs] using h1
    · exact Or.inr (Or.inl (ihl h2))
    · exact Or.inr (Or.inr (ihr h2))
end T
open T

variable {Out : Type} (gl : Nat → Out) (fu : T → Out → Out) (fb : T → Out → Out → Out)

/-- the recursive algorithm (spec) -/
def grad : T → Out
  | leaf _ tg => gl tg
  | un i a => fu (un i a) (grad a)
  | bin i l r => fb (bin i l r) (grad l) (grad r)

abbrev Res (Out : Type) := List (Nat × Out)
def look (R : Res Out) (i : Nat) : Option Out := (R.find? (·.1 == i)).map (·.2)

structure St (Out : Type) where
  stack : List (T × Nat)
  res : Res Out

/-- one iteration of the `while stack:` loop -/
def step [Inhabited Out] (s : St Out) : St Out :=
  match s.stack with
  | [] => s
  | (t, ph) :: rest =>
    if (look s.res t.id).isSome then ⟨rest, s.res⟩ else
    match t with
    | leaf i tg => ⟨rest, (i, gl tg) :: s.res⟩
    | un i a =>
      if ph = 0 then
        match look s.res a.id with
        | some d => ⟨rest, (i, fu (un i a) d) :: s.res⟩
        | none => ⟨(a, 0) :: (un i a, 1) :: rest, s.res⟩
      else ⟨rest, (i, fu (un i a) ((look s.res a.id).getD default)) :: s.res⟩
    | bin i l r =>
      if ph = 0 then
        match look s.res l.id, look s.res r.id with
        | some dl, some dr => ⟨rest, (i, fb (bin i l r) dl dr) :: s.res⟩
        | some _, none => ⟨(r, 0) :: (bin i l r, 1) :: rest, s.res⟩
        | none, some _ => ⟨(l, 0) :: (bin i l r, 1) :: rest, s.res⟩
        | none, none => ⟨(l, 0) :: (r, 0) :: (bin i l r, 1) :: rest, s.res⟩
      else ⟨rest, (i, fb (bin i l r) ((look s.res l.id).getD default) ((look s.res r.id).getD default)) :: s.res⟩

def run [Inhabited Out] : Nat → St Out → St Out
  | 0, s => s
  | n+1, s => run n (step gl fu fb s)

theorem run_add [Inhabited Out] (m n : Nat) (s : St Out) :
    run gl fu fb (m + n) s = run gl fu fb n (run gl fu fb m s) := by
  induction m generalizing s with
  | zero => simp [run]
  | succ m ih => rw [Nat.succ_add]; simp [run, ih]

/-- ids are consistent inside `root` -/
def Consistent (root : T) : Prop := ∀ s₁ ∈ root.subs, ∀ s₂ ∈ root.subs, s₁.id = s₂.id → s₁ = s₂

/-- memo invariant: every stored value is the gradient of the subtree of `root` with that id -/
def RInv (root : T) (R : Res Out) : Prop :=
  ∀ s ∈ root.subs, ∀ o, look R s.id = some o → o = grad gl fu fb s

def Ext (R R' : Res Out) : Prop := ∀ i o, look R i = some o → look R' i = some o

theorem look_cons_self (R : Res Out) (i : Nat) (o : Out) : look ((i, o) :: R) i = some o := by
  simp [look]
theorem look_cons_ne (R : Res Out) {i j : Nat} (o : Out) (h : i ≠ j) :
    look ((i, o) :: R) j = look R j := by
  simp [look, h]

theorem RInv_insert {root : T} (hc : Consistent root) {R : Res Out} (hR : RInv gl fu fb root R)
    {t : T} (ht : t ∈ root.subs) : RInv gl fu fb root ((t.id, grad gl fu fb t) :: R) := by
  intro s hs o ho
  by_cases h : t.id = s.id
  · have : t = s := hc t ht s hs h
    subst this
    rw [look_cons_self] at ho; exact (Option.some.inj ho).symm
  · rw [look_cons_ne R _ h] at ho; exact hR s hs o ho

theorem Ext_insert {R : Res Out} {i : Nat} (o : Out) (h : look R i = none) : Ext R ((i, o) :: R) := by
  intro j o' hj
  by_cases hij : i = j
  · subst hij; rw [h] at hj; cases hj
  · rw [look_cons_ne R o hij]; exact hj

theorem Ext_refl (R : Res Out) : Ext R R := fun _ _ h => h
theorem Ext_trans {R₁ R₂ R₃ : Res Out} (h₁ : Ext R₁ R₂) (h₂ : Ext R₂ R₃) : Ext R₁ R₃ :=
  fun i o h => h₂ i o (h₁ i o h)

/-- main lemma: processing frame `(t, 0)` ends with `t`'s gradient memoised and the rest of the
    stack untouched -/
theorem run_node [Inhabited Out] (root : T) (hc : Consistent root) :
    ∀ t ∈ root.subs, ∀ (rest : List (T × Nat)) (R : Res Out), RInv gl fu fb root R →
      ∃ n R', run gl fu fb n ⟨(t, 0) :: rest, R⟩ = ⟨rest, R'⟩ ∧ RInv gl fu fb root R' ∧ Ext R R' ∧
        look R' t.id = some (grad gl fu fb t) := by
  intro t
  induction t with
  | leaf i tg =>
    intro ht rest R hR
    cases hl : look R i with
    | some o =>
      refine ⟨1, R, ?_, hR, Ext_refl R, ?_⟩
      · simp [run, step, hl]
      · have := hR _ ht o (by simpa [] using hl); simpa [this] using hl
    | none =>
      refine ⟨1, (i, gl tg) :: R, ?_, ?_, Ext_insert _ hl, ?_⟩
      · simp [run, step, hl]
      · simpa [grad] using RInv_insert gl fu fb hc hR ht
      · simpa [grad] using look_cons_self R i (gl tg)
  | un i a iha =>
    intro ht rest R hR
    have hat : a ∈ root.subs := T.subs_trans (by simp [T.subs, T.self_mem_subs]) ht
    cases hl : look R i with
    | some o =>
      refine ⟨1, R, ?_, hR, Ext_refl R, ?_⟩
      · simp [run, step, hl]
      · have := hR _ ht o (by simpa [] using hl); simpa [this] using hl
    | none =>
      cases hla : look R a.id with
      | some d =>
        have hd : d = grad gl fu fb a := hR a hat d hla
        refine ⟨1, (i, grad gl fu fb (un i a)) :: R, ?_, ?_, Ext_insert _ hl, ?_⟩
        · simp [run, step, hl, hla, grad, hd]
        · simpa [] using RInv_insert gl fu fb hc hR ht
        · simpa [] using look_cons_self R i (grad gl fu fb (un i a))
      | none =>
        obtain ⟨n, R₁, hrun, hR₁, hext, hlook⟩ := iha hat ((un i a, 1) :: rest) R hR
        -- after the child: frame (t,1)
        cases hl₁ : look R₁ i with
        | some o =>
          refine ⟨1 + (n + 1), R₁, ?_, hR₁, hext, ?_⟩
          · rw [run_add, run_add]; simp [run, step, hl, hla, hrun, hl₁]
          · have := hR₁ _ ht o (by simpa [] using hl₁); simpa [this] using hl₁
        | none =>
          refine ⟨1 + (n + 1), (i, grad gl fu fb (un i a)) :: R₁, ?_, ?_,
            Ext_trans hext (Ext_insert _ hl₁), ?_⟩
          · rw [run_add, run_add]; simp [run, step, hl, hla, hrun, hl₁, hlook, grad]
          · simpa [] using RInv_insert gl fu fb hc hR₁ ht
          · simpa [] using look_cons_self R₁ i (grad gl fu fb (un i a))
  | bin i l r ihl ihr =>
    intro ht rest R hR
    have hlt : l ∈ root.subs := T.subs_trans (by simp [T.subs, T.self_mem_subs]) ht
    have hrt : r ∈ root.subs := T.subs_trans (by simp [T.subs, T.self_mem_subs]) ht
    cases hl : look R i with
    | some o =>
      refine ⟨1, R, ?_, hR, Ext_refl R, ?_⟩
      · simp [run, step, hl]
      · have := hR _ ht o (by simpa [] using hl); simpa [this] using hl
    | none =>
      -- finishing step shared by all sub-cases: from a state where both children are memoised
      have finish : ∀ (R₁ : Res Out), RInv gl fu fb root R₁ → Ext R R₁ →
          look R₁ l.id = some (grad gl fu fb l) → look R₁ r.id = some (grad gl fu fb r) →
          ∃ R', run gl fu fb 1 ⟨(bin i l r, 1) :: rest, R₁⟩ = ⟨rest, R'⟩ ∧ RInv gl fu fb root R' ∧
            Ext R R' ∧ look R' i = some (grad gl fu fb (bin i l r)) := by
        intro R₁ hR₁ hext h1 h2
        cases hl₁ : look R₁ i with
        | some o =>
          refine ⟨R₁, ?_, hR₁, hext, ?_⟩
          · simp [run, step, hl₁]
          · have := hR₁ _ ht o (by simpa [] using hl₁); simpa [this] using hl₁
        | none =>
          refine ⟨(i, grad gl fu fb (bin i l r)) :: R₁, ?_, ?_, Ext_trans hext (Ext_insert _ hl₁), ?_⟩
          · simp [run, step, hl₁, h1, h2, grad]
          · simpa [] using RInv_insert gl fu fb hc hR₁ ht
          · exact look_cons_self R₁ i _
      cases hll : look R l.id with
      | some dl =>
        have hdl : dl = grad gl fu fb l := hR l hlt dl hll
        cases hlr : look R r.id with
        | some dr =>
          have hdr : dr = grad gl fu fb r := hR r hrt dr hlr
          refine ⟨1, (i, grad gl fu fb (bin i l r)) :: R, ?_, ?_, Ext_insert _ hl, ?_⟩
          · simp [run, step, hl, hll, hlr, grad, hdl, hdr]
          · simpa [] using RInv_insert gl fu fb hc hR ht
          · simpa [] using look_cons_self R i (grad gl fu fb (bin i l r))
        | none =>
          obtain ⟨n, R₁, hrun, hR₁, hext, hlook⟩ := ihr hrt ((bin i l r, 1) :: rest) R hR
          obtain ⟨R', hfin, hR', hext', hlook'⟩ :=
            finish R₁ hR₁ hext (hext _ _ (by rw [hll, hdl])) hlook
          have h0 : run gl fu fb 1 ⟨(bin i l r, 0) :: rest, R⟩ = ⟨(r, 0) :: (bin i l r, 1) :: rest, R⟩ := by
            simp [run, step, hl, hll, hlr]
          refine ⟨1 + (n + 1), R', ?_, hR', hext', by simpa [] using hlook'⟩
          rw [run_add, h0, run_add, hrun, hfin]
      | none =>
        cases hlr : look R r.id with
        | some dr =>
          have hdr : dr = grad gl fu fb r := hR r hrt dr hlr
          obtain ⟨n, R₁, hrun, hR₁, hext, hlook⟩ := ihl hlt ((bin i l r, 1) :: rest) R hR
          obtain ⟨R', hfin, hR', hext', hlook'⟩ :=
            finish R₁ hR₁ hext hlook (hext _ _ (by rw [hlr, hdr]))
          have h0 : run gl fu fb 1 ⟨(bin i l r, 0) :: rest, R⟩ = ⟨(l, 0) :: (bin i l r, 1) :: rest, R⟩ := by
            simp [run, step, hl, hll, hlr]
          refine ⟨1 + (n + 1), R', ?_, hR', hext', by simpa [] using hlook'⟩
          rw [run_add, h0, run_add, hrun, hfin]
        | none =>
          obtain ⟨n₁, R₁, hrun₁, hR₁, hext₁, hlook₁⟩ :=
            ihl hlt ((r, 0) :: (bin i l r, 1) :: rest) R hR
          obtain ⟨n₂, R₂, hrun₂, hR₂, hext₂, hlook₂⟩ := ihr hrt ((bin i l r, 1) :: rest) R₁ hR₁
          obtain ⟨R', hfin, hR', hext', hlook'⟩ :=
            finish R₂ hR₂ (Ext_trans hext₁ hext₂) (hext₂ _ _ hlook₁) hlook₂
          have h0 : run gl fu fb 1 ⟨(bin i l r, 0) :: rest, R⟩ =
              ⟨(l, 0) :: (r, 0) :: (bin i l r, 1) :: rest, R⟩ := by
            simp [run, step, hl, hll, hlr]
          refine ⟨1 + (n₁ + (n₂ + 1)), R', ?_, hR', hext', by simpa [] using hlook'⟩
          rw [run_add, h0, run_add, hrun₁, run_add, hrun₂, hfin]

/-- the iterative algorithm returns the recursive gradient -/
theorem iter_eq_rec [Inhabited Out] (root : T) (hc : Consistent root) :
    ∃ n R, run gl fu fb n ⟨[(root, 0)], []⟩ = ⟨[], R⟩ ∧ look R root.id = some (grad gl fu fb root) := by
  obtain ⟨n, R, h, _, _, hl⟩ := run_node gl fu fb root hc root (T.self_mem_subs root) [] []
    (by intro s _ o ho; simp [look] at ho)
  exact ⟨n, R, h, hl⟩
#print axioms iter_eq_rec
