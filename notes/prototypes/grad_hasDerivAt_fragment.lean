import Mathlib.Analysis.SpecialFunctions.Trigonometric.Deriv
import Mathlib.Analysis.SpecialFunctions.Log.Deriv
import Mathlib.Analysis.SpecialFunctions.Sqrt
import Mathlib.Analysis.Calculus.Deriv.Abs

inductive E where
  | const : ℚ → E
  | var : Nat → E
  | add : E → E → E
  | mul : E → E → E
  | div : E → E → E
  | sin : E → E
  | cos : E → E
  | neg : E → E
  deriving DecidableEq, Repr

open E

noncomputable def ev (env : Nat → ℝ) : E → ℝ
  | const c => (c : ℝ)
  | var i => env i
  | add a b => ev env a + ev env b
  | mul a b => ev env a * ev env b
  | div a b => ev env a / ev env b
  | sin a => Real.sin (ev env a)
  | cos a => Real.cos (ev env a)
  | neg a => - ev env a

def isZero : E → Bool | const c => c == 0 | _ => false
def isOne : E → Bool | const c => c == 1 | _ => false

def sAdd (a b : E) : E := if isZero a then b else if isZero b then a else add a b
def sMul (a b : E) : E :=
  if isZero a || isZero b then const 0 else if isOne a then b else if isOne b then a else mul a b
def sSub0 (a : E) : E := if isZero a then const 0 else match a with | neg x => x | _ => neg a
def sDiv (a b : E) : E := if isZero a then const 0 else if isOne b then a else div a b

def grad (v : Nat) : E → E
  | const _ => const 0
  | var i => if i = v then const 1 else const 0
  | add a b => sAdd (grad v a) (grad v b)
  | mul a b => sAdd (sMul a (grad v b)) (sMul b (grad v a))
  | div a b => sDiv (sAdd (sMul b (grad v a)) (sSub0 (sMul a (grad v b)))) (sMul b b)
  | sin a => sMul (cos a) (grad v a)
  | cos a => sMul (sSub0 (sin a)) (grad v a)
  | neg a => sSub0 (grad v a)

def Regular (env : Nat → ℝ) : E → Prop
  | const _ => True
  | var _ => True
  | add a b => Regular env a ∧ Regular env b
  | mul a b => Regular env a ∧ Regular env b
  | div a b => Regular env a ∧ Regular env b ∧ ev env b ≠ 0
  | sin a => Regular env a
  | cos a => Regular env a
  | neg a => Regular env a

theorem isZero_ev {a : E} (h : isZero a = true) (env) : ev env a = 0 := by
  cases a <;> simp_all [isZero, ev]
theorem isOne_ev {a : E} (h : isOne a = true) (env) : ev env a = 1 := by
  cases a <;> simp_all [isOne, ev]

@[simp] theorem ev_sAdd (env a b) : ev env (sAdd a b) = ev env a + ev env b := by
  unfold sAdd; split
  · rename_i h; simp [isZero_ev h]
  · split
    · rename_i h; simp [isZero_ev h]
    · rfl
@[simp] theorem ev_sMul (env a b) : ev env (sMul a b) = ev env a * ev env b := by
  unfold sMul; split
  · rename_i h; simp only [Bool.or_eq_true] at h
    rcases h with h | h <;> simp [isZero_ev h, ev]
  · split
    · rename_i h; simp [isOne_ev h]
    · split
      · rename_i h; simp [isOne_ev h]
      · rfl
@[simp] theorem ev_sSub0 (env a) : ev env (sSub0 a) = - ev env a := by
  unfold sSub0; split
  · rename_i h; simp [isZero_ev h, ev]
  · split <;> simp [ev]
@[simp] theorem ev_sDiv (env a b) : ev env (sDiv a b) = ev env a / ev env b := by
  unfold sDiv; split
  · rename_i h; simp [isZero_ev h, ev]
  · split
    · rename_i h; simp [isOne_ev h]
    · rfl

theorem grad_correct (v : Nat) (env : Nat → ℝ) (e : E) (hr : Regular env e) :
    HasDerivAt (fun t => ev (Function.update env v t) e) (ev env (grad v e)) (env v) := by
  induction e with
  | const c => simpa [ev, grad] using hasDerivAt_const (env v) (c:ℝ)
  | var i =>
    by_cases h : i = v
    · subst h; simpa [ev, grad] using hasDerivAt_id' (env i)
    · simpa [ev, grad, h, Function.update_of_ne h] using hasDerivAt_const (env v) (env i)
  | add a b iha ihb =>
    obtain ⟨ha, hb⟩ := hr
    simpa [ev, grad] using (iha ha).fun_add (ihb hb)
  | mul a b iha ihb =>
    obtain ⟨ha, hb⟩ := hr
    refine ((iha ha).fun_mul (ihb hb)).congr_deriv ?_
    simp only [ev, grad, ev_sAdd, ev_sMul, Function.update_eq_self]; ring
  | div a b iha ihb =>
    obtain ⟨ha, hb, hne⟩ := hr
    refine ((iha ha).fun_div (ihb hb) (by simpa using hne)).congr_deriv ?_
    simp only [ev, grad, ev_sAdd, ev_sMul, ev_sDiv, ev_sSub0, Function.update_eq_self]; ring
  | sin a iha =>
    refine ((iha hr).sin).congr_deriv ?_
    simp only [ev, grad, ev_sMul, Function.update_eq_self]
  | cos a iha =>
    refine ((iha hr).cos).congr_deriv ?_
    simp only [ev, grad, ev_sMul, ev_sSub0, Function.update_eq_self]
  | neg a iha =>
    simpa [ev, grad] using (iha hr).fun_neg

#print axioms grad_correct
