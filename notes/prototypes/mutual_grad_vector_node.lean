import Mathlib.Analysis.SpecialFunctions.Trigonometric.Deriv

mutual
inductive Ex where
  | const : ℚ → Ex
  | var : String → Ex
  | mul : Ex → Ex → Ex
  | sin : Ex → Ex
  | cos : Ex → Ex
  | lin : List ℚ → EL → Ex        -- LinearCombination over a VectorExpression
inductive EL where
  | nil : EL
  | cons : Ex → EL → EL
end
open Ex EL

mutual
noncomputable def ev (ρ : String → ℝ) : Ex → ℝ
  | const c => c
  | var n => ρ n
  | mul a b => ev ρ a * ev ρ b
  | sin a => Real.sin (ev ρ a)
  | cos a => Real.cos (ev ρ a)
  | lin cs l => dotL ρ cs l
noncomputable def dotL (ρ : String → ℝ) : List ℚ → EL → ℝ
  | c :: cs, EL.cons e l => (c:ℝ) * ev ρ e + dotL ρ cs l
  | _, _ => 0
end

def isZero : Ex → Bool | const c => c == 0 | _ => false
def isOne : Ex → Bool | const c => c == 1 | _ => false
def sAdd (a b : Ex) : Ex := if isZero a then b else if isZero b then a else
  Ex.lin [1,1] (EL.cons a (EL.cons b EL.nil))   -- stand-in for BinaryOp +
def sMul (a b : Ex) : Ex :=
  if isZero a || isZero b then const 0 else if isOne a then b else if isOne b then a else mul a b

mutual
def grad (v : String) : Ex → Ex
  | const _ => const 0
  | var n => if n = v then const 1 else const 0
  | mul a b => sAdd (sMul a (grad v b)) (sMul b (grad v a))
  | sin a => sMul (cos a) (grad v a)
  | cos a => sMul (mul (const (-1)) (sin a)) (grad v a)
  | lin cs l => gradL v cs l
def gradL (v : String) : List ℚ → EL → Ex
  | c :: cs, EL.cons e l => sAdd (sMul (const c) (grad v e)) (gradL v cs l)   -- (fold order differs from Python; prototype only)
  | _, _ => const 0
end

theorem isZero_ev {a : Ex} (h : isZero a = true) (ρ) : ev ρ a = 0 := by
  cases a <;> simp_all [isZero, ev]
theorem isOne_ev {a : Ex} (h : isOne a = true) (ρ) : ev ρ a = 1 := by
  cases a <;> simp_all [isOne, ev]
@[simp] theorem ev_sAdd (ρ a b) : ev ρ (sAdd a b) = ev ρ a + ev ρ b := by
  unfold sAdd; split
  · rename_i h; simp [isZero_ev h]
  · split
    · rename_i h; simp [isZero_ev h]
    · simp [ev, dotL]
@[simp] theorem ev_sMul (ρ a b) : ev ρ (sMul a b) = ev ρ a * ev ρ b := by
  unfold sMul; split
  · rename_i h; simp only [Bool.or_eq_true] at h
    rcases h with h | h <;> simp [isZero_ev h, ev]
  · split
    · rename_i h; simp [isOne_ev h]
    · split
      · rename_i h; simp [isOne_ev h]
      · rfl

mutual
theorem grad_ok (v : String) (ρ : String → ℝ) : (e : Ex) →
    HasDerivAt (fun t => ev (Function.update ρ v t) e) (ev ρ (grad v e)) (ρ v)
  | const c => by simpa [ev, grad] using hasDerivAt_const (ρ v) (c:ℝ)
  | var n => by
      by_cases h : n = v
      · subst h; simpa [ev, grad] using hasDerivAt_id' (ρ n)
      · simpa [ev, grad, h, Function.update_of_ne h] using hasDerivAt_const (ρ v) (ρ n)
  | mul a b => by
      refine ((grad_ok v ρ a).fun_mul (grad_ok v ρ b)).congr_deriv ?_
      simp only [grad, ev_sAdd, ev_sMul, Function.update_eq_self]; ring
  | sin a => by
      refine ((grad_ok v ρ a).sin).congr_deriv ?_
      simp only [grad, ev_sMul, ev, Function.update_eq_self]
  | cos a => by
      refine ((grad_ok v ρ a).cos).congr_deriv ?_
      simp only [grad, ev_sMul, ev, Function.update_eq_self]; push_cast; ring
  | lin cs l => by
      simpa [ev, grad] using gradL_ok v ρ cs l
theorem gradL_ok (v : String) (ρ : String → ℝ) : (cs : List ℚ) → (l : EL) →
    HasDerivAt (fun t => dotL (Function.update ρ v t) cs l) (ev ρ (gradL v cs l)) (ρ v)
  | [], l => by simpa [dotL, gradL, ev] using hasDerivAt_const (ρ v) (0:ℝ)
  | _ :: _, EL.nil => by simpa [dotL, gradL, ev] using hasDerivAt_const (ρ v) (0:ℝ)
  | c :: cs, EL.cons e l => by
      have h1 := (grad_ok v ρ e).const_mul (c:ℝ)
      have h2 := gradL_ok v ρ cs l
      refine (h1.fun_add h2).congr_deriv ?_
      simp only [gradL, ev_sAdd, ev_sMul, ev]
end
#print axioms grad_ok
