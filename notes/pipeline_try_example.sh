#!/bin/sh
# launch try_isolated for every round-9 report that has no try log yet (max 6 at a time overall is not enforced across calls)
for f in /tmp/seed9_reports/C*.json; do
  id=$(basename $f .json)
  [ -f /tmp/try9/$id.txt ] && continue
  echo "launch $id"
  : > /tmp/try9/$id.txt
  nohup sh -c "/verif/seeded/try_isolated.sh $id /tmp/seed9_$id > /tmp/try9/$id.txt 2>&1" > /dev/null 2>&1 &
done
