import ast, sys, json
path = '/verif/harness/manifest_gen.py'
adds = json.load(open(sys.argv[1]))   # {"C06": {"text": "...", "note": "..."}}
src = open(path).read()
tree = ast.parse(src)
lines = src.split('\n')
edits = []
for node in ast.walk(tree):
    if isinstance(node, ast.Assign) and getattr(node.targets[0], 'id', None) == 'CLAIMS':
        for k, v in zip(node.value.keys, node.value.values):
            pid = k.value
            if pid in adds:
                for kw in v.keywords:
                    if kw.arg in adds[pid]:
                        c = kw.value
                        assert isinstance(c, ast.Constant) and isinstance(c.value, str), (pid, kw.arg)
                        edits.append((c.end_lineno - 1, c.end_col_offset - 1, adds[pid][kw.arg]))
for ln, col, text in sorted(edits, reverse=True):
    line = lines[ln]
    # col offsets are in utf8 bytes
    b = line.encode()
    assert b[col:col+1] == b'"', (ln, b[col-5:col+5])
    ins = text.replace('\\', '\\\\').replace('"', '\\"')
    lines[ln] = (b[:col] + ins.encode() + b[col:]).decode()
open(path, 'w').write('\n'.join(lines))
print(len(edits), "edits")
