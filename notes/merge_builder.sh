#!/bin/sh
# usage: merge_builder.sh <Cxx> <file relative to verif> [base commit]
P=$1; F=$2; BASE=${3:-1a8958b}
cd /verif
git show $BASE:$F > /tmp/merge_base_file
diff -u /tmp/merge_base_file /root/vwork_$P/$F > /tmp/merge_$P.diff
patch -p0 --dry-run $F < /tmp/merge_$P.diff >/dev/null 2>&1 && patch -p0 $F < /tmp/merge_$P.diff | tail -1 || echo "PATCH DOES NOT APPLY"
