import json, sys, re, html
path, out = sys.argv[1], sys.argv[2]
last = None
for line in open(path):
    try: d = json.loads(line)
    except Exception: continue
    msg = d.get("message") or {}
    if msg.get("role") == "assistant":
        c = msg.get("content")
        if isinstance(c, list):
            t = "".join(x.get("text", "") for x in c if isinstance(x, dict) and x.get("type") == "text")
        else: t = c or ""
        if t.strip(): last = t
m = re.search(r"\{.*\}", last or "", re.S)
rep = json.loads(html.unescape(m.group(0)))
json.dump(rep, open(out, "w"), indent=1)
print(rep["property"], rep["short_name"])
