import warnings, sys, random, math
import numpy as np
from fractions import Fraction
from optyx import *
from optyx.core.expressions import BinaryOp, UnaryOp, Constant
from optyx.analysis import LinearProgramExtractor
warnings.simplefilter("ignore")
rng = random.Random(int(sys.argv[1]) if len(sys.argv)>1 else 0)
bad=0; n=0
for it in range(int(sys.argv[2]) if len(sys.argv)>2 else 300):
    k = rng.choice([1,2,3,4])
    x = VectorVariable("x", k, lb=rng.choice([None,0,-2]), ub=rng.choice([None,5,3]))
    extra = [Variable(nm) for nm in rng.sample(["a","z","x[9]","w1","w10","w2"], rng.choice([0,0,1,2]))]
    A = MatrixVariable("A", 2, 2) if rng.random()<0.3 else None
    pool_vars = list(x)+extra+( [A[0,0],A[1,0],A[0,1]] if A is not None else [])
    def lin(d):
        r = rng.random()
        if d==0 or r<0.25:
            c = rng.choice([
                lambda: rng.choice(pool_vars),
                lambda: Constant(rng.choice([0,1,2,-3,0.5])),
                lambda: x.sum(),
                lambda: np.array([rng.choice([1.,2,-1,0,0.5]) for _ in range(k)]) @ x,
                lambda: x[::-1].sum() if k>1 else x.sum(),
                lambda: np.array([rng.choice([1.,2,-1]) for _ in range(k)]) @ (x + rng.choice([1,2.5])),
                lambda: (x*2 - 1).sum(),
                lambda: (A[0,:].sum() if A is not None else x[0]),
                lambda: (A.T[0,:].sum() if A is not None else x[0]),
                lambda: (np.array([1.,2.]) @ A[:,1] if A is not None else x[0]),
            ])
            return c()
        if r<0.5: return lin(d-1) + lin(d-1)
        if r<0.65: return lin(d-1) - lin(d-1)
        if r<0.75: return rng.choice([2,-1,0.5,0,3]) * lin(d-1)
        if r<0.8: return lin(d-1) * rng.choice([2,-1,0.5])
        if r<0.87: return lin(d-1) / rng.choice([2,-4,0.5])
        if r<0.92: return -lin(d-1)
        if r<0.96: return lin(d-1) ** 1
        return (Constant(2)+Constant(1)) * lin(d-1)
    def mk(d):
        e = lin(d)
        if isinstance(e,(int,float)): e = Constant(e)
        return e
    obj = mk(rng.choice([0,1,2]))
    cons=[]
    for _ in range(rng.choice([0,1,2,3])):
        l = mk(rng.choice([0,1,2])); r = rng.choice([lambda: rng.choice([0,1,5,-2.5]), lambda: mk(1)])()
        s = rng.choice(["<=",">=","=="])
        try:
            c = (l<=r) if s=="<=" else (l>=r) if s==">=" else l.eq(r)
        except Exception as ex:
            continue
        cons.append((l,r,s,c))
    p = Problem()
    (p.minimize if rng.random()<0.5 else p.maximize)(obj)
    for (_,_,_,c) in cons: p.subject_to(c)
    if not p._is_linear_problem(): continue
    try:
        d = LinearProgramExtractor().extract(p)
    except Exception as ex:
        print("EXTRACT EXC", type(ex).__name__, str(ex)[:100]); bad+=1; continue
    n+=1
    names = d.variables
    for trial in range(3):
        vals = {nm: float(rng.choice([-2,-1,0,1,2,3])) for nm in names}
        xv = np.array([vals[nm] for nm in names])
        ov = float(obj.evaluate(vals)) if names else float(obj.evaluate({}))
        c0 = ov - float(d.c @ xv)
        # objective: c.x differs from obj by a constant -> check constancy across trials
        if trial==0: c00=c0
        elif abs(c0-c00)>1e-9: print("OBJ COEFF MISMATCH", repr(obj)[:200], names, d.c); bad+=1; break
        iu=0; ie=0
        for (l,r,s,c) in cons:
            ev = float(c.expr.evaluate(vals))
            if s=="==":
                got = float(d.A_eq[ie]@xv - d.b_eq[ie]); ie+=1; exp_=ev
            else:
                got = float(d.A_ub[iu]@xv - d.b_ub[iu]); iu+=1; exp_= ev if s=="<=" else -ev
            if abs(got-exp_)>1e-9:
                print("CONS MISMATCH", s, got, exp_, repr(c.expr)[:250], names); bad+=1; break
print("cases", n, "bad", bad)
