import numpy as np, warnings
from optyx import *
x = VectorVariable("x", 3); A = MatrixVariable("A",2,2)
vals = {"x[0]":1.,"x[1]":2.,"x[2]":4., "A[0,0]":1.,"A[0,1]":2.,"A[1,0]":4.,"A[1,1]":8.}
arr = np.array([10.,20.,30.])
def t(name,f):
    try: print(name,'->',f())
    except Exception as e: print(name,'RAISED',type(e).__name__,str(e)[:120])
t("arr - x", lambda: [e.evaluate(vals) for e in (arr - x)])
t("arr / x", lambda: [e.evaluate(vals) for e in (arr / x)])
t("list - x", lambda: [e.evaluate(vals) for e in ([10.,20.,30.] - x)])
t("arr - (x+0)", lambda: [e.evaluate(vals) for e in (arr - (x+0))])
t("x - arr", lambda: [e.evaluate(vals) for e in (x - arr)])
t("arr + x", lambda: [e.evaluate(vals) for e in (arr + x)])
R = np.array([[8.,8.],[8.,8.]])
t("R - A", lambda: (R - A).evaluate(vals))
t("R / A", lambda: (R / A).evaluate(vals))
t("R / (A+0)", lambda: (R / (A+0)).evaluate(vals))
t("arr ** x?", lambda: (arr ** x))
t("2 ** x?", lambda: (2 ** x))
t("x ** arr", lambda: [e.evaluate(vals) for e in ((x+0) ** arr)])
t("x ** y", lambda: (x ** VectorVariable("y",3)))
