import warnings, sys, random, math
import numpy as np
from optyx import *
from optyx.core.expressions import BinaryOp, UnaryOp, Constant
from optyx.core.compiler import compile_expression, compile_gradient
from optyx.core.autodiff import gradient, compile_jacobian, compile_hessian, compute_hessian
from optyx.core.vectors import *
from optyx.core.matrices import QuadraticForm
warnings.simplefilter("ignore")
rng = random.Random(int(sys.argv[1]) if len(sys.argv)>1 else 0)
x = VectorVariable("x", 3); y = VectorVariable("y", 2); s = Variable("s")
allv = list(x)+list(y)+[s]
safe_un = [sin, cos, exp, tanh, sinh, cosh, atan, asinh]
pos_un = [log, sqrt, log2, log10]
Q = np.array([[1.,2],[0,3]])
def leaf():
    r = rng.random()
    if r<0.5: return rng.choice(allv)
    if r<0.75: return Constant(rng.choice([0,1,2,-1,0.5,3]))
    return rng.choice([x.sum(), np.array([1.,2,3])@x, x.dot(x), x[0:2].dot(y), (y+1).dot(y), QuadraticForm(y, Q),
        (x*2-1.5).sum(), np.array([1.,-1])@(y*y+1), x.norm(), norm(y+3), QuadraticForm(y*2+1, Q), norm(y+2, 1), x.norm(1)])
def gen(d):
    if d==0: return leaf()
    r = rng.random()
    if r<0.55:
        op = rng.choice("+-*/"); a,b = gen(d-1), gen(d-1)
        if op=="/": b = b*b + 1.5
        return BinaryOp(a,b,op)
    if r<0.7: return gen(d-1)**rng.choice([0,1,2,3,-1,2.0])
    if r<0.9: return rng.choice(safe_un)(gen(d-1))
    a = gen(d-1); return rng.choice(pos_un)(a*a+1.25)
bad=0;n=0
top = [lambda: (x**3).sum(), lambda: (x**2).sum(), lambda: (x**1).sum(), lambda:(x**2.5).sum(), lambda: sin(x).sum(), lambda: cos(x).sum(), lambda: exp(x).sum(), lambda: log(x).sum(), lambda: sqrt(x).sum(), lambda: tanh(x).sum()]
for it in range(int(sys.argv[2]) if len(sys.argv)>2 else 200):
    if rng.random()<0.15: e = rng.choice(top)()
    else: e = gen(rng.choice([1,2]))
    vals = {v.name: rng.choice([0.7,1.3,0.6,2.1,0.4,1.7]) for v in allv}
    V = allv[:]; rng.shuffle(V)
    if rng.random()<0.3: V = V + [Variable("extra")]; vals["extra"]=0.3
    xs = np.array([vals[v.name] for v in V])
    try:
        with np.errstate(all='ignore'):
            f0 = float(e.evaluate(vals))
            if not math.isfinite(f0) or abs(f0)>1e5: continue
            H = compile_hessian(e, V)(xs)
            g = compile_gradient(e, V)
            Hn = np.zeros_like(H); h=1e-5
            for j in range(len(V)):
                a = xs.copy(); b = xs.copy(); a[j]+=h; b[j]-=h
                Hn[:,j] = (g(a)-g(b))/(2*h)
    except Exception as ex:
        print("EXC", type(ex).__name__, str(ex)[:100], repr(e)[:120]); bad+=1; continue
    n+=1
    if not np.allclose(H, H.T): print("ASYM", repr(e)[:200]); bad+=1
    if not np.allclose(H, Hn, rtol=1e-3, atol=1e-4*(1+np.abs(Hn).max())):
        print("HESS MISMATCH", repr(e)[:250], "\n", H, "\n", Hn); bad+=1
print("cases", n, "bad", bad)
