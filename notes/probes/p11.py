import warnings, sys, random, math, itertools
import numpy as np
from optyx import *
from optyx.core.vectors import VectorExpression, vector_sum, norm as vnorm
from optyx.core.matrices import MatrixExpression, MatrixVectorProduct
warnings.simplefilter("ignore")
rng = random.Random(int(sys.argv[1]) if len(sys.argv)>1 else 0)
N = int(sys.argv[2]) if len(sys.argv)>2 else 500
bad=0; n=0; kinds={}
def val_of(obj, vals):
    # evaluate optyx object to numpy
    if isinstance(obj, VectorVariable): return np.array([vals[v.name] for v in obj])
    if isinstance(obj, VectorExpression): return np.array([float(e.evaluate(vals)) for e in obj._expressions])
    if isinstance(obj, MatrixVariable): return np.array([[vals[obj[i,j].name] for j in range(obj.cols)] for i in range(obj.rows)])
    if isinstance(obj, MatrixExpression): return np.array(obj.evaluate(vals))
    if hasattr(obj,'evaluate'):
        r = obj.evaluate(vals); return np.asarray(r, dtype=float)
    return np.asarray(obj, dtype=float)
def rslice(n):
    c = rng.random()
    if c<0.3: return slice(None)
    st = rng.choice([None,0,1,-1,-2,2]); sp = rng.choice([None,n,n-1,1,-1,0]); step = rng.choice([None,1,2,-1,-2])
    return slice(st,sp,step)
for it in range(N):
    k = rng.choice([1,2,3,4,5,6]); r_ = rng.choice([1,2,3,4]); c_ = rng.choice([1,2,3,4])
    sym = rng.random()<0.3
    if sym: c_ = r_
    x = VectorVariable("x", k); y = VectorVariable("y", k)
    A = MatrixVariable("A", r_, c_, symmetric=sym)
    vals = {}
    for v in list(x)+list(y)+A.get_variables(): vals[v.name] = float(rng.choice([-3,-2,-1,0,1,2,3,4]))
    # also the lower triangle names for non-symmetric handled by get_variables
    X = val_of(x, vals); Y = val_of(y, vals); AM = val_of(A, vals)
    pool = [("x", x, X), ("y", y, Y)]
    # views
    try:
        s = rslice(k); xs = x[s]; pool.append(("x[s]", xs, X[s]))
    except IndexError:
        if len(X[s])!=0: print("slice raised but numpy non-empty", s, k); bad+=1
    i = rng.randrange(r_); j = rng.randrange(c_)
    pool.append(("A[i,:]", A[i,:], AM[i,:])); pool.append(("A[:,j]", A[:,j], AM[:,j]))
    pool.append(("A.T[j,:]", A.T[j,:], AM.T[j,:]))
    if r_==c_: pool.append(("diag", A.diagonal(), np.diag(AM)))
    # ops on vectors
    def vec_op(name, a, av):
        ch = rng.choice(["+s","s+","-s","s-","*s","s*","/s","s/","neg","+v","-v","*v","+arr","arr-","*arr","**2","sum","dot","@arr","arr@","norm2","norm1","dotself","qf","matvec","Avar@"])
        m = len(av); sc = rng.choice([2,-1,0.5,3])
        arr = np.array([float(rng.choice([-2,-1,1,2,3])) for _ in range(m)])
        other = next(((nm,o,ov) for (nm,o,ov) in pool if len(ov)==m and o is not a), None)
        if ch=="+s": return name+ch, a+sc, av+sc
        if ch=="s+": return name+ch, sc+a, sc+av
        if ch=="-s": return name+ch, a-sc, av-sc
        if ch=="s-": return name+ch, sc-a, sc-av
        if ch=="*s": return name+ch, a*sc, av*sc
        if ch=="s*": return name+ch, sc*a, sc*av
        if ch=="/s": return name+ch, a/sc, av/sc
        if ch=="s/":
            if np.any(av==0): return None
            return name+ch, sc/a, sc/av
        if ch=="neg": return name+ch, -a, -av
        if ch=="+v" and other: return name+ch, a+other[1], av+other[2]
        if ch=="-v" and other: return name+ch, a-other[1], av-other[2]
        if ch=="*v" and other: return name+ch, a*other[1], av*other[2]
        if ch=="+arr": return name+ch, a+arr, av+arr
        if ch=="arr-": return name+ch, arr-a, arr-av
        if ch=="*arr": return name+ch, a*arr, av*arr
        if ch=="**2": return name+ch, a**2, av**2
        if ch=="sum": return name+ch, (a.sum() if hasattr(a,'sum') else vector_sum(a)), np.sum(av)
        if ch=="dot" and other: return name+ch, a.dot(other[1]), np.dot(av, other[2])
        if ch=="@arr": return name+ch, a@arr, av@arr
        if ch=="arr@": return name+ch, arr@a, arr@av
        if ch=="norm2": return name+ch, vnorm(a), np.linalg.norm(av)
        if ch=="norm1": return name+ch, vnorm(a,1), np.sum(np.abs(av))
        if ch=="dotself": return name+ch, a.dot(a), av@av
        Q = np.array([[float(rng.choice([-1,0,1,2])) for _ in range(m)] for _ in range(m)])
        if ch=="qf":
            return name+ch, a.dot(Q@a), av@Q@av
        B = np.array([[float(rng.choice([-1,0,1,2])) for _ in range(m)] for _ in range(rng.choice([1,2,3]))])
        if ch=="matvec": return name+ch, B@a, B@av
        if ch=="Avar@" and m==c_: return name+ch, A@a, AM@av
        return None
    cur = rng.choice(pool)
    name, o, ov = cur
    for depth in range(rng.choice([1,2,3])):
        if not isinstance(o,(VectorVariable,VectorExpression)): break
        try:
            res = vec_op(name, o, ov)
        except Exception as ex:
            print("EXC", type(ex).__name__, str(ex)[:120], name); bad+=1; res=None; break
        if res is None: break
        name, o, ov = res
    try:
        got = val_of(o, vals)
    except Exception as ex:
        print("EVAL EXC", type(ex).__name__, str(ex)[:100], name); bad+=1; continue
    n+=1; kinds[name.split(']')[-1][:12]] = kinds.get(name.split(']')[-1][:12],0)+1
    if got.shape!=np.asarray(ov).shape or not np.allclose(got, ov, rtol=1e-9, atol=1e-9):
        print("MISMATCH", name, got, ov, "k",k,"sym",sym); bad+=1
    # matrix ops
    mch = rng.choice(["T","+s","+arr","-M","*M","sum","trace","T+","sub","neg","arr-","(A*A).sum"])
    try:
        if mch=="T": mo, mv = A.T, AM.T
        elif mch=="+s": mo, mv = A+2, AM+2
        elif mch=="+arr":
            R = np.arange(r_*c_, dtype=float).reshape(r_,c_); mo, mv = R+A, R+AM
        elif mch=="-M": mo, mv = A-A.T if r_==c_ else A-A, AM-AM.T if r_==c_ else AM-AM
        elif mch=="*M": mo, mv = A*A, AM*AM
        elif mch=="sum": mo, mv = A.sum(), AM.sum()
        elif mch=="trace":
            if r_!=c_: continue
            mo, mv = A.trace(), np.trace(AM)
        elif mch=="T+": mo, mv = (A.T+1).T, (AM.T+1).T
        elif mch=="sub":
            rs, cs = rslice(r_), rslice(c_)
            try: mo = A[rs,cs]
            except IndexError:
                if AM[rs,cs].size!=0: print("msub raised but nonempty", rs, cs); bad+=1
                continue
            mv = AM[rs,cs]
        elif mch=="neg": mo, mv = -A, -AM
        elif mch=="arr-":
            R = np.ones((r_,c_)); mo, mv = R-A, R-AM
        else: mo, mv = (A*A).sum(), (AM*AM).sum()
        got = val_of(mo, vals)
        if got.shape!=np.asarray(mv).shape or not np.allclose(got, mv):
            print("MAT MISMATCH", mch, got, mv, "sym", sym); bad+=1
    except Exception as ex:
        print("MAT EXC", mch, type(ex).__name__, str(ex)[:120]); bad+=1
print("cases", n, "bad", bad)
