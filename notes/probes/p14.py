import warnings, sys, random, re
import numpy as np
from optyx import *
from optyx.core.vectors import *
warnings.simplefilter("ignore")
rng = random.Random(int(sys.argv[1]) if len(sys.argv)>1 else 0)
def key(nm):
    parts = re.split(r"(\d+)", nm); return tuple(int(p) if p.isdigit() else p for p in parts)
bad=0;n=0
for it in range(int(sys.argv[2]) if len(sys.argv)>2 else 500):
    k = rng.choice([1,2,3,12]); x = VectorVariable("x", k); y = VectorVariable("y", rng.choice([2,3]))
    A = MatrixVariable("A", 2, 3); S = MatrixVariable("S", 3,3, symmetric=True)
    sc = [Variable(nm) for nm in ["a","b10","b9","x","x[0]","z2y","z10y"]]
    def sl(v):
        n_=len(v); st=rng.choice([None,0,1,-1]); sp=rng.choice([None,n_,-1,0]); step=rng.choice([None,1,2,-1])
        try: return v[slice(st,sp,step)]
        except IndexError: return v
    def term():
        c = rng.choice(["xs","xsl","lc","dot","dotself","ps","us","row","col","Trow","diag","Ssum","sc","sc2","vexp","norm","qf","x0"])
        if c=="xs": return x.sum(), set(x)
        if c=="xsl": v=sl(x); return v.sum(), set(v)
        if c=="lc": v=sl(x); return np.ones(len(v))@v, set(v)
        if c=="dot": return x[0:1].dot(y[0:1]), {x[0],y[0]}
        if c=="dotself": return x.dot(x), set(x)
        if c=="ps": return (x**2).sum(), set(x)
        if c=="us": return sin(x).sum(), set(x)
        if c=="row": v=A[1,:]; return v.sum(), set(v)
        if c=="col": v=A[:,2]; return v.sum(), set(v)
        if c=="Trow": v=A.T[0,:]; return v.sum(), set(v)
        if c=="diag": v=S.diagonal(); return v.sum(), set(v)
        if c=="Ssum": return S[1,:].sum(), set(S[1,:])
        if c=="sc": v=rng.choice(sc); return v*2, {v}
        if c=="sc2": v=rng.choice(sc); w=rng.choice(sc); return v-w, {v,w}
        if c=="vexp": return (x*2+1).sum(), set(x)
        if c=="norm": return y.norm(), set(y)
        if c=="qf": return y.dot(np.eye(len(y))@y), set(y)
        if c=="x0": return x[0]+0, {x[0]}
    obj, vs = term()
    for _ in range(rng.choice([0,0,1,2])):
        t2, v2 = term(); obj = obj + t2 if rng.random()<0.7 else t2 - obj; vs |= v2
    p = Problem().minimize(obj)
    for _ in range(rng.choice([0,1,2])):
        t2, v2 = term(); p.subject_to(t2 <= 3); vs |= v2
    try:
        got = [v.name for v in p.variables]
    except Exception as ex:
        print("EXC", type(ex).__name__, str(ex)[:100]); bad+=1; continue
    exp = sorted({v.name for v in vs}, key=lambda nm:(key(nm),nm))
    n+=1
    if got!=exp:
        print("ORDER MISMATCH", got, exp); bad+=1
print("cases", n, "bad", bad)
