import warnings, sys
import numpy as np
from optyx import *
import optyx.solvers.scipy_solver as ss
import scipy.optimize
def t(name, f):
    try:
        r = f()
        print(name, '->', str(r).replace('\n',' ')[:220])
    except BaseException as e:
        print(name, 'RAISED', type(e).__name__, str(e)[:150])
warnings.simplefilter("ignore")
# C20 fault injection
x = Variable("x", lb=-5, ub=5); y = Variable("y", lb=-5, ub=5)
def mk():
    return Problem().minimize((x-1)**2 + (y-2)**2).subject_to(x + y <= 2)
orig_min = ss.minimize
for exc in [ValueError, FloatingPointError, MemoryError, KeyboardInterrupt]:
    for k in [0, 3]:
        p = mk()
        base = p.solve(method="SLSQP")
        cnt = {"n":0}
        def faulty(fun, x0, **kw):
            def f2(z):
                cnt["n"] += 1
                if cnt["n"] > k: raise exc("boom")
                return fun(z)
            return orig_min(f2, x0, **kw)
        ss.minimize = faulty
        hook0 = warnings.showwarning; rl0 = sys.getrecursionlimit()
        t(f"C20 {exc.__name__} k={k}", lambda: p.solve(method="SLSQP").status)
        ss.minimize = orig_min
        print("   hook restored:", warnings.showwarning is hook0, "reclimit:", sys.getrecursionlimit()==rl0)
        s2 = p.solve(method="SLSQP")
        print("   next solve equal:", s2.status, abs(s2.objective_value-base.objective_value)<1e-12, s2.values==base.values)
# LP path fault
lp = Problem().minimize(x + y).subject_to(x + y >= 1)
orig_lp = scipy.optimize.linprog
def bad_lp(**kw): raise KeyboardInterrupt("lp")
scipy.optimize.linprog = bad_lp
t("C20 lp KeyboardInterrupt", lambda: lp.solve().status)
def bad_lp2(**kw): raise ValueError("lp")
scipy.optimize.linprog = bad_lp2
t("C20 lp ValueError", lambda: lp.solve().status)
scipy.optimize.linprog = orig_lp
t("C20 lp after", lambda: lp.solve().status)
# C18
warnings.simplefilter("always")
b = VectorVariable("b", 2, domain="binary")
M = MatrixVariable("M", 2, 2, domain="integer", lb=0, ub=3)
for meth in ["auto","linprog","highs","SLSQP","trust-constr","L-BFGS-B"]:
    p = Problem().minimize(b.sum() + M[0,:].sum()).subject_to(b[0] + M.T[1,0] >= 0.5)
    t(f"C18 strict {meth}", lambda: p.solve(method=meth, strict=True))
    with warnings.catch_warnings(record=True) as w:
        warnings.simplefilter("always")
        t(f"C18 relax {meth}", lambda: p.solve(method=meth).status)
        print("   warnings:", [str(i.message)[:90] for i in w if 'integer/binary' in str(i.message)])
print([ (v.name, v.lb, v.ub, v.domain) for v in diag_matrix(b)._variables[0]])
