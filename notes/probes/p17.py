import warnings, sys, random, math
import numpy as np
from optyx import *
from optyx.core.expressions import BinaryOp, UnaryOp, Constant
import optyx.core.autodiff as ad, optyx.core.compiler as cp, optyx.analysis as an, optyx.core.expressions as ex
from optyx.core.vectors import *
from optyx.core.matrices import QuadraticForm
warnings.simplefilter("ignore")
rng = random.Random(int(sys.argv[1]) if len(sys.argv)>1 else 0)
x = VectorVariable("x", 3); y = VectorVariable("y", 2); s = Variable("s"); p = Parameter("par", 1.5)
allv = list(x)+list(y)+[s]
uns = [sin, cos, exp, tanh, sinh, cosh, tan, abs_, atan, asinh]
pos_un = [log, sqrt, log2, log10]
Q = np.array([[1.,2],[0,3]])
def leaf():
    r = rng.random()
    if r<0.45: return rng.choice(allv)
    if r<0.7: return Constant(rng.choice([0,1,2,-1,0.5,3]))
    if r<0.75: return p
    return rng.choice([x.sum(), np.array([1.,2,3])@x, x.dot(x), x[0:2].dot(y), (y+1).dot(y), QuadraticForm(y, Q),
        (x*2-1.5).sum(), np.array([1.,-1])@(y*y+1), x.norm(), norm(y+3), norm(y+2, 1), x.norm(1)])
def gen(d):
    if d==0: return leaf()
    r = rng.random()
    if r<0.55:
        op = rng.choice(["+","-","*","/","**"]); a,b = gen(d-1), gen(d-1)
        if op=="/": b = b*b + 1.5
        if op=="**":
            if rng.random()<0.6: b = Constant(rng.choice([0,1,2,3,-1,0.5]))
            else: a = a*a+0.5
        return BinaryOp(a,b,op)
    if r<0.9: return rng.choice(uns)(gen(d-1))
    a = gen(d-1); return rng.choice(pos_un)(a*a+1.25)
def ser(e):
    # structural repr of gradient trees
    return repr(e)
def setT(t):
    ad._RECURSION_THRESHOLD=t; cp._RECURSION_THRESHOLD=t; an._RECURSION_THRESHOLD=t; ex._RECURSION_THRESHOLD=t
    cp._compile_cached.cache_clear(); ad._gradient_cached.cache_clear(); an._compute_degree_cached.cache_clear()
bad=0;n=0; excs={}
for it in range(int(sys.argv[2]) if len(sys.argv)>2 else 300):
    e = gen(rng.choice([1,2,3,4]))
    vals = {v.name: rng.choice([0.7,1.3,0.6,2.1,0.4,1.7]) for v in allv}
    V = allv[:]; rng.shuffle(V); xs = np.array([vals[v.name] for v in V]); w = rng.choice(allv)
    out=[]
    for T in (400, 1):
        setT(T)
        r={}
        for nm,f in [("grad", lambda: ser(ad.gradient(e,w))), ("deg", lambda: an.compute_degree(e)), ("vars", lambda: sorted(v.name for v in ex.get_all_variables(e))),
                     ("val", lambda: float(cp.compile_expression(e,V)(xs)))]:
            try:
                with np.errstate(all='ignore'): r[nm]=f()
            except Exception as exn:
                r[nm]=("EXC",type(exn).__name__, str(exn)[:60])
        out.append(r)
    n+=1
    for nm in out[0]:
        a,b = out[0][nm], out[1][nm]
        same = (a==b) or (isinstance(a,float) and isinstance(b,float) and (abs(a-b)<=1e-9*(1+abs(a)) or (math.isnan(a) and math.isnan(b))))
        if not same:
            k=(nm, str(b)[:70] if isinstance(b,tuple) else "diff"); excs[k]=excs.get(k,0)+1; bad+=1
            if not isinstance(b,tuple) and excs[k]<=3: print("DIFF", nm, str(a)[:150], "||", str(b)[:150], "||", repr(e)[:150])
setT(400)
print("cases", n, "bad", bad)
for k,v in sorted(excs.items(), key=lambda kv:-kv[1]): print(v, k)
