import numpy as np, warnings
from optyx import *
warnings.simplefilter("ignore")
x = VectorVariable("x", 3, lb=0.1, ub=3)
print("deg (x**2.5).sum()+0:", ((x**2.5).sum()+0).degree, "| (x**0.5).sum()+0:", ((x**0.5).sum()+0).degree, "| (x**-1).sum()+0:", ((x**-1).sum()+0).degree, ((x**-1).sum()+0).is_linear())
p = Problem().minimize((x**0.5).sum()+0)
print("is linear problem:", p._is_linear_problem())
try:
    s = p.solve(); print(s.status, s.values, s.objective_value)
except Exception as e: print("RAISED", type(e).__name__, str(e)[:200])
p = Problem().maximize((x**-1).sum()*1)
print("is linear problem:", p._is_linear_problem())
try:
    s = p.solve(); print(s.status, s.values, s.objective_value)
except Exception as e: print("RAISED", type(e).__name__, str(e)[:200])
