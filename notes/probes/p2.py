import warnings, traceback
import numpy as np
from optyx import *
from optyx.core.compiler import compile_expression, compile_gradient
from optyx.core.autodiff import gradient, compile_jacobian, compile_hessian
from optyx.core.vectors import *
def t(name, f):
    try:
        print(name, '->', f())
    except Exception as e:
        print(name, 'RAISED', type(e).__name__, str(e)[:200])
x = VectorVariable("x", 3, lb=-5, ub=5)
t("solve (x**2).sum", lambda: Problem().minimize((x**2).sum()).solve())
t("solve sin(x).sum", lambda: Problem().minimize(sin(x).sum()).solve())
t("grad (x**2).sum", lambda: compile_gradient((x**2).sum(), list(x))(np.array([1.,2.,3.])))
t("jac (x**2).sum", lambda: compile_jacobian([(x**2).sum()], list(x))(np.array([1.,2.,3.])))
t("hess (x**3).sum", lambda: compile_hessian((x**3).sum(), list(x))(np.array([1.,2.,3.])))
t("(x**2).sum()+1 solve", lambda: Problem().minimize((x**2).sum()+1).solve())
# Parameter docs usage
prices = VectorParameter("prices", 3, values=[10,20,30])
t("prices @ x", lambda: (prices @ x))
t("prices @ x eval", lambda: (prices @ x).evaluate({"x[0]":1,"x[1]":1,"x[2]":1}))
cov = MatrixParameter("S", np.eye(3), symmetric=True)
t("cov @ x", lambda: type(cov @ x))
t("x.dot(cov@x)", lambda: x.dot(cov @ x))
t("x.dot(cov@x) eval", lambda: x.dot(cov @ x).evaluate({"x[0]":1,"x[1]":1,"x[2]":1}))
# numpy scalar comparisons
z = Variable("z")
t("np.float64 <= z", lambda: (np.float64(3) <= z))
t("np.int64 >= z", lambda: (np.int64(3) >= z))
t("z <= np.int64", lambda: (z <= np.int64(3)))
t("z <= np.array(3.)", lambda: (z <= np.array(3.)))
t("3 <= z", lambda: (3 <= z))
t("x <= np.array", lambda: (x <= np.array([1,2,3])))
t("np.array >= x", lambda: (np.array([1,2,3]) >= x))
t("np.array([1,2,3]) + x", lambda: (np.array([1,2,3]) + x))
t("np.array([1,2,3]) * x", lambda: (np.array([1.,2,3]) * x))
t("x * np.array", lambda: (x * np.array([1.,2,3])))
t("np.float64(2) * z", lambda: (np.float64(2) * z))
t("np.int64(2) * z", lambda: repr(np.int64(2) * z))
t("np.int64(2) * x", lambda: repr(np.int64(2) * x))
t("x * np.int64(2)", lambda: repr(x * np.int64(2)))
t("x[np.int64(1)]", lambda: x[np.int64(1)])
t("x + y mismatch", lambda: x + VectorVariable("y",2))
t("x[0:2] name", lambda: (x[0:2].name, x[::2].name, x[-2:].name))
