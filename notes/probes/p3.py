import warnings, traceback, sys
import numpy as np
from optyx import *
from optyx.core.compiler import compile_expression, compile_gradient
from optyx.core.autodiff import gradient, compile_jacobian, compile_hessian, _gradient_iterative
from optyx.core.vectors import *
import optyx.core.autodiff as ad, optyx.core.compiler as cp, optyx.analysis as an
def t(name, f):
    try:
        print(name, '->', f())
    except Exception as e:
        print(name, 'RAISED', type(e).__name__, str(e)[:200])
x = VectorVariable("x", 4)
a = x[0:4:2]; b = x[0:4:3]
print(a.name, b.name, [v.name for v in a], [v.name for v in b])
e = a.dot(b)   # x0*x0 + x2*x3
pt = {"x[0]":2.,"x[1]":3.,"x[2]":5.,"x[3]":7.}
t("dot same-name slices eval", lambda: e.evaluate(pt))
t("grad wrt x0 (true 2*x0=4)", lambda: gradient(e, x[0]).evaluate(pt))
A = np.array([[1.,2.],[3.,4.]])
q = a.dot(A @ b)
t("a.dot(A@b) type", lambda: type(q).__name__)
t("a.dot(A@b) eval (true: a^T A b)", lambda: (q.evaluate(pt), np.array([2.,5.])@A@np.array([2.,7.])))
# gradient MatrixSum / Frobenius
M = MatrixVariable("M",2,2)
t("grad MatrixSum", lambda: gradient(M.sum(), M[0,0]))
t("grad Frobenius", lambda: gradient(frobenius_norm(M), M[0,0]))
t("grad (M*M).sum", lambda: gradient((M*M).sum(), M[0,0]).evaluate({"M[0,0]":3.,"M[0,1]":1,"M[1,0]":1,"M[1,1]":1}))
# iterative gradient missing ops
z = Variable("z")
for op in [atan, asin, acos, asinh, acosh, atanh, log2, log10]:
    t("iter grad "+op.__name__, lambda: _gradient_iterative(op(z), z).evaluate({"z":0.5}))
# deep chain with LinearCombination over VectorExpression -> degree
c = np.array([1.,1.,1.,1.])
base = c @ (x*x)
t("shallow degree c@(x*x)", lambda: base.degree)
acc = base
for i in range(450): acc = acc + 1
t("deep degree", lambda: acc.degree)
# deep solve as LP?
xx = VectorVariable("x", 4, lb=0, ub=3)
base = np.array([1.,1.,1.,1.]) @ (xx*xx)
acc = base
for i in range(450): acc = acc + 1
with warnings.catch_warnings():
    warnings.simplefilter("ignore")
    t("deep 'LP' solve of sum x^2 maximize", lambda: Problem().maximize(acc).solve())
# deep compile with vector nodes
y = VectorVariable("y", 3)
for nm, node in [("powsum",(y**2).sum()),("unarysum",sin(y).sum()),("l2",y.norm()),("matsum",M.sum())]:
    acc = node
    for i in range(450): acc = acc + 1
    vs = sorted(acc.get_variables(), key=lambda v:v.name)
    t("deep compile "+nm, lambda: compile_expression(acc, vs)(np.ones(len(vs))))
# hessian permuted
f = (y**3).sum()
V = [y[2], y[0], Variable("w"), y[1]]
t("hess powsum perm", lambda: compile_hessian(f, V)(np.array([1.,2.,9.,3.])))
g = y[0]**3+y[1]**3+y[2]**3
t("hess general perm", lambda: compile_hessian(g, V)(np.array([1.,2.,9.,3.])))
