import warnings, sys, random, math
import numpy as np
from optyx import *
warnings.simplefilter("ignore")
rng = random.Random(int(sys.argv[1]) if len(sys.argv)>1 else 0)
def objs(x,y):
    return [lambda: x+2*y, lambda: (x-1)**2+(y-2)**2, lambda: x**2+y**2+x*0, lambda: exp(x)+y**2, lambda: -x-y, lambda: 3*x-y+1]
def conss(x,y):
    return [lambda: x+y<=2, lambda: x-y>=-1, lambda: (x+y).eq(1), lambda: x**2+y**2<=4, lambda: x>=0.5, lambda: [x<=3, y<=3]]
bad=0;n=0
for it in range(int(sys.argv[2]) if len(sys.argv)>2 else 200):
    x = Variable("x", lb=-4, ub=4); y = Variable("y", lb=-4, ub=4)
    p = Problem()
    state = {"obj":None,"sense":None,"cons":[]}
    ops=[]
    for step in range(rng.choice([2,3,4,5,6])):
        r = rng.random()
        if state["obj"] is None or r<0.25:
            i = rng.randrange(6); sense = rng.choice(["min","max"])
            e = objs(x,y)[i]()
            (p.minimize if sense=="min" else p.maximize)(e); state["obj"]=i; state["sense"]=sense; ops.append((sense,i))
        elif r<0.5:
            j = rng.randrange(6); p.subject_to(conss(x,y)[j]()); state["cons"].append(j); ops.append(("st",j))
        elif r<0.6:
            _ = p.variables; _ = p.n_variables; ops.append(("read",))
        else:
            m = rng.choice(["auto","SLSQP","trust-constr","auto"])
            try:
                s1 = p.solve(method=m)
            except Exception as ex:
                s1 = ("EXC", type(ex).__name__)
            # fresh
            x2 = Variable("x", lb=-4, ub=4); y2 = Variable("y", lb=-4, ub=4)
            q = Problem()
            (q.minimize if state["sense"]=="min" else q.maximize)(objs(x2,y2)[state["obj"]]())
            for j in state["cons"]: q.subject_to(conss(x2,y2)[j]())
            try:
                s2 = q.solve(method=m)
            except Exception as ex:
                s2 = ("EXC", type(ex).__name__)
            ops.append(("solve",m)); n+=1
            if isinstance(s1,tuple) or isinstance(s2,tuple):
                if s1!=s2: print("EXC MISMATCH", s1 if isinstance(s1,tuple) else s1.status, s2 if isinstance(s2,tuple) else s2.status, ops); bad+=1
                continue
            same = s1.status==s2.status and ((s1.objective_value is None)==(s2.objective_value is None)) and (s1.objective_value is None or abs(s1.objective_value-s2.objective_value)<=1e-9*(1+abs(s2.objective_value))) and s1.values.keys()==s2.values.keys()
            if not same:
                print("MISMATCH", s1.status, s1.objective_value, s2.status, s2.objective_value, ops); bad+=1
print("solves", n, "bad", bad)
