import warnings, sys
import numpy as np
from optyx import *
from optyx.core.compiler import compile_expression, compile_gradient
from optyx.core.autodiff import gradient, compile_jacobian, compile_hessian
from optyx.core.vectors import *
def t(name, f):
    try:
        with np.errstate(all='ignore'):
            r = f()
        print(name, '->', str(r).replace('\n',' ')[:200])
    except Exception as e:
        print(name, 'RAISED', type(e).__name__, str(e)[:150])
x = VectorVariable("x", 3)
z0 = np.array([0.,1.,-1.])
# C19
for nm, e in [("abs", abs_(x).sum()), ("sqrt", sqrt(x).sum()), ("log", log(x).sum()), ("tan", tan(x).sum()),
              ("pow.5", (x**0.5).sum()), ("pow-1", (x**-1).sum()), ("pow1.5", (x**1.5).sum()), ("pow3",(x**3).sum())]:
    t("C19 vec jac "+nm, lambda: compile_jacobian([e], list(x))(z0))
    t("C19 vec grad "+nm, lambda: compile_gradient(e, list(x))(z0))
    ee = e + 0  # general path via BinaryOp
    t("C19 gen  jac "+nm, lambda: compile_jacobian([ee], list(x))(z0))
    t("C19 hess "+nm, lambda: np.diag(compile_hessian(e, list(x))(z0)))
    t("C19 hessG "+nm, lambda: np.diag(compile_hessian(ee, list(x))(z0)))
t("C19 l2 origin", lambda: compile_jacobian([x.norm()], list(x))(np.zeros(3)))
t("C19 l2 hess origin", lambda: compile_hessian(x.norm(), list(x))(np.zeros(3)))
t("C19 l1 origin", lambda: compile_jacobian([x.norm(1)], list(x))(z0))
t("C19 scalar x**-1 at 0", lambda: compile_gradient(x[0]**-1, list(x))(z0))
t("C19 scalar x**0.5 at 0 hess", lambda: compile_hessian(x[0]**0.5, list(x))(z0))
