import warnings, sys, itertools
import numpy as np
from optyx import *
from optyx.constraints import Constraint
warnings.simplefilter("ignore")
x = Variable("x"); y = Variable("y"); v = VectorVariable("v",2); w = VectorVariable("w",2); A = MatrixVariable("A",2,2); B = MatrixVariable("B",2,2)
vals = {"x":1.5,"y":-0.5,"v[0]":1.,"v[1]":3.,"w[0]":2.,"w[1]":2.,"A[0,0]":1.,"A[0,1]":2.,"A[1,0]":3.,"A[1,1]":4.,"B[0,0]":0.,"B[0,1]":5.,"B[1,0]":3.,"B[1,1]":1.}
def num(o):
    if isinstance(o,(int,float,np.generic)): return np.asarray(float(o))
    if isinstance(o,np.ndarray): return o.astype(float)
    if isinstance(o,list): return np.asarray(o,dtype=float)
    if isinstance(o,VectorVariable): return np.array([vals[e.name] for e in o])
    if isinstance(o,MatrixVariable): return np.array([[vals[o[i,j].name] for j in range(o.cols)] for i in range(o.rows)])
    if hasattr(o,'_expressions'):
        ex=o._expressions
        if ex and isinstance(ex[0],list): return np.array([[float(e.evaluate(vals)) for e in r] for r in ex])
        return np.array([float(e.evaluate(vals)) for e in ex])
    return np.asarray(float(o.evaluate(vals)))
scal = {"int":2,"float":1.5,"npf64":np.float64(1.5),"npi64":np.int64(2),"np0d":np.array(1.5),"expr":x+y,"var":y,"const":Constant(3)}
vecs = {"vec":w,"vexpr":w*2-1,"arr1":np.array([1.,3.]),"list":[1.,3.],"int":2,"float":2.5,"npf":np.float64(2.5)}
mats = {"mat":B,"mexpr":B+1,"arr2":np.array([[1.,2.],[3.,5.]]),"int":2,"float":2.5}
import operator
bad=0;n=0
def check(lname,l,rname,r,opname):
    global bad,n
    try:
        if opname=="<=": c = l<=r
        elif opname==">=": c = l>=r
        elif opname=="eq": c = l.eq(r) if hasattr(l,'eq') else None
        if c is None: return
    except Exception as ex:
        print("RAISE", lname,opname,rname,type(ex).__name__, str(ex)[:80]); return
    cs = c if isinstance(c,list) else [c]
    if not all(isinstance(q,Constraint) for q in cs):
        print("NOT CONSTRAINT", lname,opname,rname, type(c), c if not isinstance(c,list) else [type(q) for q in c]); bad+=1; return
    L = num(l); R = num(r); D = (L-R)
    D = np.broadcast_to(D, np.broadcast(L,R).shape).ravel()
    if len(cs)!=D.size: print("COUNT", lname,opname,rname,len(cs),D.size); bad+=1; return
    for q,d in zip(cs,D):
        exp_v = max(0,d) if opname=="<=" else max(0,-d) if opname==">=" else abs(d)
        # reflected: if left was non-optyx, python flips
        got = q.violation(vals)
        n+=1
        if abs(got-exp_v)>1e-12: print("VIOL MISMATCH", lname,opname,rname,got,exp_v,q); bad+=1
for (ln,l) in [("var",x),("expr",x*2+y)]:
    for (rn,r) in scal.items():
        for op in ["<=",">=","eq"]: check(ln,l,rn,r,op)
        for op in ["<=",">="]: check(rn,r,ln,l,op)   # reflected
for (ln,l) in [("vec",v),("vexpr",v+1)]:
    for (rn,r) in vecs.items():
        for op in ["<=",">=","eq"]: check(ln,l,rn,r,op)
        for op in ["<=",">="]: check(rn,r,ln,l,op)
for (ln,l) in [("mat",A),("mexpr",A*2)]:
    for (rn,r) in mats.items():
        for op in ["<=",">=","eq"]: check(ln,l,rn,r,op)
        for op in ["<=",">="]: check(rn,r,ln,l,op)
print("checked", n, "bad", bad)
# mismatches
for l,r in [(v, VectorVariable("q",3)), (v, np.array([1.,2,3])), (A, np.ones((2,3))), (A, MatrixVariable("C",3,2)), (v, np.ones((2,2)))]:
    try: c = l<=r; print("NO RAISE", type(l).__name__, getattr(r,'shape',None), c if not isinstance(c,list) else len(c))
    except Exception as ex: print("raises ok", type(ex).__name__)
