import warnings, traceback
import numpy as np
from optyx import *
from optyx.core.compiler import compile_expression, compile_gradient
from optyx.core.autodiff import gradient, compile_jacobian, compile_hessian
from optyx.core.vectors import *
from optyx.analysis import *

def t(name, f):
    try:
        print(name, '->', f())
    except Exception as e:
        print(name, 'RAISED', type(e).__name__, str(e)[:150])

x = VectorVariable("x", 3)
# C01
t("C01 (x**2).sum compile", lambda: compile_expression((x**2).sum(), list(x))(np.array([1.,2.,3.])))
A = MatrixVariable("A",2,2)
t("C01 MatrixSum compile", lambda: compile_expression(A.sum(), A.get_variables())(np.arange(4.)))
t("C01 Frobenius compile", lambda: compile_expression(frobenius_norm(A), A.get_variables())(np.arange(4.)))
t("C01 sin(x).sum compile", lambda: compile_expression(sin(x).sum(), list(x))(np.array([1.,2.,3.])))
t("C01 x**2 elementwise compile", lambda: compile_expression((x**2), list(x))(np.array([1.,2.,3.])))
# C03
e = x[0:2].dot(x[1:3])
t("C03 overlap dot jac", lambda: compile_jacobian([e], list(x))(np.array([1.,2.,3.])))
t("C03 overlap dot grad", lambda: compile_gradient(e, list(x))(np.array([1.,2.,3.])))
S = MatrixVariable("S",2,2,symmetric=True)
t("C03 MatrixSum symmetric jac", lambda: compile_jacobian([S.sum()], S.get_variables())(np.array([1.,2.,3.])))
t("C03 MatrixSum symmetric eval", lambda: S.sum().evaluate({"S[0,0]":1,"S[0,1]":2,"S[1,1]":3}))
# C04
y = VectorVariable("y",3)
t("C04 dot(sin x, y).degree", lambda: sin(x+0).dot(y).degree if hasattr(sin(x+0),'dot') else None)
t("C04 VectorPowerSum 2.5 degree", lambda: (x**2.5).sum().degree)
t("C04 VectorPowerSum -1 degree", lambda: ((x**-1).sum().degree, (x**-1).sum().is_linear()))
t("C04 VectorPowerSum 0.5 degree", lambda: (x**0.5).sum().degree)
t("C04 qf nonlinear", lambda: QuadraticForm(sin(x+0), np.eye(3)).degree)
t("C04 x/0 degree", lambda: (x[0]/0).degree)
# C05
c = np.array([1.,2.,3.])
from optyx.analysis import LinearProgramExtractor
def lp(p):
    d = LinearProgramExtractor().extract(p); return d
p = Problem().minimize(x.sum()).subject_to(c @ (x+1) <= 10)
t("C05 c@(x+1)<=10", lambda: (lp(p).A_ub, lp(p).b_ub))
p = Problem().minimize(x[0]).subject_to((x[0]+5)**1 <= 10)
t("C05 (x+5)**1<=10", lambda: (lp(p).A_ub, lp(p).b_ub))
p = Problem().minimize((Constant(2)+3)*x[0]).subject_to(x[0]>=1)
t("C05 (2+3)*x", lambda: (lp(p).c,))
# C07
v = Variable("v", lb=0)
t("C07 min v+5", lambda: Problem().minimize(v+5).solve().objective_value)
# C06
w = Variable("w")
with warnings.catch_warnings():
    warnings.simplefilter("ignore")
    s = Problem().minimize(w**2).subject_to(w>=1).subject_to(w<=0).solve()
    print("C06", s.status, s.values, s.message)
    s = Problem().minimize(w**2).subject_to(w>=1).subject_to(w<=0).solve(method="SLSQP")
    print("C06 slsqp", s.status, s.values, s.message)
    b = Variable("b", lb=1, ub=2)
    s = Problem().minimize(b**2).solve(method="BFGS")
    print("C06 BFGS bounds", s.status, s.values, s.message)
    s = Problem().minimize((b-5)**2).solve(method="Nelder-Mead")
    print("C06 NM bounds", s.status, s.values, s.message)
# C16
p = Problem().minimize(x[::-1].sum())
t("C16 reversed", lambda: [v.name for v in p.variables])
a1 = Variable("x1"); a01 = Variable("x01")
t("C16 tie", lambda: [v.name for v in Problem().minimize(a1+a01).variables])
# C14
from optyx.core.compiler import _compile_cached
p1 = Parameter("p", 2.0); p2 = Parameter("p", 7.0); z = Variable("z")
f1 = compile_jacobian([p1*z],[z]); f2 = compile_jacobian([p2*z],[z])
print("C14", f1(np.array([1.])), f2(np.array([1.])))
