import warnings, sys
import numpy as np
from optyx import *
from optyx.core.autodiff import gradient
from optyx.core.expressions import get_all_variables
def t(name, f):
    try:
        r = f(); print(name, '->', str(r)[:150])
    except RecursionError as e:
        print(name, 'RecursionError')
    except Exception as e:
        print(name, 'RAISED', type(e).__name__, str(e)[:150])
n=5000
x = VectorVariable("x", n, lb=0, ub=1)
acc = x[0]
for i in range(1,n): acc = acc + x[i]
t("vars objective deep", lambda: len(Problem().minimize(acc).variables))
t("vars constraint deep", lambda: len(Problem().minimize(x[0]).subject_to(acc <= 5).variables))
t("degree deep", lambda: acc.degree)
t("gradient deep", lambda: type(gradient(acc, x[3])).__name__)
# right-deep
acc2 = x[n-1]
for i in range(n-2,-1,-1): acc2 = x[i] + acc2
t("vars right-deep", lambda: len(get_all_variables(acc2)))
t("degree right-deep", lambda: acc2.degree)
t("gradient right-deep", lambda: type(gradient(acc2, x[3])).__name__)
# solve deep n=900
m=900
y = VectorVariable("y", m, lb=0, ub=1)
a = y[0]
for i in range(1,m): a = a + y[i]
with warnings.catch_warnings():
    warnings.simplefilter("ignore")
    t("solve deep LP 900", lambda: Problem().maximize(a).solve().objective_value)
    b = y[0]*y[0]
    for i in range(1,m): b = b + y[i]*y[i]
    t("solve deep NLP 900", lambda: Problem().minimize(b).subject_to(a >= 1).solve().status)
