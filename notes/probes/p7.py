import warnings, sys, random, math
import numpy as np
from optyx import *
from optyx.core.expressions import BinaryOp, UnaryOp, Constant
from optyx.core.compiler import compile_expression, compile_gradient
from optyx.core.autodiff import gradient, compile_jacobian, compile_hessian
from optyx.core.vectors import *
from optyx.core.matrices import QuadraticForm
warnings.simplefilter("ignore")
rng = random.Random(int(sys.argv[1]) if len(sys.argv)>1 else 0)
x = VectorVariable("x", 4); y = VectorVariable("y", 3); s = Variable("s"); t_ = Variable("t")
allv = list(x)+list(y)+[s,t_]
safe_un = [sin, cos, exp, tanh, sinh, cosh, atan, asinh]   # total smooth
pos_un = [log, sqrt, log2, log10]  # need positive
def leaf():
    r = rng.random()
    if r<0.5: return rng.choice(allv)
    if r<0.8: return Constant(rng.choice([0,1,2,-1,0.5,3]))
    return rng.choice([x.sum(), np.array([1.,2,3,4])@x, x.dot(x), x[0:3].dot(y), x[0:2].dot(x[2:4]),
        (y+1).dot(y), QuadraticForm(y, np.array([[1.,2,0],[0,3,1],[1,0,2]])), (x*2-1.5).sum(), np.array([1.,-1,2])@(y*y+1),
        x.norm(), norm(y+3), ((x**2).sum()+0), ((y**3).sum()+0), (sin(y).sum()+0), (exp(x).sum()*1),
        QuadraticForm(y*2+1, np.array([[1.,2,0],[0,3,1],[1,0,2]])), norm(y+2, 1)])
def gen(d):
    if d==0: return leaf()
    r = rng.random()
    if r<0.55:
        op = rng.choice("+-*/")
        a,b = gen(d-1), gen(d-1)
        if op=="/": b = b*b + 1.5
        return BinaryOp(a,b,op) if not isinstance(a,(int,float)) else a
    if r<0.7:
        return gen(d-1)**rng.choice([0,1,2,3,-1,2.0])
    if r<0.9:
        return rng.choice(safe_un)(gen(d-1))
    a = gen(d-1); return rng.choice(pos_un)(a*a+1.25)
def num_grad(e, vals, v, h=1e-6):
    a = dict(vals); b = dict(vals); a[v.name]+=h; b[v.name]-=h
    return (float(e.evaluate(a))-float(e.evaluate(b)))/(2*h)
bad=0; n=0
for it in range(int(sys.argv[2]) if len(sys.argv)>2 else 300):
    e = gen(rng.choice([1,2,3]))
    if isinstance(e,(Constant,)) : continue
    vals = {v.name: rng.choice([0.7,1.3,-0.6,2.1,0.4,-1.7]) for v in allv}
    try:
        f0 = float(e.evaluate(vals))
    except Exception as ex:
        continue
    if not math.isfinite(f0) or abs(f0)>1e6: continue
    V = allv[:]; rng.shuffle(V)
    xs = np.array([vals[v.name] for v in V])
    try:
        with np.errstate(all='ignore'):
            cv = float(compile_expression(e, V)(xs))
            jac = compile_jacobian([e], V)(xs)[0]
            gr = compile_gradient(e, V)(xs)
    except Exception as ex:
        print("EXC", type(ex).__name__, str(ex)[:100], repr(e)[:150]); bad+=1; continue
    n+=1
    if abs(cv-f0) > 1e-8*(1+abs(f0)): print("VALUE MISMATCH", cv, f0, repr(e)[:200]); bad+=1
    for j,v in enumerate(V):
        ng = num_grad(e, vals, v)
        for nm,g in (("jac",jac[j]),("grad",gr[j])):
            if abs(g-ng) > 1e-4*(1+abs(ng)):
                print("GRAD MISMATCH", nm, v.name, g, ng, repr(e)[:300]); bad+=1; break
print("cases", n, "bad", bad)
