import warnings, sys, random
import numpy as np
from optyx import *
from optyx.core.compiler import compile_expression, compile_gradient
from optyx.core.autodiff import compile_jacobian, compile_hessian, gradient
warnings.simplefilter("ignore")
rng = random.Random(int(sys.argv[1]) if len(sys.argv)>1 else 0)
bad=0;n=0
def build(x,y,P):
    # P: list of 3 param-like (Parameter or Constant)
    a,b,c = P
    forms = [
      (lambda: (x-a)**2 + (y-b)**2 + c*x, [lambda: x+y<=c+3]),
      (lambda: a*x**2 + y**2 - b*y, [lambda: x - y >= a - 2]),
      (lambda: exp(a*x) + (y-c)**2 + x**2, []),
      (lambda: (x**2+y**2) * (1+a*a) + b*x, [lambda: (x+y).eq(c)]),
      (lambda: x**2 + y**2 + a, [lambda: x*b + y >= 1]),
    ]
    return forms
for it in range(int(sys.argv[2]) if len(sys.argv)>2 else 60):
    x = Variable("x", lb=-5, ub=5); y = Variable("y", lb=-5, ub=5)
    ps = [Parameter(f"p{it}_{i}", rng.choice([0.5,1.0,2.0])) for i in range(3)]
    fi = rng.randrange(5)
    of, cfs = build(x,y,ps)[fi]
    p = Problem().minimize(of())
    for cf in cfs: p.subject_to(cf())
    obj = p.objective
    f = compile_expression(obj, [x,y]); g = compile_gradient(obj,[x,y]); J = compile_jacobian([obj],[y,x]); H = compile_hessian(obj,[x,y])
    for step in range(rng.choice([2,3,5])):
        op = rng.choice(["set","set","solve","eval","call"])
        if op=="set":
            q = rng.choice(ps); q.set(rng.choice([0.25,0.5,1.0,1.5,2.0,3.0]))
        else:
            cur = [Constant(q.value) for q in ps]
            x2 = Variable("x", lb=-5, ub=5); y2 = Variable("y", lb=-5, ub=5)
            of2, cfs2 = build(x2,y2,cur)[fi]
            fresh = Problem().minimize(of2())
            for cf in cfs2: fresh.subject_to(cf())
            pt = np.array([rng.choice([0.3,1.1,-0.7]), rng.choice([0.2,-1.3,0.9])])
            n+=1
            if op=="solve":
                m = rng.choice(["auto","SLSQP","trust-constr"])
                s1 = p.solve(method=m); s2 = fresh.solve(method=m)
                if s1.status!=s2.status or abs(s1.objective_value-s2.objective_value)>1e-7*(1+abs(s2.objective_value)):
                    print("SOLVE MISMATCH", fi, m, s1.status, s1.objective_value, s2.status, s2.objective_value); bad+=1
            elif op=="eval":
                v1 = obj.evaluate({"x":pt[0],"y":pt[1]}); v2 = fresh.objective.evaluate({"x":pt[0],"y":pt[1]})
                if abs(v1-v2)>1e-12: print("EVAL MISMATCH"); bad+=1
            else:
                f2 = compile_expression(fresh.objective,[x2,y2]); g2 = compile_gradient(fresh.objective,[x2,y2]); H2 = compile_hessian(fresh.objective,[x2,y2]); J2=compile_jacobian([fresh.objective],[y2,x2])
                if abs(f(pt)-f2(pt))>1e-12 or not np.allclose(g(pt),g2(pt)) or not np.allclose(H(pt),H2(pt)) or not np.allclose(J(pt[::-1]),J2(pt[::-1])):
                    print("CALL MISMATCH", fi, f(pt), f2(pt), g(pt), g2(pt)); bad+=1
print("obs", n, "bad", bad)
