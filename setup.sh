#!/bin/sh
# Build the Lean project from files on disk only (offline).
set -e
cd "$(dirname "$0")/lean"
lake build
