#!/bin/sh
# Build the Lean project from files on disk only (offline).
set -e
DIR="$(cd "$(dirname "$0")" && pwd)"
# regenerate the translated tables from the current /repo sources first (stdlib only)
/venv/bin/python "$DIR/harness/gen_tables.py" "${OPTYX_REPO:-/repo}" "$DIR/lean/Optyx/Generated" || true
cd "$DIR/lean"
# the root module imports every property module: this builds and kernel-checks all theorems once.
# Never fatal: on a tree where a proof obligation no longer closes, the checks themselves rebuild what they
# need and report it (a broken obligation is an outcome of a check, not a set-up error).
lake build || lake build Optyx.Drive.All || true
