#!/bin/sh
# Build the Lean project from files on disk only (offline).
set -e
DIR="$(cd "$(dirname "$0")" && pwd)"
# regenerate the translated tables from the current /repo sources first (stdlib only)
/venv/bin/python "$DIR/harness/gen_tables.py" "${OPTYX_REPO:-/repo}" "$DIR/lean/Optyx/Generated" || true
cd "$DIR/lean"
lake build
