#!/bin/sh
# manual build that cooperates with running checks: shared tree lock + build lock
cd /verif/lean && exec flock -s .tree.lock flock .build.lock lake build "$@"
