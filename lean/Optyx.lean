import Optyx.Syntax
import Optyx.Alg
import Optyx.Denote
import Optyx.Sexp
import Optyx.Generated.GradRules
import Optyx.Generated.Tables
import Optyx.Py.Grad
import Optyx.Drive.All
