/- line-protocol driver: `lake env lean --run Driver/Main.lean < ops.txt` -/
import Optyx.Drive.All

partial def loop (h : IO.FS.Stream) (out : IO.FS.Stream) : IO Unit := do
  let line ← h.getLine
  if line.isEmpty then return ()
  out.putStrLn (Optyx.Drive.dispatch line)
  loop h out

def main : IO Unit := do
  let out ← IO.getStdout
  loop (← IO.getStdin) out
  out.flush
