/- line-protocol driver of the compile unit (C01, C15) until `handleCompile` is registered in
   Drive/All.lean: `lake env lean --run Driver/Main_Compile.lean < ops.txt` -/
import Optyx.Drive.Core
import Optyx.Drive.Compile

open Optyx Optyx.Drive in
def dispatchCompile (line : String) : String :=
  match Sexp.parseLine line with
  | some (.atom cmd :: args) =>
    match [handleCompile, handleCore].findSome? (fun h => h cmd args) with
    | some out => out
    | none => "bad-op"
  | _ => "bad-line"

partial def loop (h : IO.FS.Stream) (out : IO.FS.Stream) : IO Unit := do
  let line ← h.getLine
  if line.isEmpty then return ()
  out.putStrLn (dispatchCompile line)
  loop h out

def main : IO Unit := do
  let out ← IO.getStdout
  loop (← IO.getStdin) out
  out.flush
