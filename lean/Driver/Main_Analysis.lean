/- line-protocol driver for the analysis.py unit alone (until `Drive/All.lean` registers
   `handleAnalysis`): `lake env lean --run Driver/Main_Analysis.lean < ops.txt` -/
import Optyx.Drive.Analysis

def dispatchAnalysis (line : String) : String :=
  match Optyx.Sexp.parseLine line with
  | some (.atom cmd :: args) =>
    match Optyx.Drive.AnalysisNs.handleAnalysis cmd args with
    | some out => out
    | none => "bad-op"
  | _ => "bad-line"

partial def loop (h : IO.FS.Stream) (out : IO.FS.Stream) : IO Unit := do
  let line ← h.getLine
  if line.isEmpty then return ()
  out.putStrLn (dispatchAnalysis line)
  loop h out

def main : IO Unit := do
  let out ← IO.getStdout
  loop (← IO.getStdin) out
  out.flush
