/- line-protocol driver for the modelling-API handler alone (builder E):
   `lake env lean --run Driver/Main_Api.lean < ops.txt` -/
import Optyx.Drive.Api

def dispatchApi (line : String) : String :=
  match Optyx.Sexp.parseLine line with
  | some (.atom cmd :: args) =>
    match Optyx.Drive.handleApi cmd args with
    | some out => out
    | none => "bad-op"
  | _ => "bad-line"

partial def loop (h : IO.FS.Stream) (out : IO.FS.Stream) : IO Unit := do
  let line ← h.getLine
  if line.isEmpty then return ()
  out.putStrLn (dispatchApi line)
  loop h out

def main : IO Unit := do
  let out ← IO.getStdout
  loop (← IO.getStdin) out
  out.flush
