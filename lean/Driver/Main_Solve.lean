/- line-protocol driver for the solver-glue model only (until `handleSolve` is registered in
   `Optyx/Drive/All.lean`):  `lake env lean --run Driver/Main_Solve.lean < ops.txt` -/
import Optyx.Drive.Solve

def dispatchSolve (line : String) : String :=
  match Optyx.Sexp.parseLine line with
  | some (.atom cmd :: args) =>
    match Optyx.Drive.handleSolve cmd args with
    | some out => out
    | none => "bad-op"
  | _ => "bad-line"

partial def loop (h : IO.FS.Stream) (out : IO.FS.Stream) : IO Unit := do
  let line ← h.getLine
  if line.isEmpty then return ()
  out.putStrLn (dispatchSolve line)
  loop h out

def main : IO Unit := do
  let out ← IO.getStdout
  loop (← IO.getStdin) out
  out.flush
