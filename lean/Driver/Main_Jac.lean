/- line-protocol driver for the derivative callables:
   `lake env lean --run Driver/Main_Jac.lean < ops.txt` (core commands + Drive.Jac) -/
import Optyx.Drive.Core
import Optyx.Drive.Jac

def dispatchJac (line : String) : String :=
  match Optyx.Sexp.parseLine line with
  | some (.atom cmd :: args) =>
    match [Optyx.Drive.handleCore, Optyx.Drive.JacNs.handleJac].findSome? (fun h => h cmd args) with
    | some out => out
    | none => "bad-op"
  | _ => "bad-line"

partial def loop (h : IO.FS.Stream) (out : IO.FS.Stream) : IO Unit := do
  let line ← h.getLine
  if line.isEmpty then return ()
  out.putStrLn (dispatchJac line)
  loop h out

def main : IO Unit := do
  let out ← IO.getStdout
  loop (← IO.getStdin) out
  out.flush
