/-
  Optyx.Alg — the number algebra an expression is interpreted in.

  `NumAlg α` packages exactly the operations optyx performs on numbers:
  the five binary operators, the 19 unary functions, embedding of literals.
  Instances: `Float` (here, executable, used by the driver) and `ℝ`
  (in `Optyx/Lemmas/Real.lean`, Mathlib, used by the analytic theorems).
  Algebraic theorems are generic in `α`.
-/
import Optyx.Syntax

namespace Optyx

class NumAlg (α : Type) extends Add α, Sub α, Mul α, Div α, Neg α, Zero α where
  ofRat : Rat → α
  ln2   : α
  ln10  : α
  pow   : α → α → α
  /-- the 18 non-`neg` entries of `UnaryOp._OPS` (`neg` is `Neg.neg`). -/
  fn    : UnOp → α → α

namespace NumAlg
variable {α : Type} [NumAlg α]

def cst : Cst → α
  | .rat q => ofRat q
  | .ln2 => ln2
  | .ln10 => ln10

def binop : BinOp → α → α → α
  | .add, a, b => a + b
  | .sub, a, b => a - b
  | .mul, a, b => a * b
  | .div, a, b => a / b
  | .pow, a, b => pow a b

def unop : UnOp → α → α
  | .neg, a => -a
  | op, a => fn op a

/-- `sum(xs)` as a right fold (the association is irrelevant over ℝ; float
    association is outside the model, DESIGN §4.5). -/
def sum : List α → α
  | [] => 0
  | a :: t => a + sum t

/-- `np.dot(c, xs)` with rational coefficients. -/
def wsum : List Rat → List α → α
  | c :: cs, a :: t => (ofRat c : α) * a + wsum cs t
  | _, _ => 0

/-- `np.dot(xs, ys)`. -/
def dotp : List α → List α → α
  | a :: t, b :: u => a * b + dotp t u
  | _, _ => 0

/-- `x @ Q @ x` = Σ_i x_i · (Σ_j Q_ij x_j). -/
def quadForm (q : List (List Rat)) (xs : List α) : α :=
  dotp xs (q.map fun row => wsum row xs)

end NumAlg

/-- Executable double-precision instance (what NumPy computes with, up to libm). -/
def ratToFloat (q : Rat) : Float := Float.ofInt q.num / Float.ofNat q.den

instance : NumAlg Float where
  zero := 0.0
  ofRat := ratToFloat
  ln2 := Float.log 2.0
  ln10 := Float.log 10.0
  pow := Float.pow
  fn
    | .neg => fun a => -a
    | .abs => Float.abs
    | .sin => Float.sin
    | .cos => Float.cos
    | .tan => Float.tan
    | .exp => Float.exp
    | .log => Float.log
    | .log2 => Float.log2
    | .log10 => Float.log10
    | .sqrt => Float.sqrt
    | .tanh => Float.tanh
    | .sinh => Float.sinh
    | .cosh => Float.cosh
    | .asin => Float.asin
    | .acos => Float.acos
    | .atan => Float.atan
    | .asinh => Float.asinh
    | .acosh => Float.acosh
    | .atanh => Float.atanh

end Optyx
