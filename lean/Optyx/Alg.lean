/-
  Optyx.Alg — the number algebra an expression is interpreted in.

  `NumAlg α` packages exactly the operations optyx performs on numbers:
  the five binary operators, the 19 unary functions, embedding of literals.
  Instances: `Float` (here, executable, used by the driver) and `ℝ`
  (in `Optyx/Lemmas/Real.lean`, Mathlib, used by the analytic theorems).
  Algebraic theorems are generic in `α`.
-/
import Optyx.Syntax

namespace Optyx

class NumAlg (α : Type) where
  zero  : α
  add   : α → α → α
  sub   : α → α → α
  mul   : α → α → α
  div   : α → α → α
  neg   : α → α
  pow   : α → α → α
  ofRat : Rat → α
  ln2   : α
  ln10  : α
  /-- the 18 non-`neg` entries of `UnaryOp._OPS` (`neg` is the field above). -/
  fn    : UnOp → α → α

/- Deliberately *not* `extends Add α, …`: a second path to `Add ℝ` next to Mathlib's would
   make `ring`/`simp` see two syntactically different additions.  The ℝ instance comes with
   `rfl` simp lemmas turning every field into the ordinary operation. -/

namespace NumAlg
variable {α : Type} [NumAlg α]

def cst : Cst → α
  | .rat q => ofRat q
  | .ln2 => ln2
  | .ln10 => ln10

def binop : BinOp → α → α → α
  | .add, a, b => add a b
  | .sub, a, b => sub a b
  | .mul, a, b => mul a b
  | .div, a, b => div a b
  | .pow, a, b => pow a b

def unop : UnOp → α → α
  | .neg, a => neg a
  | op, a => fn op a

/-- `sum(xs)` as a right fold (the association is irrelevant over ℝ; float
    association is outside the model, DESIGN §4.5). -/
def sum : List α → α
  | [] => zero
  | a :: t => add a (sum t)

/-- `np.dot(c, xs)` with rational coefficients. -/
def wsum : List Rat → List α → α
  | c :: cs, a :: t => add (mul (ofRat c) a) (wsum cs t)
  | _, _ => zero

/-- `np.dot(xs, ys)`. -/
def dotp : List α → List α → α
  | a :: t, b :: u => add (mul a b) (dotp t u)
  | _, _ => zero

/-- `x @ Q @ x` = Σ_i x_i · (Σ_j Q_ij x_j). -/
def quadForm (q : List (List Rat)) (xs : List α) : α :=
  dotp xs (q.map fun row => wsum row xs)

end NumAlg

/-- Executable double-precision instance (what NumPy computes with, up to libm). -/
def ratToFloat (q : Rat) : Float := Float.ofInt q.num / Float.ofNat q.den

instance : NumAlg Float where
  zero := 0.0
  add a b := a + b
  sub a b := a - b
  mul a b := a * b
  div a b := a / b
  neg a := -a
  ofRat := ratToFloat
  ln2 := Float.log 2.0
  ln10 := Float.log 10.0
  pow := Float.pow
  fn
    | .neg => fun a => -a
    | .abs => Float.abs
    | .sin => Float.sin
    | .cos => Float.cos
    | .tan => Float.tan
    | .exp => Float.exp
    | .log => Float.log
    | .log2 => Float.log2
    | .log10 => Float.log10
    | .sqrt => Float.sqrt
    | .tanh => Float.tanh
    | .sinh => Float.sinh
    | .cosh => Float.cosh
    | .asin => Float.asin
    | .acos => Float.acos
    | .atan => Float.atan
    | .asinh => Float.asinh
    | .acosh => Float.acosh
    | .atanh => Float.atanh

end Optyx
