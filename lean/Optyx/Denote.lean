/-
  Optyx.Denote — the mathematical meaning ⟦e⟧ ρ σ of an expression (the spec layer).

  `ρ : String → α` gives the value of each variable *name* (Python's `values`
  dict), `σ : Nat → α` the *current* value of each Parameter object (by oid).
-/
import Optyx.Alg

namespace Optyx
open NumAlg

variable {α : Type} [NumAlg α]

def valsOf (ρ : String → α) (vs : List Var) : List α := vs.map fun v => ρ v.name

mutual
def denote (ρ : String → α) (σ : Nat → α) : Expr → α
  | .const c => cst c
  | .var v => ρ v.name
  | .param p => σ p.oid
  | .bin op l r => binop op (denote ρ σ l) (denote ρ σ r)
  | .un op a => unop op (denote ρ σ a)
  | .linComb cs v => wsum cs (denoteVec ρ σ v)
  | .vecSum v => sum (valsOf ρ v.vars)
  | .exprSum es => sum (denoteList ρ σ es)
  | .dot l r => dotp (denoteVec ρ σ l) (denoteVec ρ σ r)
  | .l2 v => unop .sqrt (dotp (denoteVec ρ σ v) (denoteVec ρ σ v))
  | .l1 v => sum ((denoteVec ρ σ v).map (unop .abs))
  | .quad v q => quadForm q (denoteVec ρ σ v)
  | .powSum v k => sum ((valsOf ρ v.vars).map fun x => NumAlg.pow x (ofRat k))
  | .unSum v op => sum ((valsOf ρ v.vars).map (unop op.toUn))
  | .matSumV m => sum (valsOf ρ m.flat)
  | .matSumE es => sum (denoteList ρ σ es)
  | .frob m => unop .sqrt (dotp (valsOf ρ m.flat) (valsOf ρ m.flat))
def denoteVec (ρ : String → α) (σ : Nat → α) : Vec → List α
  | .vars v => valsOf ρ v.vars
  | .exprs es => denoteList ρ σ es
def denoteList (ρ : String → α) (σ : Nat → α) : ExprList → List α
  | .nil => []
  | .cons e t => denote ρ σ e :: denoteList ρ σ t
end

end Optyx
