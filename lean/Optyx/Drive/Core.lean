/-
  Optyx.Drive.Core — line-protocol commands for the scalar/vector core
  (gradient, evaluation).  Each handler returns `none` when the command is not
  its own, `some out` otherwise (`out` = one output line; "bad-input" when the
  arguments do not decode — never a default value).
-/
import Optyx.Sexp
import Optyx.Denote
import Optyx.Py.Grad

namespace Optyx.Drive
open Optyx

/-- environment from `((name q) ...)`; missing names are NaN so that a wrong
    look-up is visible instead of silently 0 -/
def envOf (l : List Sexp) : Option (String → Float) := do
  let pairs ← l.mapM fun
    | .list [.str n, .atom q] => (parseRat q).map fun r => (n, ratToFloat r)
    | _ => none
  pure fun n => match pairs.find? (·.1 == n) with
    | some p => p.2
    | none => 0.0 / 0.0

def storeOf (l : List Sexp) : Option (Nat → Float) := do
  let pairs ← l.mapM fun
    | .list [.atom o, .atom q] => do
      let k ← o.toNat?; let r ← parseRat q; pure (k, ratToFloat r)
    | _ => none
  pure fun n => match pairs.find? (·.1 == n) with
    | some p => p.2
    | none => 0.0 / 0.0

/-- exact, order-defined rendering of a double: its IEEE bit pattern -/
def showFloat (x : Float) : String := toString x.toBits

def handleCore (cmd : String) (args : List Sexp) : Option String :=
  match cmd, args with
  | "grad", [e, v] =>
    some <| match e.toExpr, v.toVar with
      | some e, some v => showExpr (Py.grad v e)
      | _, _ => "bad-input"
  | "hess", [e, vi, vj] =>
    some <| match e.toExpr, vi.toVar, vj.toVar with
      | some e, some vi, some vj => showExpr (Py.hessEntry e vi vj)
      | _, _, _ => "bad-input"
  | "eval", [e, .list env, .list store] =>
    some <| match e.toExpr, envOf env, storeOf store with
      | some e, some ρ, some σ => showFloat (denote ρ σ e)
      | _, _, _ => "bad-input"
  | "echo", [e] =>
    some <| match e.toExpr with
      | some e => showExpr e
      | none => "bad-input"
  | _, _ => none

end Optyx.Drive
