/-
  Optyx.Drive.Compile — line-protocol commands of the compile / evaluate / traversal unit
  (properties C01, C15).  One output line per command; "bad-input" when arguments do not decode.

    compile EXPR (VAR ..) THR          → "<builder> <IR>" | "raise:<Class>:<detail>"
                                          builder ∈ {param, iter, rec}: which path compile_expression takes
    compilei EXPR (VAR ..)             → IR of _build_evaluator_iterative (fuel 2·size)
    runc EXPR (VAR ..) (q ..) STORE THR→ Float bits of the compiled closure called on the point
    evalpy EXPR ENV STORE              → Float bits of Py.evaluate | raise:MissingValueError:<name>
    dictfn EXPR (VAR ..) ENV STORE THR → Float bits of compile_to_dict_function's dict_fn
    vars EXPR THR                      → sorted distinct names of get_all_variables | "raise:fuel"
    varsrec EXPR / varsiter EXPR       → the two traversals separately
    gradsw EXPR VAR THR                → gradient(expr, wrt) with the depth switch at THR
    graditer EXPR VAR                  → _gradient_iterative on the labelled tree
    depths EXPR                        → "<compiler> <expressions> <autodiff>" depth estimates
    wf EXPR                            → "true" | "false"
-/
import Optyx.Sexp
import Optyx.Drive.Core
import Optyx.Py.Eval
import Optyx.Py.Compile
import Optyx.Py.Vars
import Optyx.Py.GradIter

namespace Optyx.Drive.CompileNs
open Optyx Optyx.Py Optyx.Drive

def showNats (l : List Nat) : String := "(" ++ " ".intercalate (l.map toString) ++ ")"

def showCst : Cst → String
  | .rat q => showRat q
  | .ln2 => "ln2"
  | .ln10 => "ln10"

mutual
partial def showClo : Clo → String
  | .const c => "(k " ++ showCst c ++ ")"
  | .param p => "(par \"" ++ p.name ++ "\")"
  | .idx i => "(ix " ++ toString i ++ ")"
  | .bin op l r => "(b " ++ showBinOp op ++ " " ++ showClo l ++ " " ++ showClo r ++ ")"
  | .un op f => "(u " ++ showUnOp op ++ " " ++ showClo f ++ ")"
  | .dotIdx cs is => "(dotIdx " ++ showRats cs ++ " " ++ showNats is ++ ")"
  | .dotFns cs fs => "(dotFns " ++ showRats cs ++ " " ++ showCloList fs ++ ")"
  | .sumIdx is => "(sumIdx " ++ showNats is ++ ")"
  | .sumFns fs => "(sumFns " ++ showCloList fs ++ ")"
  | .dotVV l r => "(dotVV " ++ showVClo l ++ " " ++ showVClo r ++ ")"
  | .norm v => "(norm " ++ showVClo v ++ ")"
  | .sumAbs v => "(sumAbs " ++ showVClo v ++ ")"
  | .quad v q => "(quad " ++ showVClo v ++ " (" ++ " ".intercalate (q.map showRats) ++ "))"
  | .sqrtSumSq fs => "(sqrtSumSq " ++ showCloList fs ++ ")"
  | .powSumIdx is k => "(powSumIdx " ++ showNats is ++ " " ++ showRat k ++ ")"
  | .unSumIdx is op => "(unSumIdx " ++ showNats is ++ " " ++ showUnOp op.toUn ++ ")"
partial def showVClo : VClo → String
  | .gather is => "(gather " ++ showNats is ++ ")"
  | .fns fs => "(fns " ++ showCloList fs ++ ")"
partial def showCloList (fs : CloList) : String :=
  "(" ++ " ".intercalate (fs.toList.map showClo) ++ ")"
end

def showErr : CErr → String
  | .missing n => "raise:MissingValueError:" ++ n
  | .keyError n => "raise:KeyError:" ++ n
  | .keyId i => "raise:KeyError:id" ++ toString i
  | .index i => "raise:IndexError:" ++ toString i
  | .shape => "raise:shape"
  | .popEmpty => "raise:IndexError:pop"
  | .emptyResult => "raise:InvalidExpressionError:empty"
  | .fuel => "raise:fuel"

def showRes {β : Type} (f : β → String) : Except CErr β → String
  | .ok b => f b
  | .error e => showErr e

/-- the path `compile_expression` takes -/
def builderOf (thr : Nat) (e : Expr) : String :=
  match e with
  | .param _ => "param"
  | e => if depthC e ≥ thr then "iter" else "rec"

/-- partial environment from `((name q) ...)`: absent names are absent (→ MissingValueError) -/
def valuesOf (l : List Sexp) : Option (String → Option Float) := do
  let pairs ← l.mapM fun
    | .list [.str n, .atom q] => (parseRat q).map fun r => (n, ratToFloat r)
    | _ => none
  pure fun n => (pairs.find? (·.1 == n)).map (·.2)

def pointOf (l : List Sexp) : Option (List Float) :=
  (Sexp.toRats l).map fun qs => qs.map ratToFloat

/-- sorted, duplicate-free names (the canonical form of a Python set of Variables) -/
def canonNames (vs : List Var) : String :=
  let names := (vs.map (·.name)).eraseDups
  let sorted := names.toArray.qsort (· < ·) |>.toList
  "(" ++ " ".intercalate (sorted.map fun n => "\"" ++ n ++ "\"") ++ ")"

def handle (cmd : String) (args : List Sexp) : Option String :=
  match cmd, args with
  | "compile", [e, .list vs, .atom thr] =>
    some <| match e.toExpr, Sexp.toVars vs, thr.toNat? with
      | some e, some V, some thr =>
        showRes (fun c => builderOf thr e ++ " " ++ showClo c) (compileExpression thr V e)
      | _, _, _ => "bad-input"
  | "compilei", [e, .list vs] =>
    some <| match e.toExpr, Sexp.toVars vs with
      | some e, some V => showRes showClo (compileIter (2 * e.size) (idxOf V) e)
      | _, _ => "bad-input"
  | "runc", [e, .list vs, .list pt, .list store, .atom thr] =>
    some <| match e.toExpr, Sexp.toVars vs, pointOf pt, storeOf store, thr.toNat? with
      | some e, some V, some x, some σ, some thr =>
        showRes showFloat (do let c ← compileExpression thr V e; compiledValue c x σ)
      | _, _, _, _, _ => "bad-input"
  | "evalpy", [e, .list env, .list store] =>
    some <| match e.toExpr, valuesOf env, storeOf store with
      | some e, some values, some σ => showRes showFloat (evaluate values σ e)
      | _, _, _ => "bad-input"
  | "dictfn", [e, .list vs, .list env, .list store, .atom thr] =>
    some <| match e.toExpr, Sexp.toVars vs, valuesOf env, storeOf store, thr.toNat? with
      | some e, some V, some values, some σ, some thr =>
        showRes showFloat (do let c ← compileExpression thr V e; dictFn c V values σ)
      | _, _, _, _, _ => "bad-input"
  | "vars", [e, .atom thr] =>
    some <| match e.toExpr, thr.toNat? with
      | some e, some thr =>
        match getAllVariables thr e with
        | some vs => canonNames vs
        | none => "raise:fuel"
      | _, _ => "bad-input"
  | "varsrec", [e] =>
    some <| match e.toExpr with
      | some e => canonNames (getVars e)
      | none => "bad-input"
  | "varsiter", [e] =>
    some <| match e.toExpr with
      | some e =>
        match varsIter (skel e) (label 0 e) with
        | some vs => canonNames vs
        | none => "raise:fuel"
      | none => "bad-input"
  | "gradsw", [e, v, .atom thr] =>
    some <| match e.toExpr, v.toVar, thr.toNat? with
      | some e, some v, some thr => showRes showExpr (gradient thr v e)
      | _, _, _ => "bad-input"
  | "graditer", [e, v] =>
    some <| match e.toExpr, v.toVar with
      | some e, some v => showRes showExpr (gradIter (2 * skel e) v (label 0 e))
      | _, _ => "bad-input"
  | "depths", [e] =>
    some <| match e.toExpr with
      | some e => toString (depthC e) ++ " " ++ toString (depthE e) ++ " " ++ toString (depthG e)
      | none => "bad-input"
  | "wf", [e] =>
    some <| match e.toExpr with
      | some e => toString (wfE e)
      | none => "bad-input"
  | _, _ => none

end Optyx.Drive.CompileNs

namespace Optyx.Drive

/-- handler of the compile / evaluate / traversal unit (C01, C15) -/
def handleCompile (cmd : String) (args : List Sexp) : Option String := CompileNs.handle cmd args

end Optyx.Drive
