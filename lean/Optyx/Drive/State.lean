/-
  Optyx.Drive.State — line-protocol commands for the state-machine models (C12, C13, C14).

    phist CTX BOUNDS OPS     Problem cache machine (Py.State.step) over tagged expressions
        CTX    = ((tag deg (var ..)) ..)      deg = n | <nat>
        BOUNDS = ((var lb ub) ..)             lb, ub = n | <rational>
        OPS    = ((min t) (max t) (st t <=) (stl (t <=) ..) (stbad (t <=) ..) (lb v b) (ub v b)
                  (solve "method" 0|1) (vars) (nvars) (bounds))
        output: `obs|flags` per op, joined by ` ; `
    pobs EXPR (VAR ..) ((oid q) ..) OPS   parameter machine (Py.State.pstep) over Float
        OPS    = ((set oid q) (eval ENV) (fn ENV) (jac ENV) (hess ENV)),  ENV = (("name" q) ..)
        output: per op `-` | bits,bits,.. | path:bits,..   joined by ` ; `
    lru CAP (k ..)           CPython lru_cache policy on natural-number keys: `h`/`m` per request
    lrusizes                 the regenerated `maxsize` table of the three process-wide caches
-/
import Optyx.Sexp
import Optyx.Denote
import Optyx.Py.State
import Optyx.Py.LRU
import Optyx.Drive.Core

namespace Optyx.Drive.StateCmd
open Optyx Optyx.Drive Optyx.Py.State

/-! ### phist -/

def optRat : Sexp → Option (Option Rat)
  | .atom "n" => some none
  | .atom q => (parseRat q).map some
  | _ => none

def optNat : Sexp → Option (Option Nat)
  | .atom "n" => some none
  | .atom q => q.toNat?.map some
  | _ => none

def natList (l : List Sexp) : Option (List Nat) :=
  l.mapM fun | .atom a => a.toNat? | _ => none

def ctxOf (l : List Sexp) : Option (Ctx Nat) := do
  let rows ← l.mapM fun
    | .list [.atom t, d, .list vs] => do
      let t ← t.toNat?; let d ← optNat d; let vs ← natList vs; pure (t, d, vs)
    | _ => none
  pure {
    deg := fun t => match rows.find? (·.1 == t) with | some r => r.2.1 | none => none
    vars := fun t => match rows.find? (·.1 == t) with | some r => r.2.2 | none => [] }

def bndOf (l : List Sexp) : Option (Nat → Bnd) := do
  let rows ← l.mapM fun
    | .list [.atom v, lb, ub] => do
      let v ← v.toNat?; let lb ← optRat lb; let ub ← optRat ub; pure (v, (lb, ub))
    | _ => none
  pure fun v => match rows.find? (·.1 == v) with | some r => r.2 | none => (none, none)

def csenseOf : String → Option CSense
  | "<=" => some .le | ">=" => some .ge | "==" => some .eq | _ => none

def conOf : Sexp → Option (Con Nat)
  | .list [.atom t, .atom s] => do let t ← t.toNat?; let s ← csenseOf s; pure ⟨t, s⟩
  | _ => none

def opOf : Sexp → Option (Op Nat)
  | .list [.atom "min", .atom t] => t.toNat?.map .minimize
  | .list [.atom "max", .atom t] => t.toNat?.map .maximize
  | .list [.atom "st", .atom t, .atom s] => do
    let t ← t.toNat?; let s ← csenseOf s; pure (.subjectTo ⟨t, s⟩)
  | .list (.atom "stl" :: cs) => do let cs ← cs.mapM conOf; pure (.subjectToList cs)
  | .list (.atom "stbad" :: cs) => do let cs ← cs.mapM conOf; pure (.subjectToBad cs)
  | .list [.atom "lb", .atom v, b] => do let v ← v.toNat?; let b ← optRat b; pure (.setLb v b)
  | .list [.atom "ub", .atom v, b] => do let v ← v.toNat?; let b ← optRat b; pure (.setUb v b)
  | .list [.atom "solve", .str m, .atom "0"] => some (.solve m false)
  | .list [.atom "solve", .str m, .atom "1"] => some (.solve m true)
  | .list [.atom "vars"] => some .readVariables
  | .list [.atom "nvars"] => some .readNVariables
  | .list [.atom "bounds"] => some .getBounds
  | _ => none

def showCSense : CSense → String
  | .le => "<=" | .ge => ">=" | .eq => "=="

def showModel (m : Model Nat) : String :=
  let s := match m.sense with | .minimize => "min" | .maximize => "max"
  let o := match m.obj with | some t => toString t | none => "-"
  "(" ++ s ++ " " ++ o ++ " (" ++ " ".intercalate (m.cons.map fun c => toString c.expr ++ showCSense c.sense) ++ "))"

def showOptRat : Option Rat → String
  | none => "n"
  | some q => showRat q

def showBnds (bs : List Bnd) : String :=
  "(" ++ " ".intercalate (bs.map fun b => "(" ++ showOptRat b.1 ++ " " ++ showOptRat b.2 ++ ")") ++ ")"

def showNats (l : List Nat) : String := "(" ++ " ".intercalate (l.map toString) ++ ")"

def showOptModel : Option (Model Nat) → String
  | none => "-"
  | some m => showModel m

def showCall : Call Nat → String
  | .linprog method data vars bounds =>
    "linprog " ++ method ++ " data=" ++ showModel data ++ " vars=" ++ showNats vars ++ " bounds=" ++ showBnds bounds
  | .minimize method fns hess vars cur pass =>
    "minimize " ++ method ++ " fns=" ++ showModel fns ++ " hess=" ++ showOptModel hess ++ " vars=" ++ showNats vars
      ++ " cur=" ++ showBnds cur ++ " pass=" ++ (if pass then "1" else "0")

def showErr : Err → String
  | .noObjective => "NoObjectiveError" | .nonLinear => "NonLinearError" | .constraintError => "ConstraintError"

def showObs : Obs Nat → String
  | .unit => "unit"
  | .raised e => "raise:" ++ showErr e
  | .vars vs => "vars:" ++ showNats vs
  | .nvars n => "nvars:" ++ toString n
  | .bounds bs => "bounds:" ++ showBnds bs
  | .failedNoVars => "failed-no-vars"
  | .solved calls => "solved:[" ++ " / ".intercalate (calls.map showCall) ++ "]"

/-- cache-population flags with the model each cache was computed from -/
def showFlags (ctx : Ctx Nat) (s : PState Nat) : String :=
  "V=" ++ showOptModel s.variables ++
  " S=" ++ (match s.solverCache with | some sc => showModel sc.src ++ showBnds sc.bounds | none => "-") ++
  " H=" ++ (match s.solverCache with | some sc => showOptModel sc.hess | none => "-") ++
  " L=" ++ (match s.lpCache with | some lc => showModel lc.src ++ showBnds lc.bounds | none => "-") ++
  " I=" ++ (match s.isLinear with
            | some m => showModel m ++ (if m.isLinear ctx then "T" else "F")
            | none => "-")

def runHist (ctx : Ctx Nat) : PState Nat → List (Op Nat) → List String
  | _, [] => []
  | s, op :: ops =>
    let r := step ctx s op
    (showObs r.2 ++ " | " ++ showFlags ctx r.1) :: runHist ctx r.1 ops

/-! ### pobs -/

def popOf : Sexp → Option (POp Float)
  | .list [.atom "set", .atom o, .atom q] => do let o ← o.toNat?; let q ← parseRat q; pure (.set o q)
  | .list [.atom "eval", .list env] => (envOf env).map .evaluate
  | .list [.atom "fn", .list env] => (envOf env).map .callFn
  | .list [.atom "jac", .list env] => (envOf env).map .callJac
  | .list [.atom "hess", .list env] => (envOf env).map .callHess
  | _ => none

def ratStoreOf (l : List Sexp) : Option (Nat → Rat) := do
  let pairs ← l.mapM fun
    | .list [.atom o, .atom q] => do let k ← o.toNat?; let r ← parseRat q; pure (k, r)
    | _ => none
  pure fun n => match pairs.find? (·.1 == n) with
    | some p => p.2
    | none => 0

def showFloats (l : List Float) : String := ",".intercalate (l.map showFloat)

def runPHist (e : Expr) (vs : List Var) : PSt → List (POp Float) → List String
  | _, [] => []
  | s, op :: ops =>
    let r := pstep e vs s op
    let out := match op with
      | .set _ _ => "-"
      | .callJac _ => (match r.1.jac with | some j => j.path | none => "?") ++ ":" ++ showFloats r.2
      | _ => showFloats r.2
    out :: runPHist e vs r.1 ops

/-! ### lru -/

def runLru (cap : Nat) : List (Nat × Nat) → List Nat → List String
  | _, [] => []
  | c, k :: ks =>
    let hit := (Optyx.Py.LRU.find (fun a b => a == b) k c).isSome
    let r := Optyx.Py.LRU.lookupOrCompute (fun a b => a == b) (Optyx.Py.LRU.lru (fun a b => a == b) cap) id c k
    (if hit then "h" else "m") :: runLru cap r.2 ks

end Optyx.Drive.StateCmd

namespace Optyx.Drive
open Optyx Optyx.Py.State Optyx.Drive.StateCmd

def handleState (cmd : String) (args : List Sexp) : Option String :=
  match cmd, args with
  | "phist", [.list ctx, .list bnd, .list ops] =>
    some <| match ctxOf ctx, bndOf bnd, ops.mapM opOf with
      | some ctx, some bnd, some ops => " ; ".intercalate (runHist ctx (init bnd) ops)
      | _, _, _ => "bad-input"
  | "pobs", [e, .list vs, .list store, .list ops] =>
    some <| match e.toExpr, Sexp.toVars vs, ratStoreOf store, ops.mapM popOf with
      | some e, some vs, some σ, some ops => " ; ".intercalate (runPHist e vs (pinit σ) ops)
      | _, _, _, _ => "bad-input"
  | "lrusizes", [] =>
    some <| " ".intercalate (Optyx.Generated.lruSizes.map fun p => p.1 ++ "=" ++ toString p.2)
  | "lru", [.atom cap, .list ks] =>
    some <| match cap.toNat?, natList ks with
      | some cap, some ks => "".intercalate (runLru cap [] ks)
      | _, _ => "bad-input"
  | _, _ => none

end Optyx.Drive
