/-
  Optyx.Drive.Scipy — line-protocol commands for the SciPy argument-assembly model (C09).
    x0 ((lb ub) ..)                         → (q ..)
    autosel OD (CD ..)                      → method name        (OD/CD = none | k)
    route "method" true|false OD (CD ..)    → lp:none | lp:<m> | nlp:<m>
    gate "method" true|false nBounds nCons  → jac hess bounds constraints (four booleans)
-/
import Optyx.Drive.LP
import Optyx.Py.ScipyArgs

namespace Optyx.Drive.LPNs
open Optyx Optyx.Py

def optNat : Sexp → Option (Option Nat)
  | .atom "none" => some none
  | .atom a => a.toNat?.map some
  | _ => none

def handleScipy (cmd : String) (args : List Sexp) : Option String :=
  match cmd, args with
  | "x0", [.list bounds] =>
    some <| match bounds.mapM (fun (b : Sexp) => match b with
        | .list [l, u] => do let l ← optRat l; let u ← optRat u; pure (l, u)
        | _ => none) with
      | some bs => showRats (initialPoint bs)
      | none => "bad-input"
  | "autosel", [od, .list cds] =>
    some <| match optNat od, cds.mapM optNat with
      | some od, some cds => autoSelect od cds
      | _, _ => "bad-input"
  | "route", [.str m, lin, od, .list cds] =>
    some <| match parseBool lin, optNat od, cds.mapM optNat with
      | some lin, some od, some cds =>
        match route m lin od cds with
        | .lp none => "lp:none"
        | .lp (some mm) => "lp:" ++ mm
        | .nlp mm => "nlp:" ++ mm
      | _, _, _ => "bad-input"
  | "gate", [.str m, uh, .atom nb, .atom nc] =>
    some <| match parseBool uh, nb.toNat?, nc.toNat? with
      | some uh, some nb, some nc =>
        let g := gate m uh nb nc
        s!"{g.passJac} {g.passHess} {g.passBounds} {g.passConstraints}"
      | _, _, _ => "bad-input"
  | _, _ => none

end Optyx.Drive.LPNs
