/-
  Optyx.Drive.Glue — line-protocol command for the `_build_solver_cache` model (C09 / C10).

    glue SENSE OBJ ((S EXPR) ..) (VAR ..) (x ..) STORE THR
        SENSE ∈ {min, max};  S ∈ {"<=", ">=", "=="}
      → obj=<f> grad=(f ..) path=<closure name> cons=((type f (f ..)) ..)    doubles as IEEE bit patterns
      | raise:NoObjectiveError | raise:<compile error> | raise:KeyError | glue-table-mismatch
    OBJ may be the atom `none`.
-/
import Optyx.Sexp
import Optyx.Drive.Core
import Optyx.Drive.Jac
import Optyx.Drive.Compile
import Optyx.Py.ScipyInputs

namespace Optyx.Drive.GlueNs
open Optyx Optyx.Py Optyx.Py.Glue Optyx.Py.Api Optyx.Drive

def senseOf : String → Option Sense
  | "<=" => some .le | ">=" => some .ge | "==" => some .eq | _ => none

def consOf (l : List Sexp) : Option (List (Sense × Expr)) :=
  l.mapM fun
    | .list [.str s, e] => do let s ← senseOf s; let e ← e.toExpr; pure (s, e)
    | _ => none

def showGErr : GErr → String
  | .noObjective => "raise:NoObjectiveError"
  | .compile e => CompileNs.showErr e
  | .jac e => JacNs.showErr e
  | .glue => "glue-table-mismatch"

def showCon (x : List Float) (σ : Nat → Float) (d : ConDict) : String :=
  let f := match d.fun x σ with
    | .ok v => JacNs.showNum v
    | .error e => CompileNs.showErr e
  "(" ++ d.type ++ " " ++ f ++ " " ++ JacNs.showNums (d.jacobian x σ) ++ ")"

def handle (cmd : String) (args : List Sexp) : Option String :=
  match cmd, args with
  | "glue", [.atom sense, obj, .list cons, .list vs, .list pt, .list store, .atom thr] =>
    some <|
      let objE : Option (Option Expr) := match obj with
        | .atom "none" => some none
        | o => (o.toExpr).map some
      let sn : Option ObjSense := match sense with
        | "min" => some .minimize | "max" => some .maximize | _ => none
      match sn, objE, consOf cons, Sexp.toVars vs, JacNs.numsOf pt, JacNs.storeNum store, thr.toNat? with
      | some sn, some objE, some cs, some V, some x, some σ, some thr =>
        match buildSolverCache thr ⟨sn, objE, cs⟩ V with
        | .error e => showGErr e
        | .ok c =>
          let f := match c.objective x σ with
            | .ok v => JacNs.showNum v
            | .error e => CompileNs.showErr e
          "obj=" ++ f ++ " grad=" ++ JacNs.showNums (c.gradient x σ) ++ " path=" ++ c.gradFn.name ++
            " cons=(" ++ " ".intercalate (c.cons.map (showCon x σ)) ++ ")"
      | _, _, _, _, _, _, _ => "bad-input"
  | _, _ => none

end Optyx.Drive.GlueNs
