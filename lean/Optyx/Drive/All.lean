/- registry of line-protocol handlers; `Driver/Main.lean` only loops over stdin -/
import Optyx.Drive.Core
import Optyx.Drive.LP
import Optyx.Drive.Scipy
import Optyx.Drive.Analysis
import Optyx.Drive.Jac
import Optyx.Drive.State
import Optyx.Drive.Api
import Optyx.Drive.Solve
import Optyx.Drive.Compile
import Optyx.Drive.Glue

namespace Optyx.Drive

def handlers : List (String → List Sexp → Option String) :=
  [handleCore, LPNs.handleLP, LPNs.handleScipy, AnalysisNs.handleAnalysis, JacNs.handleJac, handleState, handleApi, handleSolve, handleCompile, GlueNs.handle]

def dispatch (line : String) : String :=
  match Sexp.parseLine line with
  | some (.atom cmd :: args) =>
    match handlers.findSome? (fun h => h cmd args) with
    | some out => out
    | none => "bad-op"
  | _ => "bad-line"

end Optyx.Drive
