/-
  Optyx.Drive.LP — line-protocol commands for the LP pipeline model (C08), over Rat.
    lpargs DATA METHOD            → canonical text of the linprog keyword arguments
    lppost DATA (success status X FUN) → STATUS objective values
  DATA = (C c0 isMax AUB BUB AEQ BEQ BOUNDS NAMES)
    C = (q ..)   isMax = true|false   AUB/AEQ = none | ((q ..) ..)   BUB/BEQ = none | (q ..)
    BOUNDS = ((lb ub) ..) with lb, ub = q | none     NAMES = ("x" ..)
-/
import Optyx.Sexp
import Optyx.Py.LPPipeline

namespace Optyx.Drive.LPNs
open Optyx Optyx.Py Optyx.Py.LPP

def optRat : Sexp → Option (Option Rat)
  | .atom "none" => some none
  | .atom a => (parseRat a).map some
  | _ => none

def optRats : Sexp → Option (Option (List Rat))
  | .atom "none" => some none
  | .list l => (Sexp.toRats l).map some
  | _ => none

def optRows : Sexp → Option (Option (List (List Rat)))
  | .atom "none" => some none
  | .list rows => (rows.mapM fun (r : Sexp) => match r with | .list r => Sexp.toRats r | _ => none).map some
  | _ => none

def parseBool : Sexp → Option Bool
  | .atom "true" => some true
  | .atom "false" => some false
  | _ => none

def parseLPData : Sexp → Option (LPData Rat)
  | .list [.list c, .atom c0, isMax, aub, bub, aeq, beq, .list bounds, .list names] => do
    let c ← Sexp.toRats c
    let c0 ← parseRat c0
    let isMax ← parseBool isMax
    let aub ← optRows aub
    let bub ← optRats bub
    let aeq ← optRows aeq
    let beq ← optRats beq
    let bounds ← bounds.mapM fun (b : Sexp) => match b with
      | .list [l, u] => do let l ← optRat l; let u ← optRat u; pure (l, u)
      | _ => none
    let names ← names.mapM fun (n : Sexp) => match n with | .str s => some s | _ => none
    pure ⟨c, c0, isMax, aub, bub, aeq, beq, bounds, names⟩
  | _ => none

def showOptRat : Option Rat → String
  | none => "none" | some q => showRat q
def showOptRats : Option (List Rat) → String
  | none => "none" | some l => showRats l
def showOptRows : Option (List (List Rat)) → String
  | none => "none" | some rows => "(" ++ " ".intercalate (rows.map showRats) ++ ")"
def showBounds (bs : List (Option Rat × Option Rat)) : String :=
  "(" ++ " ".intercalate (bs.map fun b => "(" ++ showOptRat b.1 ++ " " ++ showOptRat b.2 ++ ")") ++ ")"

def showArgs (a : LinprogArgs Rat) : String :=
  "c=" ++ showRats a.c ++ " A_ub=" ++ showOptRows a.aub ++ " b_ub=" ++ showOptRats a.bub ++
  " A_eq=" ++ showOptRows a.aeq ++ " b_eq=" ++ showOptRats a.beq ++
  " bounds=" ++ (match a.bounds with | none => "none" | some b => showBounds b) ++
  " method=" ++ a.method

def showSolution (s : LPSolution Rat) : String :=
  s.status.name ++ " obj=" ++ showOptRat s.objective ++ " values=(" ++
    " ".intercalate (s.values.map fun p => "(\"" ++ p.1 ++ "\" " ++ showRat p.2 ++ ")") ++ ")"

def handleLP (cmd : String) (args : List Sexp) : Option String :=
  match cmd, args with
  | "lpargs", [d, m] =>
    some <| match parseLPData d, m with
      | some d, .atom "none" => showArgs (lpArgs d none)
      | some d, .str m => showArgs (lpArgs d (some m))
      | _, _ => "bad-input"
  | "lppost", [d, .list [succ, .atom st, x, fn]] =>
    some <| match parseLPData d, parseBool succ, st.toNat?, optRats x, optRat fn with
      | some d, some succ, some st, some x, some fn => showSolution (lpPost d ⟨succ, st, x, fn⟩)
      | _, _, _, _, _ => "bad-input"
  | _, _ => none

end Optyx.Drive.LPNs
