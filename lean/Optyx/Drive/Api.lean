/-
  Optyx.Drive.Api — line-protocol commands for the modelling API (properties C10, C11, C16).

    cmp REL L R                          a <= b / a >= b / a.eq(b) on operand literals
    viol SENSE EXPR ENV STORE TOL        Constraint.evaluate / violation / is_satisfied (doubles)
    scipy SENSE EXPR (VAR ..) ENV STORE  the SciPy dict: type, fun(x), jac(x)
    recipe (STEP ..)                     a program of API calls (see `step`)
    slice N START STOP STEP              positions read by list[slice]
    sortkey "name" | keylt "a" "b"       the natural sort key and its comparison
    evars EXPR | svs EXPR                get_variables / _try_get_single_vector_source
    pvars PERM OBJ (CON ..)              Problem.variables  (PERM ∈ id | rev | rot)
    bounds PERM OBJ (CON ..) ((oid lb ub) ..)   Problem.get_bounds

  Operand literals: (int q) (float q) (npf q) (npi q) (a0 q) (a1 (q ..)) (a2 ((q ..) ..)) (aN ndim len)
    (l1 (q ..)) (l2 ((q ..) ..)) (e EXPR) (vv ..) (ve (E ..)) (mvp ((q ..) ..) VEC) (epow VVAR q)
    (eun VVAR op) (mv "name" oid ((VAR ..) ..)) (me ((E ..) ..))
-/
import Optyx.Sexp
import Optyx.Denote
import Optyx.Drive.Core
import Optyx.Py.VecApi
import Optyx.Py.Constraint
import Optyx.Py.ProblemVars

namespace Optyx.Drive.Api
open Optyx Optyx.Drive Optyx.Py.Api

/-! ### decoding -/

def toRatRows (rows : List Sexp) : Option (List (List Rat)) :=
  rows.mapM fun | .list r => Sexp.toRats r | _ => none

def toExprs (l : List Sexp) : Option (List Expr) := l.mapM Sexp.toExpr

/-- operand literal → (operand, "is a NumPy scalar") -/
def toOperand : Sexp → Option (Operand × Bool)
  | .list [.atom "int", .atom q] => (parseRat q).map fun r => (.pyNum r, false)
  | .list [.atom "float", .atom q] => (parseRat q).map fun r => (.pyNum r, false)
  | .list [.atom "npf", .atom q] => (parseRat q).map fun r => (.pyNum r, true)
  | .list [.atom "npi", .atom q] => (parseRat q).map fun r => (.npNum r, true)
  | .list [.atom "a0", .atom q] => (parseRat q).map fun r => (.arr0 r, false)
  | .list [.atom "a1", .list xs] => (Sexp.toRats xs).map fun r => (.arr1 r, false)
  | .list [.atom "a2", .list rows] => (toRatRows rows).map fun r => (.arr2 r, false)
  | .list [.atom "aN", .atom k, .atom len] => do
    let n ← k.toNat?; let len ← len.toNat?; pure (.arrN n len, false)
  | .list [.atom "l1", .list xs] => (Sexp.toRats xs).map fun r => (.list1 r, false)
  | .list [.atom "l2", .list rows] => (toRatRows rows).map fun r => (.list2 r, false)
  | .list [.atom "e", e] => e.toExpr.map fun x => (.scalar x, false)
  | .list [.atom "ve", .list es] => (toExprs es).map fun x => (.vexpr x, false)
  | .list [.atom "mvp", .list rows, v] => do
    let q ← toRatRows rows; let v ← v.toVec; pure (.mvp q v, false)
  | .list [.atom "epow", v, .atom k] => do
    let v ← v.toVVar; let k ← parseRat k; pure (.epow v k, false)
  | .list [.atom "eun", v, .atom op] => do
    let v ← v.toVVar; let op ← parseVOp op; pure (.eun v op, false)
  | .list [.atom "me", .list rows] => do
    let g ← rows.mapM fun | .list r => toExprs r | _ => none
    pure (.mexpr g, false)
  | s@(.list (.atom "vv" :: _)) => s.toVVar.map fun v => (.vvar v, false)
  | s@(.list (.atom "mv" :: _)) => s.toMVar.map fun m => (.mvar ⟨m.name, m.oid, m.rows, false, false⟩, false)
  | _ => none

def toRel : Sexp → Option Rel
  | .atom "le" => some .le | .atom "ge" => some .ge | .atom "eq" => some .eq | _ => none

def toSense : Sexp → Option Sense
  | .atom "le" => some .le | .atom "ge" => some .ge | .atom "eq" => some .eq | _ => none

def optInt : Sexp → Option (Option Int)
  | .atom "None" => some none
  | .atom a => a.toInt?.map some
  | _ => none

def toKey : Sexp → Option Key
  | .list [.atom "i", .atom k] => k.toInt?.map Key.int
  | .list [.atom "sl", a, b, c] => do
    let a ← optInt a; let b ← optInt b; let c ← optInt c
    pure (.slice ⟨a, b, c⟩)
  | .list [.atom "other"] => some .other
  | _ => none

/-! ### printing -/

def showRows (q : List (List Rat)) : String := "(" ++ " ".intercalate (q.map showRats) ++ ")"
def showExprs (es : List Expr) : String := "(" ++ " ".intercalate (es.map showExpr) ++ ")"
def showGrid (g : List (List Expr)) : String := "(" ++ " ".intercalate (g.map showExprs) ++ ")"
def bit (b : Bool) : String := if b then "1" else "0"

def showMatV (m : MatV) : String :=
  "(mv \"" ++ m.name ++ "\" " ++ bit m.symmetric ++ " " ++ bit m.isTranspose ++ " ("
    ++ " ".intercalate (m.rows.map showVars) ++ "))"

def showOperand : Operand → String
  | .pyNum q => "(num " ++ showRat q ++ ")"
  | .npNum q => "(npnum " ++ showRat q ++ ")"
  | .arr0 q => "(a0 " ++ showRat q ++ ")"
  | .arr1 xs => "(a1 " ++ showRats xs ++ ")"
  | .arr2 q => "(a2 " ++ showRows q ++ ")"
  | .arrN k n => "(aN " ++ toString k ++ " " ++ toString n ++ ")"
  | .list1 xs => "(l1 " ++ showRats xs ++ ")"
  | .list2 q => "(l2 " ++ showRows q ++ ")"
  | .scalar e => "(e " ++ showExpr e ++ ")"
  | .vvar v => showVVar v
  | .vexpr es => "(ve " ++ showExprs es ++ ")"
  | .mvp q v => "(mvp " ++ showRows q ++ " " ++ showVec v ++ ")"
  | .epow v k => "(epow " ++ showVVar v ++ " " ++ showRat k ++ ")"
  | .eun v op => "(eun " ++ showVVar v ++ " " ++ showUnOp op.toUn ++ ")"
  | .mvar m => showMatV m
  | .mexpr g => "(me " ++ showGrid g ++ ")"

def showConstraint (c : Constraint) : String := "(" ++ c.sense.show ++ " " ++ showExpr c.expr ++ ")"

def showOutcome : Outcome → String
  | .single c => "single " ++ showConstraint c
  | .many cs => "many " ++ " ".intercalate (cs.map showConstraint)
  | .raised e => "raise:" ++ e.show
  | .numpyBool => "numpy-bool"

/-! ### recipe programs -/

inductive Val
  | op (o : Operand) (np : Bool)
  | vvs (l : List VVar)
  | vars (l : List Var)
  | newvars (l : List NewVar)
  | out (o : Outcome)
  | err (e : Err)
  | dep                       -- an argument register holds an error
  deriving Inhabited

def showOptRat : Option Rat → String
  | none => "None" | some q => showRat q

def showVal : Val → String
  | .op o _ => "(ok " ++ showOperand o ++ ")"
  | .vvs l => "(ok (vvs " ++ " ".intercalate (l.map showVVar) ++ "))"
  | .vars l => "(ok (vars " ++ showVars l ++ "))"
  | .newvars l => "(ok (newvars " ++ " ".intercalate
      (l.map fun n => "(" ++ showVar n.v ++ " " ++ showOptRat n.lb ++ " " ++ showOptRat n.ub ++ ")") ++ "))"
  | .out o => "(ok (" ++ showOutcome o ++ "))"
  | .err e => "(err " ++ e.show ++ ")"
  | .dep => "(err dep)"

structure RSt where
  regs : Array Val := #[]
  next : Nat := 1

/-- argument: register reference or literal -/
def getArg (st : RSt) : Sexp → Option Val
  | .list [.atom "r", .atom k] => k.toNat?.bind fun i => st.regs[i]?
  | s => (toOperand s).map fun p => Val.op p.1 p.2

def ofExcept {α} (f : α → Val) : Except Err α → Val
  | .ok a => f a
  | .error e => .err e

def opv (o : Operand) : Val := .op o false

def toBinOp : Sexp → Option BinOp
  | .atom a => parseBinOp a
  | _ => none

/-- one API call; returns the value for the next register and the new object-id counter -/
def step (st : RSt) (s : Sexp) : Option (Val × Nat) :=
  let n := st.next
  -- unary helper: evaluates the argument, propagates errors
  let with1 (a : Sexp) (f : Operand → Bool → Option (Val × Nat)) : Option (Val × Nat) :=
    match getArg st a with
    | some (.op o np) => f o np
    | some (.err _) | some .dep => some (.dep, n)
    | some _ => some (.err .outsideModel, n)
    | none => none
  let with2 (a b : Sexp) (f : Operand → Bool → Operand → Bool → Option (Val × Nat)) : Option (Val × Nat) :=
    with1 a fun x xn => with1 b fun y yn => f x xn y yn
  match s with
  | .list [.atom "vec", .str name, .atom k] => do
    let k ← k.toInt?
    match mkVector name k n with
    | .ok (v, nx) => pure (opv (.vvar v), nx)
    | .error e => pure (.err e, n)
  | .list [.atom "mat", .str name, .atom r, .atom c, .atom sym] => do
    let r ← r.toInt?; let c ← c.toInt?
    match mkMatrix name r c (sym == "1") n with
    | .ok (m, nx) => pure (opv (.mvar m), nx)
    | .error e => pure (.err e, n)
  | .list [.atom "imm", a] => with1 a fun o np => some (.op o np, n)
  | .list [.atom "getitem", a, k] => do
    let k ← toKey k
    with1 a fun o _ =>
      match o with
      | .vvar v => some (match vGetItem v k n with
          | .ok (.var x) => (opv (.scalar (.var x)), n)
          | .ok (.vec w) => (opv (.vvar w), n + 1)
          | .error e => (.err e, n))
      | .vexpr es => some (match k with
          | .int i => (ofExcept (fun e => opv (.scalar e)) (veIndex es i), n)
          | _ => (.err .typeError, n))
      | .mvp q v => some (match k with
          | .int i => (ofExcept (fun e => opv (.scalar e)) (veIndex (mvpElems q v) i), n)
          | _ => (.err .typeError, n))
      | _ => some (.err .outsideModel, n)
  | .list [.atom "mgetitem", a, rk, ck] => do
    let rk ← toKey rk; let ck ← toKey ck
    with1 a fun o _ =>
      match o with
      | .mvar m => some (match matGetItem m true rk ck n with
          | .ok (.var x) => (opv (.scalar (.var x)), n)
          | .ok (.vec w) => (opv (.vvar w), n + 1)
          | .ok (.mat w) => (opv (.mvar w), n + 1)
          | .error e => (.err e, n))
      | .mexpr g => some (match rk, ck with
          | .int i, .int j => (ofExcept (fun e => opv (.scalar e)) (mexprGetItem g i j), n)
          | _, _ => (.err .typeError, n))
      | _ => some (.err .outsideModel, n)
  | .list [.atom "mgetitem1", a] =>
    with1 a fun o _ =>
      match o with
      | .mvar m => some (match matGetItem m false .other .other n with
          | .ok _ => (.err .outsideModel, n)
          | .error e => (.err e, n))
      | _ => some (.err .outsideModel, n)
  | .list [.atom "arith", op, a, b] => do
    let op ← toBinOp op
    with2 a b fun x _ y _ => some (ofExcept opv (arith op x y), n)
  | .list [.atom "neg", a] =>
    with1 a fun o _ =>
      match o.toVecLike?, o.toMatLike?, o with
      | some v, _, _ => some (ofExcept (fun es => opv (.vexpr es)) (vectorNeg v), n)
      | _, some m, _ => some (ofExcept (fun g => opv (.mexpr g)) (matrixNeg m), n)
      | _, _, .scalar e => some (opv (.scalar (.un .neg e)), n)
      | _, _, _ => some (.err .outsideModel, n)
  | .list [.atom "sum", a] =>
    with1 a fun o _ =>
      match o with
      | .vvar v => some (opv (.scalar (vectorSum (.vvar v))), n)
      | .vexpr es => some (opv (.scalar (vectorSum (.vexpr es))), n)
      | .mvp q v => some (opv (.scalar (vectorSum (.vexpr (mvpElems q v)))), n)
      | .epow v k => some (opv (.scalar (vectorSum (.epow v k))), n)
      | .eun v f => some (opv (.scalar (vectorSum (.eun v f))), n)
      | .mvar m => some (opv (.scalar (matrixSum (.mvar m))), n)
      | .mexpr g => some (opv (.scalar (matrixSum (.mexpr g))), n)
      | _ => some (.err .outsideModel, n)
  | .list [.atom "dot", a, b] =>
    with2 a b fun x _ y _ =>
      match x with
      | .vvar v => some (ofExcept (fun e => opv (.scalar e)) (vvarDot v y), n)
      | .vexpr es => some (ofExcept (fun e => opv (.scalar e)) (vexprDot es y), n)
      | .mvp q v => some (ofExcept (fun e => opv (.scalar e)) (vexprDot (mvpElems q v) y), n)
      | _ => some (.err .outsideModel, n)
  | .list [.atom "matmul", a, b] =>
    with2 a b fun x _ y _ =>
      some (match matmul x y with
        | .ok (.scalar e) => opv (.scalar e)
        | .ok (.vexpr es) => opv (.vexpr es)
        | .ok (.mvp q v) => opv (.mvp q v)
        | .error e => .err e, n)
  | .list [.atom "norm", a, .atom ord] => do
    let ord ← ord.toInt?
    with1 a fun o _ =>
      match o.toVec?, o with
      | some v, .vvar _ => some (ofExcept (fun e => opv (.scalar e)) (vecNorm v ord), n)
      | some v, _ => some (ofExcept (fun e => opv (.scalar e)) (vecNorm v ord), n)
      | none, _ => some (.err .outsideModel, n)
  | .list [.atom "fn", .atom f, a] => do
    let f ← parseVOp f
    with1 a fun o _ => some (ofExcept opv (applyFn f o), n)
  | .list [.atom "T", a] =>
    with1 a fun o _ =>
      match o with
      | .mvar m => some (opv (.mvar (matT m n)), n + 1)
      | .mexpr g => some (ofExcept (fun g => opv (.mexpr g)) (mexprT g), n)
      | _ => some (.err .outsideModel, n)
  | .list [.atom "rows", a] =>
    with1 a fun o _ =>
      match o with
      | .mvar m => some (.vvs (matRowsIter m n), n + m.nrows)
      | _ => some (.err .outsideModel, n)
  | .list [.atom "cols", a] =>
    with1 a fun o _ =>
      match o with
      | .mvar m => some (.vvs (matColsIter m n), n + m.ncols)
      | _ => some (.err .outsideModel, n)
  | .list [.atom "nth", a, .atom i] => do
    let i ← i.toNat?
    match getArg st a with
    | some (.vvs l) => some (match l[i]? with | some v => opv (.vvar v) | none => .err .index, n)
    | some (.err _) | some .dep => some (.dep, n)
    | some _ => some (.err .outsideModel, n)
    | none => none
  | .list [.atom "diagonal", a] =>
    with1 a fun o _ =>
      match o with
      | .mvar m => some (match matDiagonal m n with
          | .ok v => (opv (.vvar v), n + 1)
          | .error e => (.err e, n))
      | _ => some (.err .outsideModel, n)
  | .list [.atom "diag", a] =>
    with1 a fun o _ => some (match diagFn o n with
      | .ok v => (opv (.vvar v), n + 1)
      | .error e => (.err e, n))
  | .list [.atom "trace", a] =>
    with1 a fun o _ =>
      match o with
      | .mvar m => some (ofExcept (fun e => opv (.scalar e)) (matTrace m), n)
      | _ => some (.err .outsideModel, n)
  | .list [.atom "getvars", a] =>
    with1 a fun o _ =>
      match o with
      | .mvar m => some (.vars (matGetVariables m), n)
      | .vvar v => some (.vars v.vars, n)
      | _ => some (.err .outsideModel, n)
  | .list [.atom "mvp", a, b] =>
    with2 a b fun x _ y _ =>
      match x.asArrayOrList, y.toVec? with
      | some (.d2 q), some v => some (ofExcept (fun p => opv (.mvp p.1 p.2)) (mkMVP q v), n)
      | some _, some _ => some (.err .wrongDimensionality, n)
      | _, _ => some (.err .outsideModel, n)
  | .list [.atom "qf", a, b] =>
    with2 a b fun x _ y _ =>
      match x.toVec? with
      | some v => some (ofExcept (fun e => opv (.scalar e)) (mkQuad v y), n)
      | none => some (.err .outsideModel, n)
  | .list [.atom "lincomb", a, b] =>
    with2 a b fun x _ y _ =>
      match x.asArrayOrList, y.toVec? with
      | some (.d1 cs), some v => some (ofExcept (fun e => opv (.scalar e)) (mkLinComb cs v), n)
      | _, _ => some (.err .outsideModel, n)
  | .list [.atom "diagmat", a] =>
    with1 a fun o _ =>
      match o with
      | .vvar v =>
        let (m, _, nx) := diagMatrix v n
        some (opv (.mvar m), nx)
      | _ => some (.err .outsideModel, n)
  | .list [.atom "diagmat_new", a] =>
    with1 a fun o _ =>
      match o with
      | .vvar v =>
        let (_, news, nx) := diagMatrix v n
        some (.newvars news, nx)
      | _ => some (.err .outsideModel, n)
  | .list [.atom "frob", a] =>
    with1 a fun o _ =>
      match o with
      | .mvar m => some (opv (.scalar (frobenius m)), n)
      | _ => some (.err .outsideModel, n)
  | .list [.atom "cmp", rel, a, b] => do
    let rel ← toRel rel
    with2 a b fun x xn y yn => some (.out (compare x y xn yn rel), n)
  | _ => none

def runRecipe (steps : List Sexp) : Option (List String) :=
  let rec go (st : RSt) (l : List Sexp) (acc : List String) : Option (List String) :=
    match l with
    | [] => some acc.reverse
    | s :: t =>
      match step st s with
      | none => none
      | some (v, nx) => go { regs := st.regs.push v, next := nx } t (showVal v :: acc)
  go {} steps []

/-! ### the handler -/

def permOf : Sexp → Option (List Var → List Var)
  | .atom "id" => some id
  | .atom "rev" => some List.reverse
  | .atom "rot" => some fun l => l.drop (l.length / 2) ++ l.take (l.length / 2)
  | _ => none

def toObj : Sexp → Option (Option Expr)
  | .atom "none" => some none
  | s => s.toExpr.map some

def showStr (s : String) : String := "\"" ++ s ++ "\""

def showKeyPart : KeyPart → String
  | .s cs => showStr (String.ofList (cs.map Char.ofNat))
  | .n k => toString k

def toBoundsTable (l : List Sexp) : Option (Nat → Option (Option Rat × Option Rat)) := do
  let rows ← l.mapM fun
    | .list [.atom o, .atom lb, .atom ub] => do
      let k ← o.toNat?
      let p (s : String) : Option (Option Rat) := if s == "None" then some none else (parseRat s).map some
      let lb ← p lb; let ub ← p ub
      pure (k, (lb, ub))
    | _ => none
  pure fun oid => (rows.find? (·.1 == oid)).map (·.2)

def handle (cmd : String) (args : List Sexp) : Option String :=
  match cmd, args with
  | "cmp", [rel, l, r] =>
    some <| match toRel rel, toOperand l, toOperand r with
      | some rel, some (l, ln), some (r, rn) => showOutcome (compare l r ln rn rel)
      | _, _, _ => "bad-input"
  | "viol", [s, e, .list env, .list store, .atom tol] =>
    some <| match toSense s, e.toExpr, envOf env, storeOf store, parseRat tol with
      | some s, some e, some ρ, some σ, some tol =>
        let c : Constraint := ⟨e, s⟩
        showFloat (c.evaluate ρ σ) ++ " " ++ showFloat (c.violation ρ σ) ++ " "
          ++ toString (c.isSatisfied ρ σ (ratToFloat tol))
      | _, _, _, _, _ => "bad-input"
  | "scipy", [s, e, .list vars, .list env, .list store] =>
    some <| match toSense s, e.toExpr, Sexp.toVars vars, envOf env, storeOf store with
      | some s, some e, some vars, some ρ, some σ =>
        let d : ScipyDict Unit Float :=
          scipyConstraint s (fun _ => denote ρ σ e) (fun _ => vars.map fun v => denote ρ σ (Py.grad v e))
        (match d.type with | .ineq => "ineq" | .eq => "eq") ++ " " ++ showFloat (d.fn ())
          ++ " (" ++ " ".intercalate ((d.jac ()).map showFloat) ++ ")"
      | _, _, _, _, _ => "bad-input"
  | "recipe", [.list steps] =>
    some <| match runRecipe steps with
      | some outs => "(" ++ " ".intercalate outs ++ ")"
      | none => "bad-input"
  | "slice", [.atom n, a, b, c] =>
    some <| match n.toNat?, optInt a, optInt b, optInt c with
      | some n, some a, some b, some c =>
        match sliceIdx n ⟨a, b, c⟩ with
        | .ok idx => "(" ++ " ".intercalate (idx.map toString) ++ ")"
        | .error e => "raise:" ++ e.show
      | _, _, _, _ => "bad-input"
  | "sortkey", [.str name] =>
    some ("(" ++ " ".intercalate ((sortKey name).map showKeyPart) ++ ")")
  | "keylt", [.str a, .str b] =>
    some <| match keyLt? a b with
      | some true => "true" | some false => "false" | none => "raise:TypeError"
  | "evars", [e] =>
    some <| match e.toExpr with
      | some e => "(" ++ " ".intercalate ((exprVarNames e).map showStr) ++ ")"
      | none => "bad-input"
  | "svs", [e] =>
    some <| match e.toExpr with
      | some e => (match singleVectorSource e with
        | some v => "(src " ++ showStr v.name ++ " " ++ toString v.oid ++ ")"
        | none => "none")
      | none => "bad-input"
  | "pvars", [perm, obj, .list cons] =>
    some <| match permOf perm, toObj obj, toExprs cons with
      | some perm, some obj, some cons =>
        let path := match shortcutSource obj cons with | some _ => "shortcut" | none => "general"
        path ++ " (" ++ " ".intercalate ((problemVariables perm obj cons).map fun v => showStr v.name) ++ ")"
      | _, _, _ => "bad-input"
  | "bounds", [perm, obj, .list cons, .list table] =>
    some <| match permOf perm, toObj obj, toExprs cons, toBoundsTable table with
      | some perm, some obj, some cons, some bnd =>
        "(" ++ " ".intercalate ((getBounds bnd perm obj cons).map fun
          | some (lb, ub) => "(" ++ showOptRat lb ++ " " ++ showOptRat ub ++ ")"
          | none => "(missing)") ++ ")"
      | _, _, _, _ => "bad-input"
  | _, _ => none

end Optyx.Drive.Api

namespace Optyx.Drive

/-- the handler of the modelling-API unit (everything else of this file lives in `Optyx.Drive.Api`) -/
def handleApi (cmd : String) (args : List Sexp) : Option String := Api.handle cmd args

end Optyx.Drive
